#!/bin/sh
# runs every claimed check (quick by default) and prints one summary line each
cd "$(dirname "$0")/.." || exit 1
TIER=${1:-quick}
for p in $(python3-vt -c "import json;print(' '.join(c['property_id'] for c in json.load(open('MANIFEST.json'))['checks']))"); do
  ./check $p --tier $TIER 2>&1 | grep -E "^(VIOLATION|KNOWN|CHECKER|UNDECIDED|$p tier)" | cut -c1-260
done
