#!/bin/sh
# usage: tools/seed_eval.sh <seed-id> <property> [<worktree-with-SEED-dir>]
# 1. copies SEED/{patch.diff,demo.py,notes.md} into /verif/seeded/<seed-id>/ (if a worktree is given)
# 2. confirms the demonstration in a scratch worktree of /repo (fails with the change, passes without)
# 3. applies the patch to /repo, runs the quick check of the property (and prints VIOLATION lines), and undoes it
set -u
ID=$1; PROP=$2; SRC=${3:-}
HERE="$(cd "$(dirname "$0")/.." && pwd)"
D="$HERE/seeded/$ID"
mkdir -p "$D"
if [ -n "$SRC" ]; then cp "$SRC/SEED/patch.diff" "$SRC/SEED/demo.py" "$D/"; cp "$SRC/SEED/notes.md" "$D/notes.md" 2>/dev/null; fi
WT=$(mktemp -d /tmp/seedeval_XXXX); rmdir "$WT"
git -C /repo worktree add -q "$WT" HEAD || exit 3
( cd "$WT" && PYTHONPATH="$WT" timeout 120 /venv/bin/python "$D/demo.py" >/dev/null 2>&1; echo "demo-without-change rc=$?" )
git -C "$WT" apply "$D/patch.diff" || { echo "patch does not apply"; git -C /repo worktree remove --force "$WT"; exit 3; }
( cd "$WT" && PYTHONPATH="$WT" timeout 120 /venv/bin/python "$D/demo.py" >/dev/null 2>&1; echo "demo-with-change rc=$?" )
if [ "${RUN_SUITE:-0}" = "1" ]; then
  ( cd "$WT" && PYTHONPATH="$WT" timeout 1500 /venv/bin/python -m pytest -q -p no:cacheprovider --timeout=900 test_syncobj.py 2>&1 | tail -1 )
fi
git -C /repo worktree remove --force "$WT"
git -C /repo apply "$D/patch.diff" || { echo "patch does not apply to /repo"; exit 3; }
( cd "$HERE" && ./check "$PROP" --no-evidence 2>&1 | grep -E "^(VIOLATION|UNDECIDED|CHECKER|$PROP tier)" | sed 's#/verif/replays/##' | cut -c1-230 )
git -C /repo checkout -- .
git -C /repo status --short | head -3
