#!/bin/sh
# re-runs every seeded change against the current machinery in a scratch worktree (PYVC_REPO), /repo itself is not touched.
# usage: tools/seed_regress.sh [seed-id ...]   -> one line per seed: id property rc first-violation
HERE="$(cd "$(dirname "$0")/.." && pwd)"
WT=$(mktemp -d /tmp/seedreg_XXXX); rmdir "$WT"
git -C /repo worktree add -q "$WT" HEAD || exit 3
IDS="$@"
[ -z "$IDS" ] && IDS=$(ls "$HERE/seeded" | grep -v json | grep -v log)
for ID in $IDS; do
  D="$HERE/seeded/$ID"
  [ -f "$D/patch.diff" ] || continue
  PROP=$(python3 -c "import json;print(json.load(open('$D/meta.json'))['property'])" 2>/dev/null) || continue
  git -C "$WT" checkout -q -- . && git -C "$WT" apply "$D/patch.diff" 2>/dev/null || { echo "$ID $PROP patch-does-not-apply"; continue; }
  UNITS=$(python3 - "$D/meta.json" <<'PY'
import json, re, sys
m = json.load(open(sys.argv[1]))
us = []
for c in m.get('caught_by', []):
    head = c.split(':', 1)[0]
    for u in re.split(r'[,/]| and ', head):
        u = u.strip()
        if re.match(r'^[A-Za-z_][A-Za-z0-9_.\-]*$', u) and not u.startswith(('lemma', 'bounded', 'new')):
            us.append(u)
print(','.join(dict.fromkeys(us)))
PY
)
  if [ -n "$UNITS" ] && [ "${FULL:-0}" != "1" ]; then
    OUT=$(cd "$HERE" && PYVC_REPO="$WT" ./check "$PROP" --no-evidence --units "$UNITS" 2>&1)
  else
    OUT=$(cd "$HERE" && PYVC_REPO="$WT" ./check "$PROP" --no-evidence 2>&1)
  fi
  RC=$?
  V=$(echo "$OUT" | grep -E "^VIOLATION" | head -1 | sed 's/.*obligation=//' | cut -c1-110)
  U=$(echo "$OUT" | grep -E "^(UNDECIDED|CHECKER)" | head -1 | cut -c1-90)
  echo "$ID $PROP rc=$RC ${V:-$U}"
done
git -C /repo worktree remove --force "$WT"
