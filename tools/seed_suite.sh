#!/bin/sh
# runs the unedited test-suite on a scratch worktree with each given seed applied; writes seeded/<id>/suite.log
HERE="$(cd "$(dirname "$0")/.." && pwd)"
for ID in "$@"; do
  D="$HERE/seeded/$ID"
  WT=$(mktemp -d /tmp/seedsuite_XXXX); rmdir "$WT"
  git -C /repo worktree add -q "$WT" HEAD || continue
  git -C "$WT" apply "$D/patch.diff"
  ( cd "$WT" && PYTHONPATH="$WT" timeout 1700 /venv/bin/python -m pytest -q -p no:cacheprovider --timeout=900 test_syncobj.py 2>&1 | tail -8 ) > "$D/suite.log" 2>&1
  git -C /repo worktree remove --force "$WT"
done
