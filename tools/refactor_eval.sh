#!/bin/sh
# usage: tools/refactor_eval.sh <patch> <prop> [<prop> ...] : apply a behaviour-preserving patch to /repo, run the quick checks, undo it.
# A VIOLATION here is a FALSE ALARM of the machinery.
P=$1; shift
HERE="$(cd "$(dirname "$0")/.." && pwd)"
git -C /repo apply "$P" || { echo "patch does not apply"; exit 3; }
for PROP in "$@"; do
  ( cd "$HERE" && ./check "$PROP" --no-evidence 2>&1 | grep -E "^(VIOLATION|UNDECIDED|CHECKER|$PROP tier)" | sed 's#/verif/replays/##' | cut -c1-230 | head -6 )
done
git -C /repo checkout -- .
