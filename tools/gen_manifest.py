#!/usr/bin/env python3
"""regenerates MANIFEST.json from contracts/props.py (run with python3-vt from /verif)"""
import json, os, sys
sys.path.insert(0, os.path.dirname(os.path.dirname(os.path.abspath(__file__))))
from contracts import props

NA_FIXED = {
    'C05': 'liveness over whole fault histories ("eventually, within a bounded number of election timeouts"): no pre/postcondition or invariant on single calls expresses eventual progress of a cluster; see DESIGN.md C05',
    'C19': 'quantifies over thread interleavings; the VC generator reasons about sequential executions of one function and no installed verifier has a thread/permission model for Python; see DESIGN.md C19',
}
ALL = ['C%02d' % i for i in range(1, 21)]
checks = []
for pid in ALL:
    P = props.PROPS.get(pid)
    if not P:
        continue
    checks.append(dict(
        property_id=pid,
        quick_cmd='./check %s --tier quick' % pid,
        thorough_cmd='./check %s --tier thorough' % pid,
        evidence_file='evidence/%s.json' % pid,
        replay_cmd_template='./check %s --replay {path}' % pid,
        engine='pyvc',
        level_claimed=dict(category=P.get('level', 'proof'), text=P['level_text'], design_ref=P.get('design_ref', 'DESIGN.md §4 ' + pid)),
        level_note=P['level_note'],
        technique=P.get('technique', 'contract-based deductive verification: VCs generated from the real Python AST (pyvc), discharged by z3/cvc5'),
    ))
na = []
for pid in ALL:
    if pid in props.PROPS:
        continue
    na.append(dict(property_id=pid, reason=NA_FIXED.get(pid) or props.NOT_BUILT.get(pid, 'contracts for this property are not built yet in this round (see DESIGN.md §7)')))
man = dict(
    version=1,
    setup_cmd='./setup.sh',
    hooks=dict(guard='BAKWC_PYSYNCOBJ_VERIF', enable='no hooks: the checks read /repo source and drive real objects through public constructors (stub Transport via the transport= parameter)',
               baseline_off_cmd='cd /repo && /venv/bin/python -m pytest -ra -q -p no:cacheprovider --timeout=900 --continue-on-collection-errors',
               source_commits=[], add_only=True),
    engines=[dict(name='pyvc', path='pyvc/', serves_properties=[c['property_id'] for c in checks],
                  kind_free_text='verification-condition generator for a Python subset: symbolic execution of the real AST of /repo functions against sidecar contracts (contracts/), per-path obligations discharged by z3 5.1 (python API) with cvc5 / z3 4.8 CLI as second opinion; loop invariants, modular callee summaries, canary mutations, native replay of counter-models')],
    checks=checks,
    notes='Exit codes of ./check: 0 held, 1 violation (VIOLATION line), 2 undecided (construct outside subset / obligation not discharged without code change), 3 checker error.',
    not_applicable=na,
)
with open(os.path.join(os.path.dirname(os.path.dirname(os.path.abspath(__file__))), 'MANIFEST.json'), 'w') as f:
    json.dump(man, f, indent=1)
print('MANIFEST.json: %d checks, %d not_applicable' % (len(checks), len(na)))
