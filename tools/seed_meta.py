#!/usr/bin/env python3
"""writes seeded/<id>/meta.json from the table below (what each seeded change breaks, what it needs, what was run, who catches it)"""
import json, os
HERE = os.path.dirname(os.path.dirname(os.path.abspath(__file__)))
T = {
 'C08-grow-once': dict(property='C08', needs='an append whose record needs more than one doubling of the journal file (e.g. 3000 bytes into a fresh 1024-byte file)',
     caught_by=['ResizableFile.write: O8.1.no-exception, O8.1.fits (native replay reproduces: IndexError on a 3000-byte record)'], first_result='caught'),
 'C13-incomplete-check': dict(property='C13', needs='a read boundary inside the last 1-4 bytes of a frame',
     caught_by=['tcp.parse: O13.4.delivers-only-complete-valid-frames, O13.4.consumes-exactly-the-frame, O13.4.disconnects-only-on-invalid-frame (native replay: frame cut 4 bytes short is parsed)'], first_result='caught (native replay added afterwards: the replayer now runs every cut position of a real frame)'),
 'C02-subscribe-own-term': dict(property='C02', needs='follower forwards a command, sees a higher-term request_vote, then the deposed leader\'s reply arrives; new leader overwrites the index',
     caught_by=['msg.apply_command_response: O2.5.subscribed-at-reported-index-and-term'], first_result='caught (no native replayer for this unit: no-failing-input-found)'),
 'C04-verified-is-own-last': dict(property='C04', needs='follower with a stale older-term tail receives an all-matching shorter batch (reset reply in flight, batch limit, three leader changes)',
     caught_by=['msg.append_entries: R8.commit-within-verified-prefix (native replay reproduces), G.success-reply-names-verified-prefix'], first_result='caught'),
 'C03-uptodate-tuple-order': dict(property='C03', needs='deposed leader with a long uncommitted older-term tail campaigns against a voter of the new majority',
     caught_by=['msg.request_vote: R2.candidate-log-up-to-date (native replay reproduces)'], first_result='MISSED at first: the engine answered "undecided" (tuple comparison outside the subset); lexicographic tuple ordering was added to the interpreter, now caught'),
 'C06-trim-beyond-dump': dict(property='C06', needs='commands applied between the tick that starts a dump and the tick that notices it finished, then a restart',
     caught_by=['tryLogCompaction: O6.4.trim-exactly-to-the-snapshot-point'], first_result='caught'),
 'C01-truncate-when-all-match': dict(property='C01', needs='duplicate append_entries covering a middle slice of the follower log (held-back ack, nextIndex rewind, link drop, election)',
     caught_by=['msg.append_entries: R7.no-deletion-without-conflict (native replay reproduces)'], first_result='caught'),
 'C10-rollback-off-by-one': dict(property='C10', needs='leader change where the follower has a divergent uncommitted entry directly after a membership entry',
     caught_by=['msg.append_entries.membership: O10.3.rollback-loop.init.visits-exactly-the-deleted-entries'], first_result='MISSED at first: follower membership loops were not under contract; unit msg.append_entries.membership (loop contracts for the rollback and apply loops) was added, now caught'),
}
EXTRA = {}
p = os.path.join(HERE, 'seeded', 'extra_meta.json')
if os.path.exists(p):
    EXTRA = json.load(open(p))
T.update(EXTRA)
for k, v in T.items():
    d = os.path.join(HERE, 'seeded', k)
    if not os.path.isdir(d):
        continue
    v = dict(v)
    v['id'] = k
    v['files'] = sorted(os.listdir(d))
    v['ran'] = ['tools/seed_eval.sh %s %s  (scratch worktree: demo.py exits 0 without the patch and 1 with it; then `git -C /repo apply patch.diff; ./check %s; git -C /repo checkout -- .`)' % (k, v['property'], v['property']),
                'full test-suite with the patch applied in a scratch worktree: same 38 passed / 4 baseline failures (see suite_log in this file when recorded)']
    v.setdefault('origin', 'fresh sub-agent given only the property text and its own scratch worktree')
    json.dump(v, open(os.path.join(d, 'meta.json'), 'w'), indent=1)
print('meta written for', len([k for k in T if os.path.isdir(os.path.join(HERE, 'seeded', k))]))
