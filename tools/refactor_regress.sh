#!/bin/sh
# re-runs the behaviour-preserving refactorings (refactors/R*/patch*.diff) in a scratch worktree; a VIOLATION line is a false alarm
HERE="$(cd "$(dirname "$0")/.." && pwd)"
WT=$(mktemp -d /tmp/refreg_XXXX); rmdir "$WT"
git -C /repo worktree add -q "$WT" HEAD || exit 3
run() { # patch props...
  case "$1" in ${ONLY:-*}) ;; *) return;; esac
  P=$1; shift
  git -C "$WT" checkout -q -- . && git -C "$WT" apply "$HERE/refactors/$P" 2>/dev/null || { echo "$P patch-does-not-apply"; return; }
  for PROP in "$@"; do
    OUT=$(cd "$HERE" && PYVC_REPO="$WT" ./check "$PROP" --no-evidence 2>&1); RC=$?
    echo "$P $PROP rc=$RC $(echo "$OUT" | grep -E '^(VIOLATION|UNDECIDED|CHECKER)' | head -2 | cut -c1-160 | tr '\n' '|')"
  done
}
run R1/patch_1.diff C04 C18 C20
run R1/patch_2.diff C20
run R1/patch_3.diff C01
run R2/patch_1.diff C08
run R2/patch_2.diff C08
run R2/patch_3.diff C13
run R3/patch_1.diff C02
run R3/patch_2.diff C01 C17
run R3/patch_3.diff C11
run R4/patch_1.diff C16
run R4/patch_2.diff C09
run R4/patch_3.diff C15
run R5/patch.diff C11
run R6/patch_1.diff C08
run R6/patch_2.diff C08
run R6/patch_3.diff C13
run R7/patch_1.diff C14
run R7/patch_2.diff C14 C13
run R7/patch_3.diff C14
run R8/patch_1.diff C10
run R8/patch_2.diff C17
run R8/patch_3.diff C09 C06
run R9/patch_1.diff C16
run R9/patch_2.diff C16
run R9/patch_3.diff C11
run R10/patch_1.diff C03
run R10/patch_2.diff C03 C07
run R10/patch_3.diff C04 C20
run R11/patch_1.diff C01 C09
run R11/patch_2.diff C17 C12
run R11/patch_3.diff C09
run R12/patch_1.diff C02
run R12/patch_2.diff C10 C02
run R12/patch_3.diff C09
run R13/patch_1.diff C08
run R13/patch_2.diff C08
run R13/patch_3.diff C08
run R14/patch_1.diff C13 C14
run R14/patch_2.diff C13
run R14/patch_3.diff C14 C13
run R15/patch_1.diff C14
run R15/patch_2.diff C03 C10
run R15/patch_3.diff C20 C18 C11
git -C /repo worktree remove --force "$WT"
