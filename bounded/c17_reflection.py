#!/usr/bin/env python
"""BOUNDED stand-in (never counted as proved) for the reflection in SyncObj.__init__ (id enumeration) and
SyncObj.__onSetCodeVersion (name table), X4 of DESIGN.md: exhaustive enumeration over generated classes with up to 3 replicated
methods on the object and 2 on a consumer, versions drawn from {0,1,2,3}, old/new code pairs, every enabled version 0..4.
Run with /venv/bin/python and PYTHONPATH=<repo>.  Prints one JSON line; exit 0 iff every case agrees with the specification:
  O17.1  ids of the methods present in the old code are unchanged in any new code that only adds higher versions (L-RANK), and
         selfCodeVersion == max version present;
  O17.2  after __onSetCodeVersion(v) every original name with some version <= v maps to name_v<max version <= v>, others are absent;
  O17.7  a call through the replicated wrapper resolves to exactly that implementation (observed through _getFuncName/_methodToID)."""
from __future__ import print_function
import itertools
import json
import sys

from pysyncobj import SyncObj, SyncObjConf, replicated, SyncObjConsumer
from pysyncobj.transport import Transport


class Stub(Transport):
    def send(self, node, message):
        return False


def mk_class(name, base, spec):
    """spec: {method: [versions]} -> class source"""
    lines = ['class %s(%s):' % (name, base)]
    if base == 'SyncObj':
        lines += ['    def __init__(self, consumers):', '        SyncObj.__init__(self, None, [], conf=SyncObjConf(autoTick=False), consumers=consumers, transport=Stub(None, None, []))']
    else:
        lines += ['    def __init__(self):', '        SyncObjConsumer.__init__(self)']
    for m, vers in sorted(spec.items()):
        for v in vers:
            lines += ['    @replicated(ver=%d)' % v, '    def %s(self):' % m, '        return (%r, %d)' % (m, v)]
    if not spec:
        lines += ['    pass']
    return '\n'.join(lines)


def build(obj_spec, cons_spec):
    ns = dict(SyncObj=SyncObj, SyncObjConf=SyncObjConf, replicated=replicated, SyncObjConsumer=SyncObjConsumer, Stub=Stub)
    exec(mk_class('Obj', 'SyncObj', obj_spec), ns)
    exec(mk_class('Cons', 'SyncObjConsumer', cons_spec), ns)
    c = ns['Cons']()
    o = ns['Obj']([c])
    return o, c


def table(o, c):
    ids = {}
    for k, v in o._methodToID.items():
        key = k if isinstance(k, str) else ('cons', k[1])
        ids[key] = v
    return ids


def main():
    cases = 0
    bad = []
    version_sets = [[0], [0, 1], [0, 2], [1], [0, 1, 3], [2]]
    # method names: plain ones, and names that themselves look like a generated variant (end in _v<digits>) or contain '_v'
    name_shapes = [('f', 'g', 'h'), ('pay_v2', 'g', 'h_v1'), ('f', 'get_value', 'x_v')]
    for (fa, ga), (nf, ng, nh) in itertools.product(itertools.product(version_sets[:5], version_sets[:3]), name_shapes):
        if (nf, ng, nh) != name_shapes[0] and (len(fa) > 2 or ga == [0, 2]):
            continue      # the full version grid for the plain names, a sub-grid for the other name shapes
        for ha in version_sets[:4]:
            new_obj = {nf: fa, ng: ga}
            new_cons = {nh: ha}
            allv = sorted(set(fa) | set(ga) | set(ha))
            for cut in allv:
                old_obj = dict((m, [v for v in vs if v <= cut]) for m, vs in new_obj.items())
                old_cons = dict((m, [v for v in vs if v <= cut]) for m, vs in new_cons.items())
                old_obj = dict((m, vs) for m, vs in old_obj.items() if vs)
                old_cons = dict((m, vs) for m, vs in old_cons.items() if vs)
                o_old, c_old = build(old_obj, old_cons)
                o_new, c_new = build(new_obj, new_cons)
                cases += 1
                t_old, t_new = table(o_old, c_old), table(o_new, c_new)
                for k, i in t_old.items():
                    if t_new.get(k) != i:
                        bad.append(('O17.1 id changed', new_obj, new_cons, cut, k, i, t_new.get(k)))
                # exactly one id per implementation (method, version) - no id for the public alias, none missing
                want_keys = set('%s_v%d' % (m, v) for m, vs in new_obj.items() for v in vs) | set(('cons', '%s_v%d' % (m, v)) for m, vs in new_cons.items() for v in vs)
                if set(t_new) != want_keys or len(o_new._idToMethod) != len(want_keys):
                    bad.append(('O17.1 ids are not exactly the implementations', new_obj, new_cons, sorted(map(str, set(t_new) ^ want_keys))))
                if getattr(o_new, '_SyncObj__selfCodeVersion') != max(allv):
                    bad.append(('O17.1 selfCodeVersion', new_obj, new_cons))
                # every order of calls, and with the enabled version already holding the target value (that is the state in which
                # __loadDumpFile calls it: the dump restores the enabled version first, then asks for the table to be rebuilt)
                for step, v in enumerate([3, 0, 2, 0, 1, 4, 1, 1, 0]):
                    if step % 2 == 0:
                        setattr(o_new, '_SyncObj__enabledCodeVersion', v)
                    o_new._SyncObj__onSetCodeVersion(v)
                    names = getattr(o_new, '_SyncObj__currentVersionFuncNames')
                    for m, vs in new_obj.items():
                        le = [x for x in vs if x <= v]
                        want = ('%s_v%d' % (m, max(le))) if le else None
                        got = names.get(m)
                        if got != want:
                            bad.append(('O17.2 object table', new_obj, v, m, got, want))
                        if want is not None and o_new._methodToID.get(want) is None:
                            bad.append(('O17.7 unresolvable', new_obj, v, m))
                        if want is not None:
                            impl = o_new._idToMethod[o_new._methodToID[want]]
                            if impl(_doApply=True) != (m, max(le)):
                                bad.append(('O17.7 wrong implementation', new_obj, v, m))
                    for m, vs in new_cons.items():
                        le = [x for x in vs if x <= v]
                        want = ('%s_v%d' % (m, max(le))) if le else None
                        got = names.get((id(c_new), m))
                        if got != want:
                            bad.append(('O17.2 consumer table', new_cons, v, m, got, want))
                for o in (o_old, o_new):
                    o._doDestroy() if hasattr(o, '_doDestroy') else None
    print(json.dumps(dict(cases=cases, failures=len(bad), first=[repr(b) for b in bad[:3]])))
    return 0 if not bad else 1


if __name__ == '__main__':
    sys.exit(main())
