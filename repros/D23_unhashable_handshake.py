"""C14/C13: the first message on an incoming connection is arbitrary (any peer can connect).  A first message that is not a member address,
not 'readonly' and not a known utility command must get the connection dropped - not raise out of the event loop."""
import sys
from pysyncobj import SyncObj, SyncObjConf
from pysyncobj.tcp_connection import CONNECTION_STATE

class FakeConn(object):
    def __init__(self):
        self.state = CONNECTION_STATE.CONNECTED
        self.sendRandKey = None
        self.sent = []
    def disconnect(self):
        self.state = CONNECTION_STATE.DISCONNECTED
    def send(self, m):
        self.sent.append(m)
    def setOnMessageReceivedCallback(self, cb): pass
    def setOnDisconnectedCallback(self, cb): pass

import socket
s = socket.socket(); s.bind(('127.0.0.1', 0)); port = s.getsockname()[1]; s.close()
o = SyncObj('127.0.0.1:%d' % port, ['127.0.0.1:1'], conf=SyncObjConf(autoTick=False))
tr = o._SyncObj__transport
bad = []
for first in (['bogus-command', 1], [], {'type': 'append_entries'}, ('a', 'b'), 17, None, b'readonly', ['status'] * 0 + [['nested']]):
    c = FakeConn()
    tr._onNewIncomingConnection(c)
    try:
        tr._onIncomingMessageReceived(c, first)
    except Exception as e:
        bad.append('first message %r: %s: %s escapes the handler' % (first, type(e).__name__, e))
        continue
    if c.state != CONNECTION_STATE.DISCONNECTED and c not in tr._unknownConnections:
        bad.append('first message %r: connection accepted' % (first,))
o.destroy()
try:
    o.doTick(0.0)
except Exception:
    pass
for b in bad: print(b)
sys.exit(1 if bad else 0)
