"""C14: one failed accept() (ECONNABORTED: the client gave up before the server accepted) must not make the node deaf for ever.
Two real nodes on loopback; A (smaller address) listens, B dials.  A's first accept() raises ECONNABORTED.  Afterwards the network is fine:
A and B must get connected within a bounded time (10 s of ticking here; bindRetryTime is 1 s, connectionRetryTime 5 s by default)."""
import errno, socket, sys, time
from pysyncobj import SyncObj, SyncObjConf

def free_port():
    s = socket.socket(); s.bind(('127.0.0.1', 0)); p = s.getsockname()[1]; s.close(); return p

class FlakyListener(object):
    def __init__(self, real):
        self.real, self.failed = real, False
    def accept(self):
        if not self.failed:
            self.failed = True
            try:
                c, _ = self.real.accept()      # take the pending connection off the queue and drop it: the client "gave up"
                c.close()
            except socket.error:
                pass
            raise socket.error(errno.ECONNABORTED, 'Software caused connection abort')
        return self.real.accept()
    def __getattr__(self, n):
        return getattr(self.real, n)

pa, pb = sorted([free_port(), free_port()])
a_addr, b_addr = '127.0.0.1:%d' % pa, '127.0.0.1:%d' % pb
conf = lambda: SyncObjConf(autoTick=False, connectionRetryTime=0.5, connectionTimeout=3.0)
a = SyncObj(a_addr, [b_addr], conf=conf())
tr = a._SyncObj__transport
srv = tr._server
flaky = FlakyListener(srv._TcpServer__socket)
srv._TcpServer__socket = flaky
b = SyncObj(b_addr, [a_addr], conf=conf())
deadline = time.time() + 10.0
ok = False
while time.time() < deadline:
    a.doTick(0.02); b.doTick(0.02)
    if flaky.failed and a.isNodeConnected(b.selfNode) and b.isNodeConnected(a.selfNode):
        ok = True
        break
print('accept failed once: %s; connected afterwards: %s' % (flaky.failed, ok))
a.destroy(); b.destroy()
for _ in range(5):
    try:
        a.doTick(0.01); b.doTick(0.01)
    except Exception:
        pass
sys.exit(0 if ok else 1)
