#!/usr/bin/env python
"""
C09 demo: a chunked snapshot transfer that is interrupted by a disconnect must be
restarted from its first chunk, so that the follower's dump file on disk is always a
complete (old or new) snapshot and never a torn one.

Three in-process nodes (A leader, B healthy follower, C lagging follower) are wired
through a scripted stub transport.  A compacts its log while C is offline, so C can only
catch up by a chunked snapshot transfer (16 byte chunks).  After the first chunks have
been sent the link A<->C goes down (the transport reports the disconnect through its
callback, i.e. the loss is NOT noticed inside a send()), the chunk that was in flight is
lost, and the link comes back.

exit 0: transfer restarted from scratch, C's dump file is always loadable, C == A
exit 1: otherwise (prints why)
"""
import gzip
import hashlib
import logging
import os
import pickle as stdpickle
import shutil
import sys
import tempfile
import time

from pysyncobj import SyncObj, SyncObjConf, replicated
from pysyncobj.node import TCPNode
from pysyncobj.transport import Transport
import pysyncobj.pickle as spickle


class Net(object):
    def __init__(self):
        self.transports = {}
        self.up = set()
        self.queue = []
        self.serializedLog = []  # (dst id, isFirst, isLast) for every snapshot chunk sent

    def link(self, a, b):
        return frozenset((a.id, b.id))

    def connect(self, a, b):
        self.up.add(self.link(a, b))
        self.transports[a.id]._onNodeConnected(b)
        self.transports[b.id]._onNodeConnected(a)

    def disconnect(self, a, b):
        # the connection drops; whatever is in flight between the two is lost
        self.up.discard(self.link(a, b))
        self.queue = [m for m in self.queue if self.link(m[0], m[1]) != self.link(a, b)]
        self.transports[a.id]._onNodeDisconnected(b)
        self.transports[b.id]._onNodeDisconnected(a)

    def deliverAll(self, afterEach=None):
        while self.queue:
            src, dst, data = self.queue.pop(0)
            if self.link(src, dst) not in self.up:
                continue
            self.transports[dst.id]._onMessageReceived(src, spickle.loads(data))
            if afterEach is not None:
                afterEach()


class StubTransport(Transport):
    def __init__(self, net, selfNode):
        Transport.__init__(self, None, selfNode, [])
        self.net = net
        self.node = selfNode
        net.transports[selfNode.id] = self

    def send(self, node, message):
        if self.net.link(self.node, node) not in self.net.up:
            return False
        ser = message.get('serialized') if isinstance(message, dict) else None
        if ser is not None:
            self.net.serializedLog.append((node.id, ser[1], ser[2]))
            # one snapshot chunk per append-entries round (round is limited by appendEntriesPeriod)
            time.sleep(0.004)
        self.net.queue.append((self.node, node, spickle.dumps(message)))
        return True


class Obj(SyncObj):
    def __init__(self, selfNode, others, net, dumpFile):
        conf = SyncObjConf(autoTick=False, appendEntriesPeriod=0.001,
                           raftMinTimeout=100.0, raftMaxTimeout=200.0, connectionTimeout=300.0,
                           leaderFallbackTimeout=1000.0,
                           fullDumpFile=dumpFile, useFork=False,
                           logCompactionMinEntries=10 ** 6, logCompactionMinTime=10 ** 6,
                           logCompactionBatchSize=16)
        super(Obj, self).__init__(selfNode, others, conf=conf, transport=StubTransport(net, selfNode))
        self.values = []

    @replicated
    def push(self, v):
        self.values.append(v)
        return len(self.values)


def tick(o):
    # every tick is an append-entries round (do not depend on wall-clock pacing)
    o._SyncObj__newAppendEntriesTime = 0
    o.doTick(0.0)


def fail(msg):
    print('FAIL: ' + msg)
    sys.exit(1)


def dumpFileProblem(path):
    """None if there is no dump file or it is a complete snapshot, otherwise the error."""
    if not os.path.exists(path):
        return None
    try:
        with open(path, 'rb') as f:
            with gzip.GzipFile(fileobj=f) as g:
                data = stdpickle.load(g)
        assert len(data) == 4
        return None
    except Exception as e:
        return '%s: %s' % (type(e).__name__, e)


def main():
    logging.disable(logging.CRITICAL)  # the library logs a traceback when a dump cannot be loaded
    tmp = tempfile.mkdtemp(prefix='c09demo')
    try:
        return run(tmp)
    finally:
        shutil.rmtree(tmp, ignore_errors=True)


def run(tmp):
    net = Net()
    nA, nB, nC = TCPNode('127.0.0.1:7001'), TCPNode('127.0.0.1:7002'), TCPNode('127.0.0.1:7003')
    a = Obj(nA, [nB, nC], net, os.path.join(tmp, 'a.dump'))
    b = Obj(nB, [nA, nC], net, os.path.join(tmp, 'b.dump'))
    c = Obj(nC, [nA, nB], net, os.path.join(tmp, 'c.dump'))
    cDump = os.path.join(tmp, 'c.dump')
    objs = [a, b, c]

    def checkCDump():
        problem = dumpFileProblem(cDump)
        if problem is not None:
            fail('dump file of C on disk is torn / not a complete snapshot (%s)' % problem)

    def rounds(n, who=None):
        for _ in range(n):
            for o in (who or objs):
                tick(o)
                checkCDump()
            net.deliverAll(afterEach=checkCDump)

    # --- A and B form a working cluster, C is offline -----------------------------------
    net.connect(nA, nB)
    a._SyncObj__raftElectionDeadline = 0
    rounds(5, [a, b])
    if not a._isLeader():
        fail('setup: A did not become leader')

    for i in range(40):
        a.push('value-%d-%s' % (i, hashlib.md5(str(i).encode()).hexdigest()[:16]))
        rounds(2, [a, b])
    rounds(5, [a, b])
    if len(a.values) != 40 or b.values != a.values:
        fail('setup: commands were not replicated to B')

    # --- A compacts its log: C can now only be brought up to date by a snapshot ------------
    a.forceLogCompaction()
    rounds(3, [a, b])
    if a._getRaftLogSize() > 3:
        fail('setup: A did not compact its log (size %d)' % a._getRaftLogSize())
    snapshotSize = os.path.getsize(os.path.join(tmp, 'a.dump'))
    if snapshotSize < 16 * 8:
        fail('setup: snapshot too small for the scenario')

    # --- C comes online, the chunked snapshot transfer starts --------------------------------
    net.connect(nA, nC)
    net.connect(nB, nC)
    sentToC = lambda: [x for x in net.serializedLog if x[0] == nC.id]
    # first chunk is sent and delivered
    while len(sentToC()) < 1:
        tick(a)
    net.deliverAll(afterEach=checkCDump)
    # further chunk(s) are sent ...
    while len(sentToC()) < 3:
        tick(a)
    if any(x[2] for x in sentToC()):
        fail('setup: transfer already finished')
    # ... but the connection drops while they are in flight: the transport notices it
    # (poller / remote close) and reports it through the disconnect callback.
    net.disconnect(nA, nC)
    rounds(3, [b, c])  # quick reconnect: the leader does not run a send round while the link is down

    # --- link comes back, transfer has to be restarted -----------------------------------------
    before = len(sentToC())
    net.connect(nA, nC)
    rounds(1)
    resumed = sentToC()[before:]
    for _ in range(400):
        rounds(1)
        if c.values == a.values and c._SyncObj__raftLastApplied == a._SyncObj__raftLastApplied:
            break
    resumed = sentToC()[before:]
    if not resumed:
        fail('no snapshot chunk was sent to C after reconnect')
    if not resumed[0][1]:
        fail('after the disconnect the leader continued the old snapshot transfer in the middle '
             '(first chunk after reconnect has isFirst=False) although chunks were lost in flight')
    checkCDump()
    if c.values != a.values:
        fail('C did not reach the state of A: %d values instead of %d' % (len(c.values), len(a.values)))

    # a restart of C from its dump file must give exactly the snapshot state
    c2net = Net()
    c2 = Obj(nC, [nA, nB], c2net, cDump)
    c2.doTick(0.0)
    if c2.values != a.values:
        fail('C restarted from its dump file does not have the snapshot state')

    print('OK: interrupted snapshot transfer was restarted from its first chunk; '
          'dump file of C was complete at every moment (%d byte snapshot, %d chunks sent in total)'
          % (snapshotSize, len(sentToC())))
    return 0


if __name__ == '__main__':
    sys.exit(main())
