"""SelectPoller: a callback that unsubscribes another descriptor which is also ready in the same round -> KeyError escapes poll()"""
import sys, select
from pysyncobj.poller import SelectPoller, POLL_EVENT_TYPE
p = SelectPoller()
calls = []
def cb_a(d, ev):
    calls.append(('a', d, ev))
    p.unsubscribe(6)          # e.g. connection A's handshake replaces connection B: B.disconnect() -> poller.unsubscribe(B.fileno)
    p.unsubscribe(5)
def cb_b(d, ev):
    calls.append(('b', d, ev))
    p.unsubscribe(5)
    p.unsubscribe(6)
p.subscribe(5, cb_a, POLL_EVENT_TYPE.READ)
p.subscribe(6, cb_b, POLL_EVENT_TYPE.READ)
real = select.select
select.select = lambda r, w, x, t: ([5, 6], [], [])     # both descriptors are readable in this round
try:
    try:
        p.poll(0.0)
    except KeyError as e:
        print('KeyError escapes SelectPoller.poll(): %r after calls %r' % (e, calls))
        sys.exit(1)
finally:
    select.select = real
print('ok', calls)
