"""C06/C09: a follower's own (forked, slow) dump finishes AFTER it installed a newer snapshot from the leader.
The child's rename puts the older dump over the leader's; after a restart the node loads the older dump, finds that its journal
does not start with the dump's entries and replaces the journal - acknowledged entries are gone."""
import os, sys, time, tempfile, shutil, logging, pickle as stdpickle
import pysyncobj.pickle as spickle
from pysyncobj import SyncObj, SyncObjConf, replicated
from pysyncobj.node import TCPNode
from pysyncobj.transport import Transport

SLOW = [False]

class Slow(object):
    def __getstate__(self):
        if SLOW[0]:
            time.sleep(1.5)
        return {}
    def __setstate__(self, s):
        pass

class Stub(Transport):
    def __init__(self):
        Transport.__init__(self, None, None, [])
        self.out = []
    def send(self, node, message):
        self.out.append((node, message)); return True

class Obj(SyncObj):
    def __init__(self, me, others, d, fork):
        conf = SyncObjConf(autoTick=False, fullDumpFile=os.path.join(d, 'dump.bin'), journalFile=os.path.join(d, 'journal.bin'), useFork=fork,
                           logCompactionMinEntries=10**6, logCompactionMinTime=10**6, raftMinTimeout=1000, raftMaxTimeout=2000, connectionTimeout=3000)
        self.tr = Stub()
        super(Obj, self).__init__(me, others, conf=conf, transport=self.tr)
        self.values = []
        self.slow = Slow()
    @replicated
    def push(self, v):
        self.values.append(v)

def entries_from(o, frm):
    log = o._SyncObj__raftLog
    return [log[i] for i in range(len(log)) if log[i][1] >= frm]

def main():
    logging.disable(logging.CRITICAL)
    tmp = tempfile.mkdtemp(prefix='d22')
    try:
        nL, nF = TCPNode('127.0.0.1:7101'), TCPNode('127.0.0.1:7102')
        dl, df = os.path.join(tmp, 'L'), os.path.join(tmp, 'F'); os.mkdir(dl); os.mkdir(df)
        L = Obj(nL, [nF], dl, False)
        L._SyncObj__raftElectionDeadline = 0
        L.tr._onNodeConnected(nF)
        # single-voter majority is 2 of 2: drive L as leader by hand - make it leader and ack through F
        F = Obj(nF, [nL], df, True)
        F.tr._onNodeConnected(nL)
        def pump(n=3):
            for _ in range(n):
                for a, b in ((L, F), (F, L)):
                    a._SyncObj__newAppendEntriesTime = 0
                    a.doTick(0.0)
                    out, a.tr.out = a.tr.out, []
                    for node, m in out:
                        b.tr._onMessageReceived(a.selfNode, spickle.loads(spickle.dumps(m)))
        pump(6)
        assert L._isLeader(), 'setup: L not leader'
        for i in range(10):
            L.push(i); pump(2)
        pump(4)
        assert F.values == list(range(10)), F.values
        # F starts its own (forked, slow) dump at this position
        SLOW[0] = True
        F.forceLogCompaction(); F.doTick(0.0)
        SLOW[0] = False
        pos_own = F._SyncObj__raftLastApplied
        # meanwhile the cluster moves on without F hearing of it ...
        held = []
        for i in range(10, 30):
            L.push(i)
            L._SyncObj__newAppendEntriesTime = 0; L.doTick(0.0); L.tr.out = []
        # (a 2-node cluster cannot commit without F: let F ack everything but only via a snapshot) - L compacts first
        pump(4)
        L.forceLogCompaction(); L.doTick(0.0); L.doTick(0.0)
        # force the leader to send F a snapshot: pretend F is far behind
        L._SyncObj__raftNextIndex[nF] = 1
        pump(6)
        for i in range(30, 35):
            L.push(i); pump(2)
        pump(4)
        acked_last = F._SyncObj__raftLog[-1][1]
        before = (F._SyncObj__raftLog[0][1], acked_last, len(F.values))
        time.sleep(2.0)            # the child finishes its (older) dump and renames it over the dump file
        F.doTick(0.0); F.doTick(0.0)
        F._doDestroy() if hasattr(F, '_doDestroy') else None
        F2 = Obj(nF, [nL], df, True)
        F2.doTick(0.0); F2.doTick(0.0)
        after = (F2._SyncObj__raftLog[0][1], F2._SyncObj__raftLog[-1][1], len(F2.values))
        print('own dump position %d; before restart: log %d..%d, %d values; after restart: log %d..%d, %d values' % ((pos_own,) + before + after))
        if after[1] < acked_last:
            print('FAIL: the restarted node forgot journal entries it had acknowledged (last index %d -> %d)' % (acked_last, after[1]))
            return 1
        print('OK')
        return 0
    finally:
        shutil.rmtree(tmp, ignore_errors=True)

if __name__ == '__main__':
    sys.exit(main())
