"""engine self-test run by MANIFEST.setup_cmd"""
import sys
import z3
from .values import *
from .ctx import explore, run_cli_portfolio


def main():
    ok = True
    x = z3.Int('x')

    def good(ctx):
        ctx.assume(x > 2)
        ctx.prove(x > 1, 'toy.good')

    def bad(ctx):
        ctx.assume(x > 2)
        ctx.prove(x > 3, 'toy.bad')
    o1 = explore(good)[0]
    o2 = explore(bad)[0]
    ok &= o1[0].status == 'discharged'
    ok &= o2[0].status == 'failed' and o2[0].model is not None
    r, who = run_cli_portfolio('(declare-const x Int)(assert (> x 2))(assert (< x 2))(check-sat)')
    ok &= r == 'unsat'
    print('pyvc selftest: z3 %s, cli portfolio %s via %s, ok=%s' % (z3.get_version_string(), r, who, ok))
    return 0 if ok else 1


if __name__ == '__main__':
    sys.exit(main())
