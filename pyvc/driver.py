"""./check <PID> --tier quick|thorough : run every unit serving the property, decide, write evidence."""
import argparse
import hashlib
import json
import os
import subprocess
import sys
import time

from . import harness, source
from .ctx import Undecided

HERE = os.path.dirname(os.path.dirname(os.path.abspath(__file__)))


def tags_of(oid):
    if ':' not in oid:
        return {'*'}
    return set(oid.split(':', 1)[0].split('+'))


def load_known():
    p = os.path.join(HERE, 'known_findings.json')
    if not os.path.exists(p):
        return {'findings': [], 'fixed': []}
    with open(p) as f:
        return json.load(f)


def load_baseline():
    p = os.path.join(HERE, 'baseline_obligations.json')
    if not os.path.exists(p):
        return {}
    with open(p) as f:
        return json.load(f)


def matches_known(k, pid, unit, oid, path):
    if pid not in k.get('properties', [k.get('property')]):
        return False
    if k.get('unit') and k['unit'] != unit:
        return False
    if k.get('obligation') and k['obligation'] != oid.split(':', 1)[-1] and k['obligation'] != oid:
        return False
    if k.get('path_contains') and k['path_contains'] not in (path or ''):
        return False
    return True


def main(argv=None):
    ap = argparse.ArgumentParser()
    ap.add_argument('pid')
    ap.add_argument('--tier', default=os.environ.get('VERIF_TIER', 'quick'))
    ap.add_argument('--replay', default=None)
    ap.add_argument('--jobs', type=int, default=int(os.environ.get('PYVC_JOBS', '16')))
    ap.add_argument('--units', default=None, help='comma separated subset of units (debug)')
    ap.add_argument('--no-evidence', action='store_true')
    ap.add_argument('--canary', default=None, help='unit/canary: run one canary only (debug)')
    ap.add_argument('--write-baseline', action='store_true', help='record the discharged obligations of this run in baseline_obligations.json')
    a = ap.parse_args(argv)
    seed = int(os.environ.get('VERIF_SEED', '0') or 0)
    t0 = time.time()
    from contracts import props
    if a.replay:
        from . import replay_cli
        return replay_cli.main(a.pid, a.replay)
    if a.pid not in props.PROPS:
        print('unknown or not-applicable property %s' % a.pid)
        return 3
    P = props.PROPS[a.pid]
    modules = P['modules']
    for m in modules:
        __import__(m)
    unit_names = list(P['units'])
    # every unit whose clauses are tagged with this property belongs to its check, listed or not
    for m in getattr(props, 'ALL_MODULES', []):
        if m not in modules:
            try:
                __import__(m)
                modules = modules + [m]
            except Exception:
                pass
    cone = set([a.pid] + list(getattr(props, 'DEPENDS', {}).get(a.pid, [])))
    for un, u in sorted(harness.UNITS.items()):
        if (cone & set(u.props)) and un not in unit_names:
            unit_names.append(un)
    if a.units:
        unit_names = [u for u in unit_names if u in a.units.split(',')]
    os.environ.setdefault('PYVC_UNIVERSE', '4' if a.tier == 'quick' else '5')
    os.environ['PYVC_TIER'] = a.tier
    results = harness.run_units(unit_names, modules, jobs=a.jobs)

    rc = 0
    undecided, errors = [], []
    obligations = []
    for r in results:
        if r['error']:
            errors.append((r['unit'], r['case'], r['error']))
        if r['undecided']:
            undecided.append((r['unit'], r['case'], r['undecided']))
        if not r['error'] and not r['undecided'] and not r['obligations']:
            # vacuity guard: a unit case that generates no obligation at all (contradictory requires, every path aborted) proves nothing
            errors.append((r['unit'], r['case'], 'vacuous: unit case generated zero obligations (paths=%s)' % r['paths']))
        for o in r['obligations']:
            if (cone & tags_of(o['id'])) or '*' in tags_of(o['id']):
                o = dict(o)
                o['unit'] = r['unit']
                o['case'] = r['case_desc']
                obligations.append(o)

    # lemmas (L2): pure solver queries over the contract clauses
    lemma_results = []
    for lname in P.get('lemmas', []):
        try:
            lemma_results.extend(props.LEMMAS[lname]())
        except Undecided as e:
            undecided.append((lname, 0, str(e)))
    for o in lemma_results:
        if o.get('status') == 'checker-error':
            errors.append((o.get('unit'), 0, 'cross-check disagreement: %s' % o.get('info')))
            continue
        obligations.append(o)

    known = load_known()
    baseline = load_baseline()
    failed = [o for o in obligations if o['status'] == 'failed']
    unknown = [o for o in obligations if o['status'] not in ('failed', 'discharged')]
    violations, known_hits = [], []
    cur_hashes = {}
    for un in unit_names:
        for d in harness.describe_functions(harness.UNITS[un]):
            cur_hashes['%s:%s' % (d['file'], d['function'])] = d.get('sha256_16')

    def is_known(o):
        for k in known.get('findings', []):
            if matches_known(k, a.pid, o['unit'], o['id'], o['path']):
                return k
        return None

    for o in failed:
        k = is_known(o)
        (known_hits if k else violations).append((o, k))
    for o in unknown:
        k = is_known(o)
        if k:
            known_hits.append((o, k))
            continue
        key = '%s|%s' % (o['unit'], o['id'])
        b = baseline.get(key)
        changed = b is not None and any(cur_hashes.get(fk) != h for fk, h in b.get('hashes', {}).items())
        if b is not None and b.get('discharged') and changed:
            o['no_model'] = True
            violations.append((o, None))
        else:
            undecided.append((o['unit'], o.get('case'), 'obligation %s not discharged (%s) on path %s' % (o['id'], o['status'], o['path'])))

    # canaries (non-vacuity): quick runs the first canary of each unit, thorough all
    canary_log = []
    if not a.units or a.canary:
        undecided_units = set(x[0] for x in undecided)
        for un in unit_names:
            u = harness.UNITS[un]
            if un in undecided_units:
                continue      # the unit itself is undecided on this tree: its canaries can say nothing
            cans = u.canaries if a.tier == 'thorough' else u.canaries[:1]
            for cname, mut, expect in cans:
                if a.canary and a.canary != '%s/%s' % (un, cname):
                    continue
                rs = harness.run_canary(un, cname, modules)
                got = set()
                err = None
                for r in rs:
                    if r['error']:
                        err = r['error']
                    if r['undecided']:
                        got.add('undecided')
                    for o in r['obligations']:
                        if o['status'] != 'discharged':
                            got.add(o['id'].split(':', 1)[-1])
                killed = bool(got - {'undecided'})   # any named obligation failing kills the canary; `expect` documents the intended one
                na = [r.get('canary_na') for r in rs if r.get('canary_na')]
                canary_log.append(dict(unit=un, canary=cname, expected=list(expect), failed=sorted(got), killed=killed, error=err,
                                       not_applicable=(na[0] if na else None)))
                if na:
                    # the construct the canary mutates is not in the code (any more): nothing to learn from it on this tree
                    continue
                if got == {'undecided'}:
                    # the mutated function left the subset (e.g. the canary's text refers to a local that was renamed): inconclusive
                    canary_log[-1]['inconclusive'] = True
                    continue
                if not killed:
                    errors.append((un, cname, 'canary %s still verifies: contract too weak (got %s)' % (cname, sorted(got))))

    bounded_obs = [o for o in obligations if o.get('bounded')]
    nob = len(obligations)
    ndis = len([o for o in obligations if o['status'] == 'discharged'])
    if nob == 0 and not errors and not undecided:
        errors.append(('-', 0, 'zero obligations generated'))

    # replay files + VIOLATION lines
    seen = set()
    for o, _ in violations:
        key = (o['unit'], o['id'])
        if key in seen:
            continue
        seen.add(key)
        path = write_replay(a.pid, o, harness.UNITS.get(o['unit']))
        tail = ''
        native = None
        # with a counter-model the replayer rebuilds that state on the real objects; without one the replayers that enumerate their
        # inputs natively (kill points of storeMeta, cut positions of a frame, the journal scenario) can still find a failing input
        native = try_native_replay(a.pid, path)
        if native is not True:
            tail = ' no-failing-input-found'
        if o.get('bounded') and str(o.get('solver', '')).startswith('cpython') and o['status'] == 'failed':
            tail = ''      # a bounded native enumeration fails on a concrete case it ran on the real code (recorded in the replay file)
        print('VIOLATION property=%s replay=%s obligation=%s unit=%s%s' % (a.pid, path, o['id'], o['unit'], tail))
        rc = 1
    seenk = set()
    for o, k in known_hits:
        if k['id'] in seenk:
            continue
        seenk.add(k['id'])
        print('KNOWN-FINDING: property=%s %s [%s]' % (a.pid, k['what'], k['id']))
    if rc == 0 and errors:
        rc = 3
    if rc == 0 and undecided:
        rc = 2
    for e in errors:
        print('CHECKER-ERROR %s/%s: %s' % (e[0], e[1], str(e[2]).strip().split('\n')[-1]))
        if os.environ.get('PYVC_DEBUG'):
            print(e[2])
    for u_ in undecided[:20]:
        print('UNDECIDED %s/%s: %s' % (u_[0], u_[1], u_[2]))

    if a.write_baseline:
        unit_hashes = {}
        for un in unit_names:
            unit_hashes[un] = dict(('%s:%s' % (d['file'], d['function']), d.get('sha256_16')) for d in harness.describe_functions(harness.UNITS[un]))
        by_key = {}
        for o in obligations:
            key = '%s|%s' % (o.get('unit'), o['id'])
            by_key[key] = by_key.get(key, True) and o['status'] == 'discharged'
        for key, ok in by_key.items():
            if ok:
                baseline[key] = dict(discharged=True, hashes=unit_hashes.get(key.split('|')[0], {}))
        with open(os.path.join(HERE, 'baseline_obligations.json'), 'w') as f:
            json.dump(baseline, f, indent=0, sort_keys=True)
    wall = time.time() - t0
    if not a.no_evidence and not a.units:
        write_evidence(a, P, unit_names, results, obligations, ndis, canary_log, known_hits, violations, undecided, errors, wall, seed)
    print('%s tier=%s units=%d obligations=%d discharged=%d failed=%d unknown=%d known=%d paths=%d wall=%.1fs rc=%d' % (
        a.pid, a.tier, len(unit_names), nob, ndis, len(failed), len(unknown), len(known_hits),
        sum(r['paths'] for r in results), wall, rc))
    return rc


def write_replay(pid, o, unit):
    d = os.path.join(HERE, 'replays')
    os.makedirs(d, exist_ok=True)
    h = hashlib.sha256(('%s|%s|%s' % (o['unit'], o['id'], o['path'])).encode()).hexdigest()[:10]
    p = os.path.join(d, '%s_%s_%s.json' % (pid, o['id'].split(':', 1)[-1].replace('/', '_'), h))
    body = dict(property=pid, obligation=o['id'], unit=o['unit'], case=o.get('case'), path=o['path'], line=o.get('line'),
                status=o['status'], solver=o.get('solver'), model=o.get('model'), info=o.get('info'),
                functions=(harness.describe_functions(unit) if unit else None),
                solver_output=('counter-model found' if o.get('model') else 'no model: %s' % o['status']),
                smt2=o.get('smt2'))
    with open(p, 'w') as f:
        json.dump(body, f, indent=1, default=str)
    return p


def try_native_replay(pid, path):
    """replay the counter-model on the real code under the interpreter the test-suite uses"""
    rp = os.path.join(HERE, 'replay.py')
    if not os.path.exists(rp):
        return None
    py = '/venv/bin/python' if os.path.exists('/venv/bin/python') else sys.executable
    try:
        env = dict(os.environ)
        env['PYTHONPATH'] = os.environ.get('PYVC_REPO', '/repo') + ':' + HERE
        p = subprocess.run([py, rp, path], stdout=subprocess.PIPE, stderr=subprocess.STDOUT, timeout=120, env=env)
        out = p.stdout.decode('utf-8', 'replace')
        with open(path) as f:
            body = json.load(f)
        body['native_replay'] = dict(rc=p.returncode, output=out[-4000:])
        with open(path, 'w') as f:
            json.dump(body, f, indent=1, default=str)
        return p.returncode == 1     # 1 = violation reproduced natively
    except Exception as e:   # pragma: no cover
        return None


def write_evidence(a, P, unit_names, results, obligations, ndis, canary_log, known_hits, violations, undecided, errors, wall, seed):
    funcs = []
    trusted, assumptions = set(P.get('trusted', [])), list(P.get('assumptions', []))
    for un in unit_names:
        u = harness.UNITS[un]
        for d in harness.describe_functions(u):
            d['unit'] = un
            d['kind'] = u.kind
            d['bounded'] = u.bounded
            funcs.append(d)
        trusted |= set(u.trusted)
        for x in u.assumptions:
            if x not in assumptions:
                assumptions.append(x)
    solvers = {}
    for o in obligations:
        solvers[o.get('solver') or '?'] = solvers.get(o.get('solver') or '?', 0) + 1
    samples = []
    seen = set()
    for o in obligations:
        if o['id'] in seen:
            continue
        seen.add(o['id'])
        samples.append(dict(obligation=o['id'], unit=o.get('unit'), path=o['path'], status=o['status'], solver=o.get('solver'),
                            line=o.get('line'), info=o.get('info')))
        if len(samples) >= 12:
            break
    ev = dict(
        property_id=a.pid, tier=a.tier, seed=seed, level=P.get('level', 'proof'),
        coverage=dict(
            obligations=len(obligations) - len(known_hits) - len([o for o in obligations if o.get('bounded')]),
            discharged=ndis - len([o for o in obligations if o.get('bounded') and o['status'] == 'discharged']),
            bounded_results=[dict(id=o['id'], status=o['status'], how=o.get('solver'), detail=o.get('info')) for o in obligations if o.get('bounded')],
            obligations_failing_as_known_findings=len(known_hits),
            obligations_total_generated=len(obligations),
            checker_cmd='./check %s --tier %s' % (a.pid, a.tier),
            trusted_base=sorted(trusted),
            functions_under_contract=funcs,
            distinct_obligation_ids=len(seen | set(o['id'] for o in obligations)),
            paths_explored=sum(r['paths'] for r in results),
            solver_counts=solvers,
            solver_time_s=round(sum(o.get('secs', 0) for o in obligations), 3),
            per_unit=[dict(unit=r['unit'], case=r['case_desc'], paths=r['paths'], obligations=len(r['obligations']),
                           secs=round(r.get('secs', 0), 2), undecided=r['undecided']) for r in results],
            dependency_cone=sorted(set([a.pid] + list(getattr(__import__('contracts.props', fromlist=['DEPENDS']), 'DEPENDS', {}).get(a.pid, [])))),
            functions_executed_inline=sorted(set(n.split(' ', 1)[1] for r in results for n in (r.get('notes') or [])
                                                 if isinstance(n, str) and (n.startswith('executed-inline ') or n.startswith('auto-inlined ')))),
            canaries=canary_log,
            covers=[c for r in results for c in r.get('covers', [])][:50],
            known_findings=[k['id'] for o, k in known_hits],
            violations=[o['id'] for o, k in violations],
            undecided=[str(u) for u in undecided][:20],
            errors=[str(e[2])[-300:] for e in errors][:10],
            samples=samples,
            universe='%s other nodes (voters/observers by symbolic membership) + self' % os.environ.get('PYVC_UNIVERSE'),
            extraction_drops=P.get('drops', []),
            bounded_parts=P.get('bounded', []),
            explanation=P.get('explanation', ''),
        ),
        assumptions=assumptions,
        wall_s=round(wall, 2),
        violations=len(violations),
    )
    p = os.path.join(HERE, 'evidence', '%s.json' % a.pid)
    os.makedirs(os.path.dirname(p), exist_ok=True)
    with open(p, 'w') as f:
        json.dump(ev, f, indent=1, default=str)


if __name__ == '__main__':
    sys.exit(main())
