"""Path context: solver, path condition, decisions, heap, ghost state, obligations.

Exploration is by re-execution (one linear run per path, decisions replayed from a prefix),
so the interpreter needs no continuation machinery.
"""
import time
import os
import subprocess
import tempfile
import z3
from .values import *   # noqa


class Undecided(Exception):
    """construct outside the verified subset / missing contract: the run is undecided (exit 2)"""


class PathAbort(Exception):
    """this path ends here (assume false, or loop iteration closed)"""


class MergeFail(Exception):
    pass


class StopExploration(Exception):
    """canary mode: the first obligation that is not discharged ends the run"""


FEAS_TIMEOUT_MS = int(os.environ.get('PYVC_FEAS_MS', '1500'))
PROVE_TIMEOUT_MS = int(os.environ.get('PYVC_PROVE_MS', '10000'))
CLI_TIMEOUT_S = int(os.environ.get('PYVC_CLI_S', '20'))


class Obligation(object):
    __slots__ = ('oid', 'path', 'status', 'solver', 'secs', 'model', 'info', 'line', 'smt2')

    def __init__(self, oid, path, status, solver, secs, model=None, info=None, line=None, smt2=None):
        self.oid = oid
        self.path = path
        self.status = status      # 'discharged' | 'failed' | 'unknown'
        self.solver = solver
        self.secs = secs
        self.model = model
        self.info = info
        self.line = line
        self.smt2 = smt2

    def to_json(self):
        return dict(id=self.oid, path=self.path, status=self.status, solver=self.solver,
                    secs=round(self.secs, 4), model=self.model, info=self.info, line=self.line)


class PathCtx(object):
    def __init__(self, prefix=(), label=''):
        self.s = z3.Solver()
        self.s.set('timeout', PROVE_TIMEOUT_MS)
        self.pc = []
        self.prefix = list(prefix)
        self.pos = 0
        self.alts = []
        self.taken = []           # decisions taken on this path (real forks only)
        self.trace = []           # human readable labels of decisions
        self.heap = {}
        self.next_addr = 1
        self.ghost = {}
        self.oblig = []
        self.merge_depth = 0
        self.label = label
        self.inputs = {}          # name -> z3 expr / value, for counterexample extraction
        self.has_quant = False
        self.cur_line = None
        self.covers = []
        self.notes = []
        self.universe = 0

    # ------------------------------------------------------------ heap
    def alloc(self, cell):
        a = self.next_addr
        self.next_addr += 1
        self.heap[a] = cell
        return Ref(a)

    def cell(self, ref):
        return self.heap[ref.addr]

    def setcell(self, ref, cell):
        self.heap[ref.addr] = cell

    def snapshot(self):
        return (dict(self.heap), dict((k, list(v)) for k, v in self.ghost.items()), self.next_addr)

    def restore(self, snap):
        self.heap = dict(snap[0])
        self.ghost = dict((k, list(v)) for k, v in snap[1].items())
        self.next_addr = snap[2]

    def glist(self, name):
        return self.ghost.setdefault(name, [])

    # ------------------------------------------------------------ logic
    def assume(self, b, quant=False):
        if isinstance(b, bool):
            if not b:
                raise PathAbort()
            return
        if quant:
            self.has_quant = True
        self.pc.append(b)
        self.s.add(b)

    def _check(self, extra, timeout_ms):
        self.s.push()
        try:
            self.s.set('timeout', timeout_ms)
            self.s.add(extra)
            r = self.s.check()
        finally:
            self.s.pop()
            self.s.set('timeout', PROVE_TIMEOUT_MS)
        return r

    def feasible(self, c):
        # "unknown" counts as feasible: exploring an infeasible path is sound (its obligations hold vacuously); a concretely false goal on such a
        # path is re-examined with a generous budget in prove() before anything is reported
        return self._check(c, FEAS_TIMEOUT_MS) != z3.unsat

    def decide(self, c, label=None):
        """branch on a (possibly symbolic) boolean; returns a python bool"""
        if isinstance(c, bool):
            return c
        if not isinstance(c, z3.BoolRef):
            raise Undecided('decide on non-boolean %r' % (c,))
        c = z3.simplify(c)
        if z3.is_true(c):
            return True
        if z3.is_false(c):
            return False
        ft = self.feasible(c)
        ff = self.feasible(z3.Not(c))
        if ft and ff:
            if self.merge_depth:
                raise MergeFail()
            if self.pos < len(self.prefix):
                d = self.prefix[self.pos]
            else:
                d = True
                self.alts.append(self.taken + [False])
            self.pos += 1
            self.taken.append(d)
            self.trace.append('%s%s=%s' % (label or '', ('@%s' % self.cur_line) if self.cur_line else '', 'T' if d else 'F'))
            self.assume(c if d else z3.Not(c))
            return d
        if ft:
            return True
        if ff:
            return False
        raise PathAbort()

    def path_label(self):
        return ','.join(self.trace) or 'straight'

    def prove(self, goal, oid, info=None):
        """obligation: path condition implies goal.  Afterwards goal is assumed."""
        t0 = time.time()
        line = self.cur_line
        if isinstance(goal, bool):
            st = 'discharged' if goal else 'failed'
            ob = Obligation(oid, self.path_label(), st, 'concrete', 0.0, model=(None if goal else self.model_inputs(None)),
                            info=info, line=line)
            if not goal:
                # a concretely false goal is a failure only if the path is feasible
                rr = self._check(z3.BoolVal(True), PROVE_TIMEOUT_MS)
                if rr == z3.unknown:
                    rr = self._check(z3.BoolVal(True), PROVE_TIMEOUT_MS * 4)
                if rr == z3.unsat:
                    ob.status = 'discharged'
                    ob.solver = 'z3py(path-infeasible)'
                    ob.model = None
                elif rr == z3.unknown:
                    # neither a proof nor a failing input: the path may well be infeasible - undecided, never a violation
                    ob.status = 'unknown'
                    ob.solver = 'z3py(path-feasibility-unknown)'
                    ob.model = None
                else:
                    ob.model = self.model_inputs(self._model_now())
            self.oblig.append(ob)
            if ob.status != 'discharged':
                if os.environ.get('PYVC_STOP_ON_FAIL'):
                    raise StopExploration()
                raise PathAbort()
            return ob
        g = z3.simplify(goal)
        if z3.is_true(g):
            ob = Obligation(oid, self.path_label(), 'discharged', 'simplify', time.time() - t0, info=info, line=line)
            self.oblig.append(ob)
            return ob
        r = self._check(z3.Not(g), PROVE_TIMEOUT_MS)
        solver = 'z3py-%s' % z3.get_version_string()
        model = None
        smt2 = None
        if r == z3.unsat:
            st = 'discharged'
        else:
            if r == z3.sat:
                self.s.push()
                self.s.add(z3.Not(g))
                self.s.check()
                model = self.model_inputs(self.s.model())
                # prefer a small counter-model (replayable natively): bound the tracked integer inputs
                for lo, hi in ((-1, 4), (-2, 8)):
                    self.s.push()
                    try:
                        for b in self._small_bounds(lo, hi):
                            self.s.add(b)
                        self.s.set('timeout', 3000)
                        if self.s.check() == z3.sat:
                            model = self.model_inputs(self.s.model())
                            model['_small'] = True
                            break
                    finally:
                        self.s.pop()
                        self.s.set('timeout', PROVE_TIMEOUT_MS)
                self.s.pop()
                st = 'failed'
                if self.has_quant:
                    st = 'failed?'     # model of a quantified problem: candidate only
            else:
                st = 'unknown'
            if st != 'failed' and (os.environ.get('PYVC_STOP_ON_FAIL') or _cli_budget_exhausted()):
                pass
            elif st != 'failed':
                _CLI_CALLS[0] += 1
                smt2 = self.to_smt2(z3.Not(g))
                r2, who = run_cli_portfolio(smt2)
                if r2 == 'unsat':
                    st = 'discharged'
                    solver = who
                    model = None
                elif r2 == 'sat' and not self.has_quant:
                    st = 'failed'
                    solver = who
                elif st == 'failed?':
                    st = 'failed'
                    solver += '(candidate-model)'
        if st == 'failed?':
            # sat answer in a context with quantified hypotheses and no second opinion: the model is a candidate (replay decides)
            st = 'failed'
            solver += '(candidate-model)'
        ob = Obligation(oid, self.path_label(), st, solver, time.time() - t0, model=model, info=info, line=line,
                        smt2=(smt2 if st != 'discharged' else None))
        self.oblig.append(ob)
        if st == 'discharged':
            self.assume(g)
        elif os.environ.get('PYVC_STOP_ON_FAIL'):
            raise StopExploration()
        else:
            _NOT_DISCHARGED[0] += 1
            if _NOT_DISCHARGED[0] >= MAX_NOT_DISCHARGED:
                # enough named obligations of this unit case have failed: stop spending solver time on it
                raise StopExploration()
        return ob

    def cover(self, cid, extra=True):
        """reachability witness: the current path (plus extra) must be satisfiable"""
        r = self._check(to_z3(extra) if not isinstance(extra, z3.ExprRef) else extra, PROVE_TIMEOUT_MS)
        self.covers.append((cid, str(r)))
        return r != z3.unsat

    def _model_now(self):
        if self.s.check() == z3.sat:
            return self.s.model()
        return None

    def model_inputs(self, m):
        out = {}
        if m is None:
            return out
        for k, v in self.inputs.items():
            try:
                out[k] = _model_val(m, v)
            except Exception as e:   # pragma: no cover
                out[k] = '<%s>' % e
        return out

    def to_smt2(self, extra):
        s2 = z3.Solver()
        for a in self.pc:
            s2.add(a)
        s2.add(extra)
        return s2.to_smt2()

    def _small_bounds(self, lo=-2, hi=12):
        out = []

        def walk(v):
            if isinstance(v, z3.ArithRef) and v.sort() == z3.IntSort():
                out.append(z3.And(v >= lo, v <= hi))
            elif isinstance(v, (list, tuple)):
                for x in v:
                    walk(x)
            elif isinstance(v, dict):
                for x in v.values():
                    walk(x)
            elif isinstance(v, Opt):
                walk(v.val)
            elif isinstance(v, (NodeV, NodeId, Opaque)):
                pass
        for k, v in self.inputs.items():
            walk(v)
        return out

    def track(self, name, v):
        self.inputs[name] = v
        return v


def _model_val(m, v):
    if isinstance(v, z3.ExprRef):
        r = m.eval(v, model_completion=True)
        if z3.is_int_value(r):
            return r.as_long()
        if z3.is_true(r):
            return True
        if z3.is_false(r):
            return False
        if z3.is_rational_value(r):
            return float(r.numerator_as_long()) / float(r.denominator_as_long())
        return str(r)
    if isinstance(v, (list, tuple)):
        return [_model_val(m, x) for x in v]
    if isinstance(v, dict):
        return dict((k, _model_val(m, x)) for k, x in v.items())
    if isinstance(v, Opt):
        if _model_val(m, v.isnone):
            return None
        return _model_val(m, v.val)
    if isinstance(v, (NodeV, NodeId)):
        return _model_val(m, v.idx)
    if isinstance(v, Opaque):
        return _model_val(m, v.id)
    if callable(v):
        return v(m)
    return v


_HAVE = {}
_CLI_CALLS = [0]
_NOT_DISCHARGED = [0]
MAX_NOT_DISCHARGED = int(os.environ.get('PYVC_MAX_NOT_DISCHARGED', '8'))
CLI_BUDGET = int(os.environ.get('PYVC_CLI_BUDGET', '3'))


def _cli_budget_exhausted():
    """second opinions from the command-line solvers are limited per process (one unit case): code that breaks many obligations at
    once would otherwise spend 40 s on each of them"""
    return _CLI_CALLS[0] >= CLI_BUDGET


def _have(exe):
    if exe not in _HAVE:
        _HAVE[exe] = any(os.access(os.path.join(p, exe), os.X_OK) for p in os.environ.get('PATH', '').split(':'))
    return _HAVE[exe]


def run_cli_portfolio(smt2):
    """second opinion from cvc5 and the two z3 binaries.  Returns ('unsat'|'sat'|'unknown', who)"""
    td = os.environ.get('PYVC_SCRATCH') or tempfile.gettempdir()
    fd, path = tempfile.mkstemp(suffix='.smt2', dir=td)
    try:
        with os.fdopen(fd, 'w') as f:
            f.write(smt2)
            if '(check-sat)' not in smt2:
                f.write('\n(check-sat)\n')
        cmds = []
        if _have('cvc5'):
            cmds.append((['cvc5', '--strings-exp', '--tlimit=%d' % (CLI_TIMEOUT_S * 1000), path], 'cvc5-cli'))
        if _have('z3'):
            cmds.append((['z3', '-T:%d' % CLI_TIMEOUT_S, path], 'z3-cli-4.8.12'))
        for cmd, who in cmds:
            try:
                p = subprocess.run(cmd, stdout=subprocess.PIPE, stderr=subprocess.PIPE, timeout=CLI_TIMEOUT_S + 5)
                out = p.stdout.decode('utf-8', 'replace').strip().split('\n')[0].strip()
            except Exception:
                out = 'unknown'
            if out in ('unsat', 'sat'):
                return out, who
        return 'unknown', 'portfolio'
    finally:
        try:
            os.unlink(path)
        except OSError:
            pass


def explore(run_fn, label='', max_paths=20000):
    """run `run_fn(ctx)` once per feasible path.  Returns (obligations, npaths, covers, notes)"""
    work = [[]]
    obligs = []
    covers = []
    notes = []
    npaths = 0
    while work:
        prefix = work.pop()
        ctx = PathCtx(prefix, label)
        npaths += 1
        if npaths > max_paths:
            raise Undecided('path limit exceeded in %s' % label)
        stop = False
        try:
            run_fn(ctx)
        except PathAbort:
            pass
        except StopExploration:
            stop = True
        if stop:
            obligs.extend(ctx.oblig)
            break
        work.extend(ctx.alts)
        obligs.extend(ctx.oblig)
        covers.extend(ctx.covers)
        notes.extend(ctx.notes)
    return obligs, npaths, covers, notes
