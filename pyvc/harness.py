"""Units under contract, runner, canaries, evidence."""
import ast
import copy
import json
import os
import sys
import time
import traceback
import multiprocessing as mp
from . import source
from .ctx import explore, Undecided

UNITS = {}


class CanaryNotApplicable(Exception):
    pass


class Unit(object):
    """one function (or region of a function) of /repo checked against its contract.

    run(ctx, **case) builds the symbolic pre-state, assumes `requires`, executes the *real* AST and proves
    the `ensures` clauses through ctx.prove(goal, 'Cxx.<clause>').  `cases` is a list of dicts (concrete
    shape alternatives: message type present/absent fields, None-ness of arguments...)."""

    def __init__(self, name, relpath, qual, run, props, cases=None, doc='', kind='function', assumptions=(),
                 trusted=(), canaries=(), bounded=False):
        self.name = name
        self.relpath = relpath
        self.qual = qual if isinstance(qual, (list, tuple)) else [qual]
        self.run = run
        self.props = list(props)
        self.cases = cases or [{}]
        self.doc = doc
        self.kind = kind
        self.assumptions = list(assumptions)
        self.trusted = list(trusted)
        self.canaries = list(canaries)     # [(name, mutator(module_tree), [clause ids expected to fail])]
        self.bounded = bounded
        # the properties a unit serves = the declared ones plus every property named in a clause tag of its text
        try:
            import inspect
            import re
            src = inspect.getsource(run)
            for m in re.finditer(r"'((?:C\d\d\+)*C\d\d):", src):
                for t in m.group(1).split('+'):
                    if t not in self.props:
                        self.props.append(t)
        except Exception:
            pass
        UNITS[name] = self


def unit(**kw):
    def deco(f):
        Unit(run=f, **kw)
        return f
    return deco


def describe_functions(u):
    out = []
    mod = source.load(u.relpath)
    for q in u.qual:
        fn, ci = mod.find(q)
        if fn is None:
            out.append(dict(function=q, file=u.relpath, missing=True))
        else:
            d = source.describe(mod, fn)
            d['function'] = q
            out.append(d)
    return out


def _run_case(args):
    uname, ci, mutation, modules = args
    for m in modules:
        __import__(m)
    u = UNITS[uname]
    case = u.cases[ci]
    t0 = time.time()
    res = dict(unit=uname, case=ci, case_desc=_case_desc(case), obligations=[], paths=0, covers=[], error=None, undecided=None)
    try:
        from . import ctx as _ctx
        _ctx._CLI_CALLS[0] = 0
        _ctx._NOT_DISCHARGED[0] = 0
        source.reset_cache()
        if mutation is not None:
            os.environ['PYVC_STOP_ON_FAIL'] = '1'
            cname = mutation
            mut = [c for c in u.canaries if c[0] == cname][0]
            mod = source.load(u.relpath)
            mut[1](mod)
        obs, npaths, covers, notes = explore(lambda ctx: u.run(ctx, **case), '%s#%d' % (uname, ci))
        res['obligations'] = [o.to_json() for o in obs]
        for o, j in zip(obs, res['obligations']):
            if o.status != 'discharged' and o.smt2:
                j['smt2'] = o.smt2
        res['paths'] = npaths
        res['covers'] = covers
        res['notes'] = notes
        # parts of the execution were over-abstracted (e.g. a loop over an abstract map run for one representative key): failed obligations
        # found this way are reported, but the case does not count as verified
        inc = sorted(set(n[len('INCOMPLETE: '):] for n in notes if isinstance(n, str) and n.startswith('INCOMPLETE: ')))
        if inc:
            res['undecided'] = 'abstracted beyond the contract: ' + '; '.join(inc)
    except Undecided as e:
        res['undecided'] = str(e)
    except CanaryNotApplicable as e:
        res['canary_na'] = str(e)
    except Exception:
        res['error'] = traceback.format_exc()
    res['secs'] = time.time() - t0
    return res


def _case_desc(case):
    return dict((k, (v if isinstance(v, (int, str, bool, type(None))) else repr(v))) for k, v in case.items())


def run_units(unit_names, modules, jobs=None, mutation=None):
    """-> list of per-case results"""
    tasks = []
    for un in unit_names:
        u = UNITS[un]
        for ci in range(len(u.cases)):
            tasks.append((un, ci, mutation, modules))
    jobs = jobs or min(16, max(1, len(tasks)))
    if jobs == 1 or len(tasks) == 1:
        return [_run_case(t) for t in tasks]
    with mp.get_context('fork').Pool(jobs) as pool:
        return pool.map(_run_case, tasks, chunksize=1)


def run_canary(uname, cname, modules):
    u = UNITS[uname]
    tasks = [(uname, ci, cname, modules) for ci in range(len(u.cases))]
    with mp.get_context('fork').Pool(min(16, len(tasks))) as pool:
        return pool.map(_run_case, tasks, chunksize=1)


# ---------------------------------------------------------------- AST mutation helpers for canaries

def mutate_function(mod, qual, transformer):
    """apply an ast.NodeTransformer-like callable to the FunctionDef of `qual` inside module `mod` (in memory)"""
    fn, ci = mod.find(qual)
    if fn is None:
        raise Undecided('canary: %s not found' % qual)
    n = transformer(fn)
    ast.fix_missing_locations(fn)
    if not n:
        raise CanaryNotApplicable('canary on %s changed nothing (the code no longer has the mutated construct)' % qual)


def replace_compare(fn, line_pred, old_op, new_op, nth=0):
    """flip the nth comparison operator of type old_op on a line satisfying line_pred"""
    cnt = 0
    for n in sorted([x for x in ast.walk(fn) if isinstance(x, ast.Compare)], key=lambda x: (x.lineno, x.col_offset)):
        if isinstance(n, ast.Compare) and len(n.ops) == 1 and isinstance(n.ops[0], old_op) and line_pred(n):
            if cnt == nth:
                n.ops = [new_op()]
                return 1
            cnt += 1
    return 0


def src_of(mod, node):
    return mod.segment(node) or ''
