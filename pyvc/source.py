"""Reads the real source under /repo on every run: modules, classes, functions, constants."""
import ast
import hashlib
import os

REPO = os.environ.get('PYVC_REPO', '/repo')

_cache = {}


class ClassInfo(object):
    def __init__(self, name, node, module):
        self.name = name
        self.node = node
        self.module = module
        self.methods = {}
        self.consts = {}
        self.bases = []
        for b in node.bases:
            if isinstance(b, ast.Name):
                self.bases.append(b.id)
            elif isinstance(b, ast.Attribute):
                self.bases.append(b.attr)
        for st in node.body:
            if isinstance(st, ast.FunctionDef):
                self.methods[st.name] = st
            elif isinstance(st, ast.Assign) and len(st.targets) == 1 and isinstance(st.targets[0], ast.Name):
                try:
                    self.consts[st.targets[0].id] = ast.literal_eval(st.value)
                except Exception:
                    pass

    def __repr__(self):
        return 'Class(%s)' % self.name


class Module(object):
    def __init__(self, relpath):
        self.relpath = relpath
        self.path = os.path.join(REPO, relpath)
        with open(self.path, 'r') as f:
            self.src = f.read()
        self.lines = self.src.split('\n')
        self.tree = ast.parse(self.src, filename=self.path)
        self.classes = {}
        self.funcs = {}
        self.assigns = {}     # name -> ast expr of module-level simple assignment (last wins)
        self.imports = {}     # local name -> ('module.rel.path' or ext name, attr or None)
        self._scan(self.tree.body)

    def _scan(self, body):
        for st in body:
            if isinstance(st, ast.ClassDef):
                self.classes[st.name] = ClassInfo(st.name, st, self)
            elif isinstance(st, ast.FunctionDef):
                self.funcs[st.name] = st
            elif isinstance(st, ast.Assign) and len(st.targets) == 1 and isinstance(st.targets[0], ast.Name):
                self.assigns[st.targets[0].id] = st.value
            elif isinstance(st, ast.ImportFrom):
                for a in st.names:
                    self.imports[a.asname or a.name] = ((st.level, st.module), a.name)
            elif isinstance(st, ast.Import):
                for a in st.names:
                    self.imports[a.asname or a.name.split('.')[0]] = ((0, a.name), None)
            elif isinstance(st, ast.Try):
                # py2/py3 import shims: take the py3 side (X2): handlers for ImportError first
                for h in st.handlers:
                    self._scan(h.body)
                # and the try body for names that exist on py3 as well (later definitions win is wrong
                # here, so only scan names not yet defined)
                saved = (dict(self.imports), dict(self.assigns), dict(self.funcs))
                self._scan(st.body)
                self.imports.update(saved[0])
                self.assigns.update(saved[1])
                self.funcs.update(saved[2])
            elif isinstance(st, ast.If):
                # `if is_py3:` style
                self._scan(st.body)

    def find(self, qualname):
        """'Class.method' | 'func' | 'func.<inner>.<inner2>' -> (FunctionDef, ClassInfo or None)"""
        parts = qualname.split('.')
        if parts[0] in self.classes:
            ci = self.classes[parts[0]]
            if len(parts) == 1:
                return None, ci
            fn = ci.methods.get(parts[1])
            if fn is None:
                return None, ci
            for p in parts[2:]:
                fn = _inner(fn, p)
                if fn is None:
                    return None, ci
            return fn, ci
        fn = self.funcs.get(parts[0])
        for p in parts[1:]:
            if fn is None:
                break
            fn = _inner(fn, p)
        return fn, None

    def segment(self, node):
        return ast.get_source_segment(self.src, node)

    def sha(self, node):
        seg = self.segment(node) or ''
        return hashlib.sha256(seg.encode('utf-8')).hexdigest()[:16]


def _inner(fn, name):
    for st in ast.walk(fn):
        if isinstance(st, ast.FunctionDef) and st.name == name and st is not fn:
            return st
    return None


def load(relpath):
    if relpath not in _cache:
        _cache[relpath] = Module(relpath)
    return _cache[relpath]


def reset_cache():
    _cache.clear()


def mangle(cls, name):
    if cls and name.startswith('__') and not name.endswith('__'):
        return '_%s%s' % (cls.lstrip('_'), name)
    return name


def describe(mod, fn):
    return dict(file=mod.relpath, lines=[fn.lineno, fn.end_lineno], sha256_16=mod.sha(fn))
