"""./check <PID> --replay <file>: native replay of a stored counter-model"""
import os
import subprocess
import sys

HERE = os.path.dirname(os.path.dirname(os.path.abspath(__file__)))


def main(pid, path):
    py = '/venv/bin/python' if os.path.exists('/venv/bin/python') else sys.executable
    env = dict(os.environ)
    env['PYTHONPATH'] = os.environ.get('PYVC_REPO', '/repo') + ':' + HERE
    p = subprocess.run([py, os.path.join(HERE, 'replay.py'), path], env=env)
    if p.returncode == 1:
        print('VIOLATION property=%s replay=%s' % (pid, path))
    return p.returncode
