"""Byte strings and byte images (mmap) for the journal contracts (DESIGN §2.1, §2.9): a byte string is a length and a
function index -> byte; struct.pack results are uninterpreted byte functions with the round-trip axiom."""
import ast
import z3
from .values import *   # noqa
from .ctx import Undecided

I_ = z3.IntSort()
# little-endian bytes of a 32-bit / 64-bit unsigned value
LE32 = [z3.Function('le32_b%d' % k, I_, I_) for k in range(4)]
LE64 = [z3.Function('le64_b%d' % k, I_, I_) for k in range(8)]
U32 = z3.Function('u32le', I_, I_, I_, I_, I_)
U64 = z3.Function('u64le', *([I_] * 9))
TWO32 = 2 ** 32
TWO64 = 2 ** 64


def struct_axioms():
    """T-STRUCT: unpack(pack(v)) == v inside the format's range; every packed byte is a byte"""
    v = z3.Int('sv')
    ax = [z3.ForAll([v], z3.Implies(z3.And(v >= 0, v < TWO32), U32(*[f(v) for f in LE32]) == v),
                    patterns=[z3.MultiPattern(*[f(v) for f in LE32])]),
          z3.ForAll([v], z3.Implies(z3.And(v >= 0, v < TWO64), U64(*[f(v) for f in LE64]) == v),
                    patterns=[z3.MultiPattern(*[f(v) for f in LE64])])]
    return ax


class ByteStr(object):
    kinds = ('bytes',)

    def __init__(self, n, at):
        self.n = n
        self.at = at

    def length(self, I):
        return self.n

    def truth(self, I):
        return to_z3(self.n) > 0 if is_sym(self.n) else self.n > 0

    def binop(self, I, op, other, swapped, inplace):
        if not isinstance(op, ast.Add):
            return NotImplemented
        o = to_bytestr(other)
        if o is None:
            return NotImplemented
        a, b = (o, self) if swapped else (self, o)
        return concat(a, b)

    def get_slice(self, I, lo, hi):
        n = self.n
        a = I.norm_index(0 if lo is None else lo, n)
        b = I.norm_index(n if hi is None else hi, n)
        b = Max(a, b)
        a = z3.simplify(a) if is_sym(a) else a
        ln = b - a
        ln = z3.simplify(ln) if is_sym(ln) else ln
        return ByteStr(ln, (lambda i, s=self, a=a: s.at(to_z3(i) + to_z3(a))))

    def ite_with(self, c, other):
        o = to_bytestr(other)
        return ByteStr(Ite(c, self.n, o.n), (lambda i, a=self, b=o, c=c: z3.If(c, a.at(i), b.at(i))))

    def get_item(self, I, idx):
        ok = And(to_z3(idx) >= 0, to_z3(idx) < to_z3(self.n))
        if not (I.ctx.decide(ok, 'byte-index') if is_sym(ok) else ok):
            I.raise_('IndexError')
        return self.at(to_z3(idx))


def concat(a, b):
    na = a.n
    return ByteStr(na + b.n if (is_sym(na) or is_sym(b.n)) else na + b.n,
                   (lambda i, a=a, b=b, na=na: z3.If(to_z3(i) < to_z3(na), a.at(i), b.at(to_z3(i) - to_z3(na)))))


def from_bytes(bs):
    vals = list(bs)

    def at(i, vals=vals):
        if not vals:
            return z3.IntVal(0)
        r = z3.IntVal(vals[-1])
        for k in range(len(vals) - 2, -1, -1):
            r = z3.If(to_z3(i) == k, vals[k], r)
        return r
    return ByteStr(len(vals), at)


def to_bytestr(v):
    if isinstance(v, ByteStr):
        return v
    if isinstance(v, bytes):
        return from_bytes(v)
    return None


def pick(i, exprs):
    r = exprs[-1]
    for k in range(len(exprs) - 2, -1, -1):
        r = z3.If(to_z3(i) == k, exprs[k], r)
    return r


def struct_pack(I, args, kw):
    fmt = args[0]
    vals = [I.unwrap(v) for v in args[1:]]
    if not isinstance(fmt, str):
        raise Undecided('struct.pack with symbolic format')
    f = fmt.lstrip('<>=@!')
    parts = []
    if len(f) != len(vals):
        I.raise_('StructError')
    for ch, v in zip(f, vals):
        if ch in ('I', 'i'):
            lo, hi = (0, TWO32) if ch == 'I' else (-2 ** 31, 2 ** 31)
            ok = And(to_z3(v) >= lo, to_z3(v) < hi)
            if not (I.ctx.decide(ok, 'pack-range') if is_sym(ok) else ok):
                I.raise_('StructError')
            if ch == 'i':
                # two's complement image of a signed value
                v = z3.If(to_z3(v) < 0, to_z3(v) + TWO32, to_z3(v))
            parts.append(ByteStr(4, (lambda i, v=v: pick(i, [fn(to_z3(v)) for fn in LE32]))))
        elif ch == 'Q':
            ok = And(to_z3(v) >= 0, to_z3(v) < TWO64)
            if not (I.ctx.decide(ok, 'pack-range') if is_sym(ok) else ok):
                I.raise_('StructError')
            parts.append(ByteStr(8, (lambda i, v=v: pick(i, [fn(to_z3(v)) for fn in LE64]))))
        else:
            raise Undecided('struct.pack format %r' % fmt)
    r = parts[0]
    for p in parts[1:]:
        r = concat(r, p)
    return r


def struct_unpack(I, args, kw):
    fmt, data = args
    f = fmt.lstrip('<>=@!')
    data = to_bytestr(data)
    if data is None:
        raise Undecided('struct.unpack of %r' % (args[1],))
    need = sum({'I': 4, 'i': 4, 'Q': 8}[c] for c in f)
    ok = Eq(data.n, need)
    if not (I.ctx.decide(ok, 'unpack-size') if is_sym(ok) else ok):
        I.raise_('StructError')
    out = []
    pos = 0
    for ch in f:
        if ch in ('I', 'i'):
            v = U32(*[data.at(z3.IntVal(pos + k)) for k in range(4)])
            if ch == 'i':
                v = z3.If(v >= 2 ** 31, v - TWO32, v)
            out.append(v)
            pos += 4
        else:
            out.append(U64(*[data.at(z3.IntVal(pos + k)) for k in range(8)]))
            pos += 8
    return tuple(out)


class StructObj(object):
    """struct.Struct(fmt): pack/unpack with the fixed format (same T-STRUCT model as struct.pack/unpack)"""

    def __init__(self, fmt):
        self.fmt = fmt

    def call_method(self, I, ref, name, args, kw):
        if name == 'pack':
            return struct_pack(I, [self.fmt] + list(args), kw)
        if name == 'unpack':
            return struct_unpack(I, [self.fmt, args[0]], kw)
        return NotImplemented


def struct_Struct(I, args, kw):
    if not isinstance(args[0], str):
        raise Undecided('struct.Struct with symbolic format')
    return I.ctx.alloc(StructObj(args[0]))


def struct_unpack_from(I, args, kw):
    """struct.unpack_from(fmt, buffer, offset=0): needs at least calcsize(fmt) bytes from offset, else struct.error"""
    fmt, data = args[0], args[1]
    off = args[2] if len(args) > 2 else kw.get('offset', 0)
    f = fmt.lstrip('<>=@!')
    b = to_bytestr(data)
    if b is None:
        raise Undecided('struct.unpack_from of %r' % (data,))
    need = sum({'I': 4, 'i': 4, 'Q': 8}[c] for c in f)
    ok = to_z3(b.n) - to_z3(off) >= need
    if not (I.ctx.decide(ok, 'unpack_from-size') if is_sym(ok) else ok):
        I.raise_('StructError')
    sl = ByteStr(need, (lambda i, b=b, off=off: b.at(to_z3(i) + to_z3(off))))
    return struct_unpack(I, [fmt, sl], {})


class BImg(object):
    """mmap object over a file: `arr(i)` byte at i (z3 Int), `size` its length.  T-MMAP."""

    def __init__(self, arr, size):
        self.arr = arr
        self.size = size

    def call_method(self, I, ref, name, args, kw):
        ctx = I.ctx
        if name == 'size':
            return self.size
        if name == 'resize':
            n = I.unwrap(args[0])
            if ctx.decide(FreshBool('resizeUnsupported'), 'mmap-resize-raises-SystemError'):
                I.raise_('SystemError')
            old = self
            nz = to_z3(n)
            ctx.setcell(ref, BImg((lambda i, old=old: z3.If(to_z3(i) < to_z3(old.size), old.arr(i), 0)), n))
            ctx.ghost['file_ops'] = ctx.glist('file_ops') + [('resize', n)]
            return None
        if name in ('flush', 'close'):
            return None
        return NotImplemented

    def get_slice(self, I, ref, lo, hi):
        n = self.size
        a = I.norm_index(0 if lo is None else lo, n)
        b = I.norm_index(n if hi is None else hi, n)
        b = Max(a, b)
        ln = b - a
        ln = z3.simplify(ln) if is_sym(ln) else ln
        return ByteStr(ln, (lambda i, s=self, a=a: s.arr(to_z3(i) + to_z3(a))))

    def set_slice(self, I, ref, lo, hi, v):
        ctx = I.ctx
        v = to_bytestr(v)
        if v is None:
            raise Undecided('mmap slice assignment of non-bytes')
        n = self.size
        a = I.norm_index(0 if lo is None else lo, n)
        b = I.norm_index(n if hi is None else hi, n)
        b = Max(a, b)
        ok = Eq(b - a, v.n)
        if not (ctx.decide(ok, 'mmap-slice-size') if is_sym(ok) else ok):
            I.raise_('IndexError', 'mmap slice assignment is wrong size')
        old = self
        ctx.setcell(ref, BImg((lambda i, old=old, a=a, b=b, v=v: z3.If(z3.And(to_z3(i) >= to_z3(a), to_z3(i) < to_z3(b)), v.at(to_z3(i) - to_z3(a)), old.arr(i))), n))
        ctx.ghost['file_ops'] = ctx.glist('file_ops') + [('store', a, b, v, old)]
        return None


def fresh_image(base='F'):
    f = z3.Function(fresh_name(base), I_, I_)
    size = FreshInt(base + '_size')
    return BImg((lambda i, f=f: f(to_z3(i))), size), f, size
