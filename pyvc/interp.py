"""Symbolic interpreter for the Python subset, working directly on the real AST."""
import ast
import z3
from .values import *   # noqa
from .ctx import Undecided, PathAbort, MergeFail
from . import source


class PyExc(Exception):
    """an exception raised by the interpreted program"""

    def __init__(self, typ, args=(), fields=None):
        Exception.__init__(self, typ)
        self.typ = typ
        self.eargs = tuple(args)
        self.fields = dict(fields or {})


class _Return(Exception):
    def __init__(self, v):
        self.v = v


class _Break(Exception):
    pass


class _Continue(Exception):
    pass


class ExcType(object):
    def __init__(self, name):
        self.name = name

    def __repr__(self):
        return 'ExcType(%s)' % self.name


class ExtName(object):
    """dotted name of something outside the verified code (module, function)"""

    def __init__(self, dotted):
        self.dotted = dotted

    def __repr__(self):
        return 'Ext(%s)' % self.dotted


class BoundMethod(object):
    def __init__(self, recv, name):
        self.recv = recv
        self.name = name


class FuncVal(object):
    """a function of the verified code base (FunctionDef + defining class/module)"""

    def __init__(self, fn, mod, cls=None, selfv=None, closure=None):
        self.fn = fn
        self.mod = mod
        self.cls = cls
        self.selfv = selfv
        self.closure = closure


EXC_PARENT = {
    'Exception': 'BaseException', 'KeyError': 'LookupError', 'IndexError': 'LookupError', 'LookupError': 'Exception',
    'TypeError': 'Exception', 'ValueError': 'Exception', 'AssertionError': 'Exception', 'AttributeError': 'Exception',
    'OSError': 'Exception', 'SystemError': 'Exception', 'ImportError': 'Exception', 'RuntimeError': 'Exception',
    'Full': 'Exception', 'Empty': 'Exception', 'ReferenceError': 'Exception', 'ZeroDivisionError': 'Exception',
    'UserError': 'Exception', 'StructError': 'Exception', 'ZlibError': 'Exception', 'UnpicklingError': 'Exception',
    'TransportNotReadyError': 'Exception', 'OverflowError': 'Exception', 'ArbitraryError': 'Exception', 'ArbitraryUnpickleError': 'Exception',
}


def exc_isa(t, parent):
    while t is not None:
        if t == parent:
            return True
        t = EXC_PARENT.get(t)
    return False


BUILTIN_EXC = ['Exception', 'KeyError', 'IndexError', 'TypeError', 'ValueError', 'AssertionError', 'OSError',
               'SystemError', 'ImportError', 'RuntimeError', 'ReferenceError', 'AttributeError', 'BaseException']


class Frame(object):
    def __init__(self, mod, cls, fname, closure=None):
        self.locals = {}
        self.mod = mod
        self.cls = cls
        self.fname = fname
        self.closure = closure   # enclosing frame's locals (read-only)


class Interp(object):
    def __init__(self, ctx, registry=None, externals=None, inline=(), loop_invariants=None, hooks=None):
        self.ctx = ctx
        self.registry = registry or {}       # 'Class.method' -> contract summary callable(interp, selfv, args, kwargs)
        self.externals = externals or {}     # dotted name -> callable(interp, args, kwargs)
        self.inline = set(inline)            # qualified names whose real body is executed in place
        self.loop_inv = loop_invariants or {}  # (qualname, ordinal) -> LoopSpec
        self.hooks = hooks or {}
        self.loop_ord = {}
        self.dropped = []
        self.depth = 0

    # ------------------------------------------------------------------ helpers
    def truth(self, v, label=None):
        c = self.truth_expr(v)
        return self.ctx.decide(c, label)

    def truth_expr(self, v):
        """python truthiness as bool or z3 Bool"""
        if isinstance(v, z3.BoolRef) or isinstance(v, bool):
            return v
        if v is None:
            return False
        if isinstance(v, Opt):
            return And(Not(v.isnone), self.truth_expr(v.val))
        if isinstance(v, z3.ArithRef):
            return v != 0
        if isinstance(v, (int, float, str, bytes, tuple)):
            return bool(v)
        if isinstance(v, Ref):
            c = self.ctx.cell(v)
            if isinstance(c, PList):
                return len(c.items) > 0
            if isinstance(c, PDict):
                return len(c.items) > 0
            if isinstance(c, KVDict):
                return Or(*[p for p, k, v in c.entries])
            if isinstance(c, SList):
                return to_z3(c.n) > 0 if is_sym(c.n) else c.n > 0
            if isinstance(c, NSet):
                return Or(*c.bits)
            if isinstance(c, NMap):
                return Or(*c.pres)
            if hasattr(c, 'truth'):
                return c.truth(self)
            return True
        if hasattr(v, 'truth'):
            return v.truth(self)
        if isinstance(v, (NodeV, NodeId, Callable_, FuncVal, BoundMethod, ExtName, ExcType, Opaque)):
            if isinstance(v, Opaque) and hasattr(v, 'truth'):
                return v.truth(self)
            return True
        raise Undecided('truthiness of %r' % (v,))

    def unwrap(self, v, what=''):
        """use of a possibly-None value where None is not allowed: fork; the None side raises"""
        if isinstance(v, Opt):
            if self.ctx.decide(v.isnone, 'isNone(%s)' % what):
                return None
            return v.val
        return v

    def raise_(self, typ, *args, **fields):
        raise PyExc(typ, args, fields)

    # ------------------------------------------------------------------ name lookup
    def lookup(self, name, fr):
        if name in fr.locals:
            return fr.locals[name]
        cl = fr.closure
        while cl is not None:
            if name in cl.locals:
                return cl.locals[name]
            cl = cl.closure
        return self.lookup_global(name, fr.mod)

    def lookup_global(self, name, mod):
        if name in mod.classes:
            ci = mod.classes[name]
            if self._is_exc_class(ci, mod):
                return ExcType(name)
            return ci
        if name in mod.funcs:
            return FuncVal(mod.funcs[name], mod)
        if name in mod.assigns:
            e = mod.assigns[name]
            try:
                return self.eval(e, Frame(mod, None, '<module>'))
            except Undecided:
                pass
        if name in mod.imports:
            (level, m), attr = mod.imports[name]
            if level >= 1 or (m or '').startswith('pysyncobj'):
                mm = (m or '').replace('pysyncobj.', '').replace('pysyncobj', '')
                if mm == '' and attr is not None:
                    mm, attr = attr, None
                rel = 'pysyncobj/%s.py' % mm
                try:
                    m2 = source.load(rel)
                except IOError:
                    raise Undecided('cannot load %s' % rel)
                if attr is None:
                    return ModVal(m2)
                dotted = '%s.%s' % (mm, attr)
                if dotted in self.externals:
                    return ExtName(dotted)
                return self.lookup_global(attr, m2)
            dotted = m if attr is None else '%s.%s' % (m, attr)
            return ExtName(dotted)
        if name in BUILTIN_EXC:
            return ExcType(name)
        if name in ('True', 'False', 'None'):
            return {'True': True, 'False': False, 'None': None}[name]
        return ExtName(name)    # builtin function or unknown: resolved at call time

    def _is_exc_class(self, ci, mod):
        seen = 0
        while ci is not None and seen < 10:
            seen += 1
            for b in ci.bases:
                if b in BUILTIN_EXC or b in EXC_PARENT:
                    EXC_PARENT.setdefault(ci.name, b)
                    return True
                nxt = mod.classes.get(b)
                if nxt is not None and self._is_exc_class(nxt, mod):
                    EXC_PARENT.setdefault(ci.name, b)
                    return True
            return False
        return False

    # ------------------------------------------------------------------ functions
    def call_funcdef(self, fn, mod, cls, selfv, args, kwargs, closure=None, qual=None):
        fr = Frame(mod, cls, qual or fn.name, closure)
        self.bind_params(fn, fr, selfv, args, kwargs)
        if self.depth >= 1 and fn.name != '<lambda>':
            note = 'executed-inline %s' % (qual or fn.name)
            if note not in self.ctx.notes:
                self.ctx.notes.append(note)     # real body of a callee run in place under the caller's contract (reported in the evidence)
        self.depth += 1
        if self.depth > 40:
            raise Undecided('recursion too deep at %s' % fn.name)
        try:
            self.exec_block(fn.body, fr)
        except _Return as r:
            return r.v
        finally:
            self.depth -= 1
        return None

    def bind_params(self, fn, fr, selfv, args, kwargs):
        a = fn.args
        params = [p.arg for p in a.args]
        args = list(args)
        if selfv is not None:
            args = [selfv] + args
        defaults = a.defaults
        ndef = len(defaults)
        kwargs = dict(kwargs)
        for i, p in enumerate(params):
            if i < len(args):
                fr.locals[p] = args[i]
            elif p in kwargs:
                fr.locals[p] = kwargs.pop(p)
            else:
                di = i - (len(params) - ndef)
                if di < 0:
                    if self.depth == 0:
                        # the harness itself calls the function under contract: a changed signature means the contract no longer fits
                        raise Undecided('signature of %s changed: no value for parameter %s' % (fr.fname, p))
                    self.raise_('TypeError', 'missing argument %s' % p)
                fr.locals[p] = self.eval(defaults[di], Frame(fr.mod, fr.cls, '<default>'))
        extra = args[len(params):]
        if a.vararg is not None:
            fr.locals[a.vararg.arg] = tuple(extra)
        elif extra:
            self.raise_('TypeError', 'too many positional arguments')
        if a.kwarg is not None:
            fr.locals[a.kwarg.arg] = self.ctx.alloc(PDict(kwargs))
        elif kwargs:
            self.raise_('TypeError', 'unexpected keyword %s' % sorted(kwargs))

    # ------------------------------------------------------------------ statements
    def exec_block(self, stmts, fr):
        for s in stmts:
            self.exec_stmt(s, fr)

    def exec_stmt(self, s, fr):
        self.ctx.cur_line = getattr(s, 'lineno', None)
        m = getattr(self, 'st_' + type(s).__name__, None)
        if m is None:
            raise Undecided('statement %s at %s:%s' % (type(s).__name__, fr.mod.relpath, s.lineno))
        return m(s, fr)

    def st_Pass(self, s, fr):
        pass

    def st_Expr(self, s, fr):
        if isinstance(s.value, ast.Constant):
            return   # docstring
        if self._is_logger_call(s.value):
            self.dropped.append('X1 logger call line %d' % s.lineno)
            return
        self.eval(s.value, fr)

    def _is_logger_call(self, e):
        return (isinstance(e, ast.Call) and isinstance(e.func, ast.Attribute) and
                isinstance(e.func.value, ast.Name) and e.func.value.id == 'logger')

    def st_Return(self, s, fr):
        raise _Return(self.eval(s.value, fr) if s.value is not None else None)

    def st_Break(self, s, fr):
        raise _Break()

    def st_Continue(self, s, fr):
        raise _Continue()

    def st_Assert(self, s, fr):
        if not self.truth(self.eval(s.test, fr), 'assert'):
            self.raise_('AssertionError')

    def st_Raise(self, s, fr):
        if s.exc is None:
            raise Undecided('bare raise at line %d' % s.lineno)
        v = self.eval(s.exc, fr)
        if isinstance(v, ExcType):
            raise PyExc(v.name)
        if isinstance(v, PyExc):
            raise v
        raise Undecided('raise of %r at line %d' % (v, s.lineno))

    def st_Assign(self, s, fr):
        v = self.eval(s.value, fr)
        for t in s.targets:
            self.assign(t, v, fr)

    def st_AugAssign(self, s, fr):
        cur = self.eval(_as_load(s.target), fr)
        v = self.eval(s.value, fr)
        r = self.binop(s.op, cur, v, fr, inplace=True)
        if r is not None or not isinstance(cur, Ref):
            self.assign(s.target, r, fr)

    def st_Delete(self, s, fr):
        for t in s.targets:
            if isinstance(t, ast.Subscript):
                obj = self.eval(t.value, fr)
                self.del_subscript(obj, t.slice, fr)
            else:
                raise Undecided('del of %s' % type(t).__name__)

    def st_Global(self, s, fr):
        pass

    def st_FunctionDef(self, s, fr):
        # nested function: a closure over the defining frame
        fr.locals[s.name] = FuncVal(s, fr.mod, fr.cls, None, fr)

    def st_With(self, s, fr):
        # `with lock:` and file/gzip contexts: the context managers used in the verified functions have no
        # effect on the modelled state on entry/exit (locks) or are handled by their external model
        for it in s.items:
            v = self.eval(it.context_expr, fr)
            if it.optional_vars is not None:
                self.assign(it.optional_vars, v, fr)
        self.exec_block(s.body, fr)

    def assign(self, t, v, fr):
        if isinstance(t, ast.Name):
            fr.locals[t.id] = v
        elif isinstance(t, (ast.Tuple, ast.List)):
            items = self.unpack(v, len(t.elts))
            for tt, x in zip(t.elts, items):
                self.assign(tt, x, fr)
        elif isinstance(t, ast.Attribute):
            obj = self.eval(t.value, fr)
            self.set_attr(obj, source.mangle(fr.cls, t.attr), v)
        elif isinstance(t, ast.Subscript):
            obj = self.eval(t.value, fr)
            self.set_subscript(obj, t.slice, v, fr)
        else:
            raise Undecided('assignment target %s' % type(t).__name__)

    def unpack(self, v, n):
        v = self.unwrap(v, 'unpack')
        if isinstance(v, tuple):
            if len(v) != n:
                self.raise_('ValueError', 'unpack')
            return list(v)
        if isinstance(v, Ref):
            c = self.ctx.cell(v)
            if isinstance(c, PList):
                if len(c.items) != n:
                    self.raise_('ValueError', 'unpack')
                return list(c.items)
        if v is None:
            self.raise_('TypeError', 'cannot unpack None')
        if hasattr(v, 'unpack'):
            return v.unpack(self, n)
        raise Undecided('unpack of %r' % (v,))

    def set_attr(self, obj, name, v):
        if isinstance(obj, Ref):
            c = self.ctx.cell(obj)
            if isinstance(c, PObj):
                self.ctx.setcell(obj, c.with_field(name, v))
                return
        raise Undecided('attribute store on %r.%s' % (obj, name))

    def get_attr(self, obj, name, fr=None):
        if isinstance(obj, Ref):
            c = self.ctx.cell(obj)
            if isinstance(c, PObj):
                if name in c.fields:
                    return c.fields[name]
                prop = self._find_property(c.cls, name, fr)
                if prop is not None:
                    fn, mod, cls = prop
                    return self.call_funcdef(fn, mod, cls, obj, [], {}, None, '%s.%s' % (cls, name))
                # a name-mangled private attribute (_Cls__x) that is neither a field of the modelled object nor a method of its class: state the
                # contract's pre-state does not describe (e.g. an attribute introduced by a change) - undecided, not a crash or a guess
                pre = '_%s__' % c.cls.lstrip('_')
                if name.startswith(pre) and fr is not None and getattr(fr, 'mod', None) is not None:
                    short = '__' + name[len(pre):]
                    if self.find_method(c.cls, short, fr, soft=True) is None and self.find_method(c.cls, name, fr, soft=True) is None \
                            and ('%s.%s' % (c.cls, short)) not in self.registry:
                        raise Undecided('attribute %s of %s is not part of the modelled pre-state' % (short, c.cls))
                return BoundMethod(obj, name)
            return BoundMethod(obj, name)
        if isinstance(obj, source.ClassInfo):
            if name in obj.consts:
                return obj.consts[name]
            if name in obj.methods:
                return FuncVal(obj.methods[name], obj.module, obj.name)
            raise Undecided('class attribute %s.%s' % (obj.name, name))
        if isinstance(obj, ModVal):
            short = obj.mod.relpath.split('/')[-1][:-3]
            if '%s.%s' % (short, name) in self.externals:
                return ExtName('%s.%s' % (short, name))
            return self.lookup_global(name, obj.mod)
        if isinstance(obj, ExtName):
            if name in EXC_PARENT or name in BUILTIN_EXC:
                return ExcType(name)
            if name == 'error' and obj.dotted in ('socket', 'struct', 'zlib'):
                return ExcType({'socket': 'OSError', 'struct': 'StructError', 'zlib': 'ZlibError'}[obj.dotted])
            d = obj.dotted + '.' + name
            if d in CONSTANTS:
                return CONSTANTS[d]
            return ExtName(d)
        if isinstance(obj, NodeV):
            if name == 'id' or name == 'address':
                return NodeId(obj.idx)
            return BoundMethod(obj, name)
        if isinstance(obj, PyExc):
            if name in obj.fields:
                return obj.fields[name]
            raise Undecided('exception attribute %s' % name)
        if isinstance(obj, Opt):
            obj2 = self.unwrap(obj, 'attr ' + name)
            if obj2 is None:
                self.raise_('AttributeError', name)
            return self.get_attr(obj2, name, fr)
        if obj is None:
            self.raise_('AttributeError', name)
        if hasattr(obj, 'get_attr'):
            return obj.get_attr(self, name)
        return BoundMethod(obj, name)

    # ------------------------------------------------------------------ control flow
    def st_If(self, s, fr):
        c = self.truth_expr(self.eval(s.test, fr))
        if isinstance(c, bool):
            return self.exec_block(s.body if c else s.orelse, fr)
        c = z3.simplify(c)
        if z3.is_true(c):
            return self.exec_block(s.body, fr)
        if z3.is_false(c):
            return self.exec_block(s.orelse, fr)
        if _simple_block(s.body) and _simple_block(s.orelse):
            if self.try_merge_if(c, s, fr):
                return
        if self.ctx.decide(c, 'if'):
            self.exec_block(s.body, fr)
        else:
            self.exec_block(s.orelse, fr)

    def try_merge_if(self, c, s, fr):
        ctx = self.ctx
        ft, ff = ctx.feasible(c), ctx.feasible(z3.Not(c))
        if not (ft and ff):
            return False
        snap = ctx.snapshot()
        loc0 = dict(fr.locals)
        results = []
        for cond, body in ((c, s.body), (z3.Not(c), s.orelse)):
            ctx.restore(snap)
            fr.locals = dict(loc0)
            ctx.s.push()
            npc = len(ctx.pc)
            ctx.merge_depth += 1
            ok = True
            try:
                ctx.s.add(cond)
                ctx.pc.append(cond)
                self.exec_block(body, fr)
            except (MergeFail, PyExc, _Return, _Break, _Continue):
                ok = False
            finally:
                ctx.merge_depth -= 1
                newpc = ctx.pc[npc + 1:]
                del ctx.pc[npc:]
                ctx.s.pop()
            if not ok:
                ctx.restore(snap)
                fr.locals = dict(loc0)
                return False
            results.append((dict(fr.locals), ctx.snapshot(), newpc, cond))
        (l1, s1, pc1, c1), (l2, s2, pc2, c2) = results
        merged_loc = self._merge_dict(c, l1, l2)
        if merged_loc is None:
            ctx.restore(snap)
            fr.locals = dict(loc0)
            return False
        h1, g1, n1 = s1
        h2, g2, n2 = s2
        if g1 != g2 or n1 != n2 or set(h1) != set(h2):
            ctx.restore(snap)
            fr.locals = dict(loc0)
            return False
        mh = {}
        for a in h1:
            if h1[a] is h2[a]:
                mh[a] = h1[a]
            else:
                mc = self._merge_cell(c, h1[a], h2[a])
                if mc is None:
                    ctx.restore(snap)
                    fr.locals = dict(loc0)
                    return False
                mh[a] = mc
        ctx.restore((mh, g1, n1))
        fr.locals = merged_loc
        for p in pc1:
            ctx.assume(z3.Implies(c, p))
        for p in pc2:
            ctx.assume(z3.Implies(z3.Not(c), p))
        return True

    def _merge_val(self, c, a, b):
        if a is b:
            return a, True
        try:
            if isinstance(a, Ref) or isinstance(b, Ref):
                return (a, True) if (isinstance(a, Ref) and isinstance(b, Ref) and a.addr == b.addr) else (None, False)
            if isinstance(a, (str, bytes)) or isinstance(b, (str, bytes)):
                return (a, True) if a == b else (None, False)
            ok_types = (int, float, bool, z3.ExprRef, Opt, type(None), NodeV, NodeId, Opaque, tuple)
            if isinstance(a, ok_types) and isinstance(b, ok_types):
                return ite_val(c, a, b), True
        except Exception:
            return None, False
        return None, False

    def _merge_dict(self, c, d1, d2):
        out = {}
        for k in set(d1) | set(d2):
            if k not in d1 or k not in d2:
                # defined on one side only: keep only if never read later is unknowable -> fail merge
                return None
            v, ok = self._merge_val(c, d1[k], d2[k])
            if not ok:
                return None
            out[k] = v
        return out

    def _merge_cell(self, c, a, b):
        if type(a) is not type(b):
            return None
        if isinstance(a, PObj):
            if a.cls != b.cls:
                return None
            f = self._merge_dict(c, a.fields, b.fields)
            return None if f is None else PObj(a.cls, f)
        if isinstance(a, NSet):
            return NSet([Ite(c, x, y) if x is not y else x for x, y in zip(a.bits, b.bits)])
        if isinstance(a, NMap):
            pres = [Ite(c, x, y) if x is not y else x for x, y in zip(a.pres, b.pres)]
            vals = []
            for x, y in zip(a.vals, b.vals):
                v, ok = self._merge_val(c, x, y)
                if not ok:
                    return None
                vals.append(v)
            return NMap(pres, vals)
        if isinstance(a, KVDict):
            if len(a.entries) != len(b.entries):
                return None
            ents = []
            for (p1, k1, v1), (p2, k2, v2) in zip(a.entries, b.entries):
                k, ok1 = self._merge_val(c, k1, k2)
                v, ok2 = self._merge_val(c, v1, v2)
                if not (ok1 and ok2):
                    return None
                ents.append((Ite(c, p1, p2) if p1 is not p2 else p1, k, v))
            return type(a)(ents)
        if isinstance(a, PDict):
            if a.default != b.default:
                return None
            f = self._merge_dict(c, a.items, b.items)
            return None if f is None else PDict(f, a.default)
        if isinstance(a, PList):
            if len(a.items) != len(b.items):
                return None
            items = []
            for x, y in zip(a.items, b.items):
                v, ok = self._merge_val(c, x, y)
                if not ok:
                    return None
                items.append(v)
            return PList(items)
        if hasattr(a, 'merge'):
            return a.merge(c, b)
        return None

    def st_Try(self, s, fr):
        try:
            try:
                self.exec_block(s.body, fr)
            except PyExc as e:
                for h in s.handlers:
                    if self.handler_matches(h, e, fr):
                        if h.name:
                            fr.locals[h.name] = e
                        self.exec_block(h.body, fr)
                        break
                else:
                    raise
            else:
                self.exec_block(s.orelse, fr)
        finally:
            if s.finalbody:
                self.exec_block(s.finalbody, fr)

    def handler_matches(self, h, e, fr):
        if h.type is None:
            return True
        t = self.eval(h.type, fr)
        ts = t if isinstance(t, tuple) else (t,)
        for x in ts:
            name = x.name if isinstance(x, ExcType) else (x.dotted.split('.')[-1] if isinstance(x, ExtName) else None)
            if name == 'error':
                name = 'OSError'
            if name is None:
                raise Undecided('except clause type %r' % (x,))
            if exc_isa(e.typ, name):
                return True
        return False

    # loops ------------------------------------------------------------
    def _loop_key(self, s, fr):
        k = (fr.fname, 'loop')
        lst = self.loop_ord.setdefault(fr.fname, [])
        if s not in lst:
            lst.append(s)
        return lst.index(s)

    def loop_ordinal(self, s, fr):
        """ordinal of loop statement `s` among all loops of its function, in source order"""
        fn = self._fn_of.get(fr.fname) if hasattr(self, '_fn_of') else None
        return None

    def st_While(self, s, fr):
        spec = self.find_loop_spec(s, fr)
        if spec is None:
            # concrete/unrolled execution (terminates only if the condition becomes concretely false or bounded)
            n = 0
            while True:
                if not self.truth(self.eval(s.test, fr), 'while'):
                    break
                n += 1
                if n > 64:
                    raise Undecided('while loop without invariant at %s:%d did not terminate in 64 unrollings'
                                    % (fr.mod.relpath, s.lineno))
                try:
                    self.exec_block(s.body, fr)
                except _Break:
                    return
                except _Continue:
                    continue
            self.exec_block(s.orelse, fr)
            return
        spec.run_while(self, s, fr)

    def st_For(self, s, fr):
        spec = self.find_loop_spec(s, fr)
        it = self.eval(s.iter, fr)
        if hasattr(it, 'as_sequence'):
            it = it.as_sequence(self)      # e.g. iteration over a set: an enumeration in unspecified order
        if spec is not None and self._needs_loop_contract(it):
            return spec.run_for(self, s, fr, it)
        items = self.iter_items(it, s, fr)
        for guard, x in items:
            if guard is not True:
                # guarded element (membership in a symbolic set)
                if _simple_block(s.body) and self._merge_guarded(guard, x, s, fr):
                    continue
                if not self.ctx.decide(guard, 'in-set'):
                    continue
            self.assign(s.target, x, fr)
            try:
                self.exec_block(s.body, fr)
            except _Break:
                return
            except _Continue:
                continue
        self.exec_block(s.orelse, fr)

    def _needs_loop_contract(self, it):
        from .builtins_ import SymRange
        if isinstance(it, SymRange):
            return True
        if isinstance(it, Ref):
            c = self.ctx.cell(it)
            return isinstance(c, SList) and is_sym(c.n)
        return False

    def _merge_guarded(self, guard, x, s, fr):
        fake = ast.If(test=ast.Constant(value=True), body=[ast.Assign(targets=[s.target], value=_ValNode(x), lineno=s.lineno)] + s.body,
                      orelse=[])
        had = _target_names(s.target)
        missing = [n for n in had if n not in fr.locals]
        for n in missing:
            fr.locals[n] = None
        ok = self.try_merge_if(z3.simplify(guard) if is_sym(guard) else guard, fake, fr) if is_sym(guard) else False
        if not ok:
            for n in missing:
                fr.locals.pop(n, None)
        return ok

    def iter_items(self, it, s, fr):
        """-> list of (guard, value) for iterables of statically bounded size"""
        it = self.unwrap(it, 'iter')
        if isinstance(it, tuple):
            return [(True, x) for x in it]
        if isinstance(it, Ref):
            c = self.ctx.cell(it)
            if hasattr(c, 'iter_items'):
                return c.iter_items(self)
            if isinstance(c, KVDict):
                return [(p, k) for p, k, v in c.entries if p is not False]
            if isinstance(c, PList):
                return [(True, x) for x in c.items]
            if isinstance(c, PDict):
                return [(True, k) for k in c.items]
            if isinstance(c, NSet):
                return [(b, NodeV(i)) for i, b in enumerate(c.bits) if b is not False]
            if isinstance(c, NMap):
                return [(b, NodeV(i)) for i, b in enumerate(c.pres) if b is not False]
            if isinstance(c, SList):
                if not is_sym(c.n):
                    return [(True, c.get(i)) for i in range(c.n)]
                raise Undecided('for over symbolic-length list needs an invariant at %s:%d' % (fr.mod.relpath, s.lineno))
        if isinstance(it, range):
            return [(True, i) for i in it]
        if hasattr(it, 'iter_items'):
            return it.iter_items(self)
        raise Undecided('iteration over %r at %s:%d' % (it, fr.mod.relpath, s.lineno))

    def find_loop_spec(self, s, fr):
        d = self.loop_inv.get(fr.fname)
        if not d:
            return None
        fn = d.get('__fn__')
        if fn is None:
            return None
        loops = [n for n in ast.walk(fn) if isinstance(n, (ast.For, ast.While))]
        loops.sort(key=lambda n: (n.lineno, n.col_offset))
        if s in loops:
            return d.get(loops.index(s))
        return None

    # ------------------------------------------------------------------ expressions
    def eval(self, e, fr):
        m = getattr(self, 'ex_' + type(e).__name__, None)
        if m is None:
            raise Undecided('expression %s at %s:%s' % (type(e).__name__, fr.mod.relpath, getattr(e, 'lineno', '?')))
        return m(e, fr)

    def ex__ValNode(self, e, fr):
        return e.v

    def ex_Constant(self, e, fr):
        return e.value

    def ex_Name(self, e, fr):
        return self.lookup(e.id, fr)

    def ex_Tuple(self, e, fr):
        out = []
        for x in e.elts:
            if isinstance(x, ast.Starred):
                out.extend(self.star_items(self.eval(x.value, fr)))
            else:
                out.append(self.eval(x, fr))
        return tuple(out)

    def ex_List(self, e, fr):
        return self.ctx.alloc(PList(list(self.ex_Tuple(e, fr))))

    def ex_Dict(self, e, fr):
        if not e.keys:
            return self.ctx.alloc(KVDict())
        d = {}
        for k, v in zip(e.keys, e.values):
            kk = self.eval(k, fr)
            d[self.dict_key(kk)] = self.eval(v, fr)
        return self.ctx.alloc(PDict(d))

    def ex_Set(self, e, fr):
        items = [self.eval(x, fr) for x in e.elts]
        return self.make_set(items)

    def make_set(self, items):
        U = self.ctx.universe
        bits = [False] * U
        raw = [self.unwrap(it, 'set-literal') for it in items]
        if raw and all(isinstance(it, (str, int, bytes)) and not isinstance(it, bool) and not is_sym(it) for it in raw):
            # set of concrete hashable constants (attribute names, ...): generic set with one entry per distinct element
            seen = []
            for it in raw:
                if it not in seen:
                    seen.append(it)
            return self.ctx.alloc(GSet([(True, it, None) for it in seen]))
        for it in items:
            it = self.unwrap(it, 'set-literal')
            if it is None:
                raise Undecided('None in node set')
            if not isinstance(it, NodeV):
                raise Undecided('set literal of non-nodes')
            bits = [Or(b, Eq(it.idx, i)) for i, b in enumerate(bits)]
        return self.ctx.alloc(NSet(bits))

    def dict_key(self, k):
        if isinstance(k, (str, int, bytes)) and not isinstance(k, bool):
            return k
        if isinstance(k, tuple) and all(isinstance(x, (str, int)) for x in k):
            return k
        if self._unhashable(k):
            self.raise_('TypeError', 'unhashable type')      # a list / dict / set used as a dict key
        raise Undecided('non-concrete dict key %r' % (k,))

    def star_items(self, v):
        v = self.unwrap(v, 'star')
        if isinstance(v, tuple):
            return list(v)
        if isinstance(v, Ref):
            c = self.ctx.cell(v)
            if isinstance(c, PList):
                return list(c.items)
        if hasattr(v, 'star_items'):
            return v.star_items(self)
        try:
            items = self.iter_items(v, ast.Pass(lineno=0), Frame(None, None, '<star>'))
        except Undecided:
            raise Undecided('star-args of %r' % (v,))
        out = []
        for g, x in items:
            if g is not True and not self.ctx.decide(g, 'in-set'):
                continue
            out.append(x)
        return out

    def ex_Attribute(self, e, fr):
        obj = self.eval(e.value, fr)
        return self.get_attr(obj, source.mangle(fr.cls, e.attr), fr)

    def ex_BoolOp(self, e, fr):
        # python semantics: returns one of the operands; we only support use in boolean context or with
        # concrete short-circuit
        isand = isinstance(e.op, ast.And)
        last = None
        for i, x in enumerate(e.values):
            v = self.eval(x, fr)
            last = v
            if i == len(e.values) - 1:
                return v
            t = self.truth_expr(v)
            if isinstance(t, bool):
                if t != isand:
                    return v
                continue
            # symbolic: try to build a pure boolean if the remaining operands are side-effect free
            rest = e.values[i + 1:]
            if all(_pure_expr(r) for r in rest) and self.ctx.merge_depth == 0 or all(_pure_expr(r) for r in rest):
                try:
                    self.ctx.merge_depth += 1
                    self.ctx.s.push()
                    npc = len(self.ctx.pc)
                    self.ctx.s.add(t if isand else z3.Not(t))
                    self.ctx.pc.append(t if isand else z3.Not(t))
                    try:
                        sub = ast.BoolOp(op=e.op, values=rest) if len(rest) > 1 else rest[0]
                        rv = self.eval(sub, fr)
                        rt = self.truth_expr(rv)
                        extra = self.ctx.pc[npc + 1:]
                    finally:
                        del self.ctx.pc[npc:]
                        self.ctx.s.pop()
                        self.ctx.merge_depth -= 1
                    if not extra:
                        return And(t, rt) if isand else Or(t, rt)
                except (MergeFail, PyExc):
                    pass
            if self.ctx.decide(t, 'and' if isand else 'or') != isand:
                return v
        return last

    def ex_UnaryOp(self, e, fr):
        v = self.eval(e.operand, fr)
        if isinstance(e.op, ast.Not):
            return Not(self.truth_expr(v))
        if isinstance(e.op, ast.USub):
            v = self.unwrap(v)
            return -v
        raise Undecided('unary op %s' % type(e.op).__name__)

    def ex_IfExp(self, e, fr):
        c = self.truth_expr(self.eval(e.test, fr))
        if isinstance(c, bool):
            return self.eval(e.body if c else e.orelse, fr)
        if _pure_expr(e.body) and _pure_expr(e.orelse):
            try:
                self.ctx.merge_depth += 1
                try:
                    a = self.eval(e.body, fr)
                    b = self.eval(e.orelse, fr)
                finally:
                    self.ctx.merge_depth -= 1
                v, ok = self._merge_val(c, a, b)
                if ok:
                    return v
            except (MergeFail, PyExc):
                pass
        if self.ctx.decide(c, 'ifexp'):
            return self.eval(e.body, fr)
        return self.eval(e.orelse, fr)

    def ex_BinOp(self, e, fr):
        a = self.eval(e.left, fr)
        b = self.eval(e.right, fr)
        return self.binop(e.op, a, b, fr)

    def binop(self, op, a, b, fr, inplace=False):
        a = self.unwrap(a, 'binop')
        b = self.unwrap(b, 'binop')
        if a is None or b is None:
            self.raise_('TypeError', 'None in arithmetic')
        if hasattr(a, 'binop'):
            r = a.binop(self, op, b, False, inplace)
            if r is not NotImplemented:
                return r
        if hasattr(b, 'binop'):
            r = b.binop(self, op, a, True, inplace)
            if r is not NotImplemented:
                return r
        if isinstance(a, Ref) or isinstance(b, Ref):
            return self.container_binop(op, a, b, inplace)
        if isinstance(a, (str, bytes)) and isinstance(b, (str, bytes)) and isinstance(op, ast.Add):
            return a + b
        if isinstance(a, str) and isinstance(op, ast.Mod):
            return a   # string formatting: value is only logged / used as message
        if isinstance(a, tuple) and isinstance(b, tuple) and isinstance(op, ast.Add):
            return a + b
        if isinstance(op, ast.Mult) and isinstance(a, (str, bytes)) and isinstance(b, int) and not isinstance(b, bool) and not is_sym(b) and b < 4096:
            return a * b
        if isinstance(op, ast.Mult) and isinstance(b, (str, bytes)) and isinstance(a, int) and not isinstance(a, bool) and not is_sym(a) and a < 4096:
            return a * b
        if not (is_num(a) or isinstance(a, (bool, z3.BoolRef))) or not (is_num(b) or isinstance(b, (bool, z3.BoolRef))):
            raise Undecided('binop %s on %r, %r' % (type(op).__name__, a, b))
        if isinstance(a, (bool, z3.BoolRef)):
            a = B2I(a)
        if isinstance(b, (bool, z3.BoolRef)):
            b = B2I(b)
        if isinstance(op, ast.Add):
            return a + b
        if isinstance(op, ast.Sub):
            return a - b
        if isinstance(op, ast.Mult):
            return a * b
        if isinstance(op, ast.Div):
            zc = Eq(b, 0)
            if self.ctx.decide(zc, 'div0') if is_sym(zc) else zc:
                self.raise_('ZeroDivisionError')
            return Div(a, b)
        if isinstance(op, ast.Mod):
            if not is_sym(a) and not is_sym(b):
                return a % b
            if self.ctx.decide(Eq(b, 0), 'mod0'):
                self.raise_('ZeroDivisionError')
            za, zb = to_z3(a), to_z3(b)
            if za.sort() != z3.IntSort() or zb.sort() != z3.IntSort():
                raise Undecided('real modulo')
            if not is_sym(b) and b > 0:
                return za % zb
            raise Undecided('modulo by symbolic divisor')
        if isinstance(op, ast.FloorDiv):
            if not is_sym(a) and not is_sym(b):
                return a // b
            if not is_sym(b) and b > 0 and to_z3(a).sort() == z3.IntSort():
                return to_z3(a) / b
            raise Undecided('floor division')
        if isinstance(op, (ast.BitAnd, ast.BitOr)) and (is_sym(a) != is_sym(b)):
            # bit operation between a constant and a value that is an if-then-else tree over constants (flags merged by if-conversion):
            # applied to the leaves
            sym, con = (a, b) if is_sym(a) else (b, a)
            f = (lambda x: x & con) if isinstance(op, ast.BitAnd) else (lambda x: x | con)

            def leaves(e):
                e = z3.simplify(e) if not z3.is_int_value(e) else e
                if z3.is_int_value(e):
                    return z3.IntVal(f(e.as_long()))
                if z3.is_app_of(e, z3.Z3_OP_ITE):
                    return z3.If(e.arg(0), leaves(e.arg(1)), leaves(e.arg(2)))
                raise Undecided('binop %s on a symbolic integer' % type(op).__name__)
            if isinstance(con, int) and not isinstance(con, bool) and isinstance(sym, z3.ArithRef) and sym.sort() == z3.IntSort():
                return leaves(sym)
        if isinstance(op, ast.BitAnd) and not is_sym(a) and not is_sym(b):
            return a & b
        if isinstance(op, ast.BitOr) and not is_sym(a) and not is_sym(b):
            return a | b
        if isinstance(op, ast.Pow) and not is_sym(a) and not is_sym(b):
            return a ** b
        raise Undecided('binop %s' % type(op).__name__)

    def container_binop(self, op, a, b, inplace):
        ca = self.ctx.cell(a) if isinstance(a, Ref) else None
        cb = self.ctx.cell(b) if isinstance(b, Ref) else None
        if isinstance(ca, GSet) and isinstance(cb, GSet) and isinstance(op, (ast.BitOr, ast.Sub, ast.BitAnd)):
            # generic sets whose keys are concrete constants: exact set algebra with the presence guards
            def conc(c):
                return all(isinstance(k, (str, int, bytes)) and not is_sym(k) for p, k, v in c.entries)
            if not (conc(ca) and conc(cb)):
                raise Undecided('set algebra on generic sets with symbolic elements')
            inb = lambda k: Or(*[p for p, k2, v in cb.entries if k2 == k]) if any(k2 == k for p, k2, v in cb.entries) else False
            ina = lambda k: Or(*[p for p, k2, v in ca.entries if k2 == k]) if any(k2 == k for p, k2, v in ca.entries) else False
            if isinstance(op, ast.Sub):
                ents = [(And(p, Not(inb(k))), k, None) for p, k, v in ca.entries]
            elif isinstance(op, ast.BitAnd):
                ents = [(And(p, inb(k)), k, None) for p, k, v in ca.entries]
            else:
                ents = [(p, k, None) for p, k, v in ca.entries] + [(And(p, Not(ina(k))), k, None) for p, k, v in cb.entries]
            ents = [(p, k, v) for p, k, v in ents if p is not False]
            r = GSet(ents)
            if inplace:
                self.ctx.setcell(a, r)
                return a
            return self.ctx.alloc(r)
        if isinstance(ca, NSet) and isinstance(cb, NSet):
            if isinstance(op, ast.BitOr):
                r = NSet([Or(x, y) for x, y in zip(ca.bits, cb.bits)])
            elif isinstance(op, ast.Sub):
                r = NSet([And(x, Not(y)) for x, y in zip(ca.bits, cb.bits)])
            elif isinstance(op, ast.BitAnd):
                r = NSet([And(x, y) for x, y in zip(ca.bits, cb.bits)])
            else:
                raise Undecided('set op')
            if inplace:
                self.ctx.setcell(a, r)
                return a
            return self.ctx.alloc(r)
        if isinstance(op, ast.BitOr) and not inplace and ((isinstance(ca, NSet) and isinstance(cb, GSet)) or (isinstance(ca, GSet) and isinstance(cb, NSet))):
            ns, gs = (ca, cb) if isinstance(ca, NSet) else (cb, ca)
            if not [1 for e in gs.entries if e[0] is not False]:
                return self.ctx.alloc(NSet(list(ns.bits)))      # union with a set that is empty on every path: a copy (exact)
        if isinstance(ca, PList) and isinstance(cb, PList) and isinstance(op, ast.Add):
            if inplace:
                self.ctx.setcell(a, PList(ca.items + cb.items))
                return a
            return self.ctx.alloc(PList(ca.items + cb.items))
        raise Undecided('binop %s on containers %r %r' % (type(op).__name__, ca, cb))

    def ex_Compare(self, e, fr):
        left = self.eval(e.left, fr)
        res = True
        for op, rt in zip(e.ops, e.comparators):
            right = self.eval(rt, fr)
            r = self.compare(op, left, right)
            res = And(res, r)
            left = right
        return res

    def compare(self, op, a, b):
        if isinstance(op, ast.Is):
            return self.is_(a, b)
        if isinstance(op, ast.IsNot):
            return Not(self.is_(a, b))
        if isinstance(op, ast.Eq):
            return self.equals(a, b)
        if isinstance(op, ast.NotEq):
            return Not(self.equals(a, b))
        if isinstance(op, ast.In):
            return self.contains(b, a)
        if isinstance(op, ast.NotIn):
            return Not(self.contains(b, a))
        a = self.unwrap(a, 'cmp')
        b = self.unwrap(b, 'cmp')
        if a is None or b is None:
            self.raise_('TypeError', 'ordering with None')
        if hasattr(a, 'order'):
            return a.order(self, op, b)
        if isinstance(a, tuple) and isinstance(b, tuple):
            return self.tuple_order(op, a, b)
        if isinstance(a, Opaque) and isinstance(b, Opaque):
            # user values: an uninterpreted order
            if isinstance(op, ast.LtE):
                return opaque_le(a, b)
            if isinstance(op, ast.GtE):
                return opaque_le(b, a)
            if isinstance(op, ast.Lt):
                return Not(opaque_le(b, a))
            return Not(opaque_le(a, b))
        if isinstance(a, (str, bytes)) and isinstance(b, type(a)):
            return {ast.Lt: a < b, ast.LtE: a <= b, ast.Gt: a > b, ast.GtE: a >= b}[type(op)]
        if (isinstance(a, Opaque) and is_num(b)) or (isinstance(b, Opaque) and is_num(a)):
            # a user value compared with a number (an index argument checked against a length): the value is some number we know nothing about
            f = self._opaque_num()
            if isinstance(a, Opaque):
                a = f(to_z3(a.id))
            else:
                b = f(to_z3(b.id))
        if isinstance(a, NodeId) and isinstance(b, NodeId):
            # addresses are ordered as strings: a fixed strict total order on the universe (index order)
            za, zb = a.idx, b.idx
        elif is_num(a) or isinstance(a, (bool, z3.BoolRef)):
            if not (is_num(b) or isinstance(b, (bool, z3.BoolRef))):
                raise Undecided('comparison of %r and %r' % (a, b))
            za = B2I(a) if isinstance(a, (bool, z3.BoolRef)) else a
            zb = B2I(b) if isinstance(b, (bool, z3.BoolRef)) else b
        else:
            raise Undecided('comparison of %r and %r' % (a, b))
        if isinstance(op, ast.Lt):
            return za < zb
        if isinstance(op, ast.LtE):
            return za <= zb
        if isinstance(op, ast.Gt):
            return za > zb
        if isinstance(op, ast.GtE):
            return za >= zb
        raise Undecided('compare op')

    _OPAQUE_NUM = [None]

    def _opaque_num(self):
        if Interp._OPAQUE_NUM[0] is None:
            Interp._OPAQUE_NUM[0] = z3.Function('opaque_as_number', z3.IntSort(), z3.RealSort())
        return Interp._OPAQUE_NUM[0]

    def tuple_order(self, op, a, b):
        """lexicographic comparison of tuples (python semantics)"""
        strict = isinstance(op, (ast.Lt, ast.Gt))
        lt = isinstance(op, (ast.Lt, ast.LtE))
        n = min(len(a), len(b))
        # result when all compared positions are equal
        if len(a) == len(b):
            tail = not strict
        elif lt:
            tail = len(a) < len(b)
        else:
            tail = len(a) > len(b)
        res = tail
        for k in range(n - 1, -1, -1):
            x, y = a[k], b[k]
            less = self.compare(ast.Lt() if lt else ast.Gt(), x, y)
            eq = self.equals(x, y)
            res = Or(less, And(eq, res))
        return res

    def is_(self, a, b):
        if b is None or a is None:
            x = a if b is None else b
            if x is None:
                return True
            if isinstance(x, Opt):
                return x.isnone
            return False
        if isinstance(a, Ref) and isinstance(b, Ref):
            return a.addr == b.addr
        if isinstance(a, bool) or isinstance(b, bool):
            return Eq(a, b)
        raise Undecided('`is` on %r, %r' % (a, b))

    def equals(self, a, b):
        if isinstance(a, Ref) and isinstance(b, Ref):
            if a.addr == b.addr:
                return True
            ca, cb = self.ctx.cell(a), self.ctx.cell(b)
            if isinstance(ca, PList) and isinstance(cb, PList):
                if len(ca.items) != len(cb.items):
                    return False
                return And(*[self.equals(x, y) for x, y in zip(ca.items, cb.items)])
            if isinstance(ca, NSet) and isinstance(cb, NSet):
                return And(*[Iff(x, y) for x, y in zip(ca.bits, cb.bits)])
            if hasattr(ca, 'cell_eq'):
                return ca.cell_eq(self, cb)
            if isinstance(ca, PObj):
                fr_ = Frame(getattr(self, 'cur_mod', None), None, '<eq>')
                found = self.find_method(ca.cls, '__eq__', fr_, soft=True) if fr_.mod is not None else None
                if found is not None:
                    fn, mod, cls = found
                    return self.truth_expr(self.call_funcdef(fn, mod, cls, a, [b], {}, None, '%s.__eq__' % cls))
            if isinstance(ca, PObj) and isinstance(cb, PObj):
                return False      # plain objects without __eq__ compare by identity, and the addresses differ
            raise Undecided('== on containers %r %r' % (ca, cb))
        if isinstance(a, Ref) or isinstance(b, Ref):
            r, o = (a, b) if isinstance(a, Ref) else (b, a)
            c = self.ctx.cell(r)
            if hasattr(c, 'cell_eq'):
                return c.cell_eq(self, o)
            if o is None or isinstance(o, (int, str, bytes, float, tuple, NodeV, NodeId)):
                if isinstance(o, Opt):
                    raise Undecided('== container vs option')
                return False
            raise Undecided('== on %r %r' % (a, b))
        return Eq(a, b)

    def contains(self, cont, x):
        cont = self.unwrap(cont, 'in')
        if isinstance(cont, tuple):
            return Or(*[self.equals(x, y) for y in cont])
        if isinstance(cont, Ref):
            c = self.ctx.cell(cont)
            if isinstance(c, PList):
                return Or(*[self.equals(x, y) for y in c.items])
            if isinstance(c, (PDict, KVDict)) and self._unhashable(x):
                self.raise_('TypeError', 'unhashable type')      # membership test of a list / dict / set in a dict or set hashes the key
            if isinstance(c, PDict):
                if is_sym(x) or isinstance(x, (Opt, NodeV, NodeId, Opaque)):
                    return Or(*[self.equals(x, k) for k in c.items])
                return self.dict_key(x) in c.items
            if isinstance(c, KVDict):
                return Or(*[And(p, self.equals(x, k)) for p, k, v in c.entries])
            if isinstance(c, NSet):
                x = self.unwrap(x, 'in-set')
                if not isinstance(x, NodeV):
                    return False
                return Or(*[And(Eq(x.idx, i), b) for i, b in enumerate(c.bits)])
            if isinstance(c, NMap):
                x = self.unwrap(x, 'in-map')
                if not isinstance(x, NodeV):
                    return False
                return Or(*[And(Eq(x.idx, i), b) for i, b in enumerate(c.pres)])
            if hasattr(c, 'contains'):
                return c.contains(self, x)
        if isinstance(cont, str) and isinstance(x, str):
            return x in cont
        if hasattr(cont, 'contains'):
            return cont.contains(self, x)
        raise Undecided('`in` on %r' % (cont,))

    def _unhashable(self, x):
        if isinstance(x, Ref):
            c = self.ctx.cell(x)
            return isinstance(c, (PList, PDict, KVDict, NSet, NMap, SList))
        return False

    # subscripts -------------------------------------------------------
    def ex_Subscript(self, e, fr):
        obj = self.eval(e.value, fr)
        return self.get_subscript(obj, e.slice, fr)

    def eval_slice(self, sl, fr):
        lo = self.eval(sl.lower, fr) if sl.lower is not None else None
        hi = self.eval(sl.upper, fr) if sl.upper is not None else None
        if sl.step is not None:
            raise Undecided('slice step')
        return self.unwrap(lo, 'slice'), self.unwrap(hi, 'slice')

    def norm_index(self, i, n):
        """python slice bound normalisation: clamp into [0,n]"""
        if not is_sym(i) and not is_sym(n):
            if i < 0:
                i = max(n + i, 0)
            return min(i, n)
        i, n = to_z3(i), to_z3(n)
        return z3.If(i < 0, z3.If(n + i < 0, 0, n + i), z3.If(i > n, n, i))

    def get_subscript(self, obj, sl, fr):
        obj = self.unwrap(obj, 'subscript')
        if obj is None:
            self.raise_('TypeError', 'None is not subscriptable')
        if isinstance(sl, ast.Slice):
            lo, hi = self.eval_slice(sl, fr)
            return self.get_slice(obj, lo, hi)
        idx = self.eval(sl, fr)
        return self.get_item(obj, idx)

    def get_slice(self, obj, lo, hi):
        if isinstance(obj, tuple):
            if (lo is None or not is_sym(lo)) and (hi is None or not is_sym(hi)):
                return obj[lo:hi]
            raise Undecided('symbolic slice of tuple')
        if isinstance(obj, (bytes, str)):
            if (lo is None or not is_sym(lo)) and (hi is None or not is_sym(hi)):
                return obj[lo:hi]
            raise Undecided('symbolic slice of concrete bytes')
        if isinstance(obj, Ref):
            c = self.ctx.cell(obj)
            if isinstance(c, PList):
                if (lo is None or not is_sym(lo)) and (hi is None or not is_sym(hi)):
                    return self.ctx.alloc(PList(c.items[lo:hi]))
                raise Undecided('symbolic slice of concrete-length list')
            if isinstance(c, SList):
                a = self.norm_index(0 if lo is None else lo, c.n)
                b = self.norm_index(c.n if hi is None else hi, c.n)
                b = Max(a, b)
                if is_sym(a):
                    a = z3.simplify(a)
                if is_sym(b):
                    b = z3.simplify(b)
                return self.ctx.alloc(slist_slice(c, a, b))
            if hasattr(c, 'get_slice'):
                return c.get_slice(self, obj, lo, hi)
        if hasattr(obj, 'get_slice'):
            return obj.get_slice(self, lo, hi)
        raise Undecided('slice of %r' % (obj,))

    def get_item(self, obj, idx):
        idx = self.unwrap(idx, 'index') if not isinstance(obj, Ref) or not isinstance(self.ctx.cell(obj), (PDict, KVDict)) else idx
        if isinstance(obj, tuple):
            if is_sym(idx):
                raise Undecided('symbolic index into tuple')
            if not isinstance(idx, int):
                self.raise_('TypeError', 'tuple index')
            if idx >= len(obj) or idx < -len(obj):
                self.raise_('IndexError')
            return obj[idx]
        if isinstance(obj, (bytes, str)) and not is_sym(idx):
            try:
                return obj[idx]
            except IndexError:
                self.raise_('IndexError')
        if isinstance(obj, Ref):
            c = self.ctx.cell(obj)
            if hasattr(c, 'get_item'):
                return c.get_item(self, obj, idx)
            if isinstance(c, PList):
                if is_sym(idx):
                    raise Undecided('symbolic index into concrete-length list')
                if idx >= len(c.items) or idx < -len(c.items):
                    self.raise_('IndexError')
                return c.items[idx]
            if isinstance(c, PDict):
                if isinstance(idx, (NodeV, NodeId, Opaque, Opt)) or is_sym(idx):
                    return self.dict_symbolic_get(obj, c, idx)
                k = self.dict_key(idx)
                if k in c.items:
                    return c.items[k]
                if c.default is not None:
                    v = c.default(self)
                    d = dict(c.items)
                    d[k] = v
                    self.ctx.setcell(obj, PDict(d, c.default))
                    return v
                self.raise_('KeyError', k)
            if isinstance(c, KVDict):
                for p, k, v in c.entries:
                    hit = And(p, self.equals(idx, k))
                    if (self.ctx.decide(hit, 'haskey') if is_sym(hit) else hit):
                        return v
                self.raise_('KeyError', idx)
            if isinstance(c, SList):
                n = c.n
                if not is_sym(idx) and idx < 0:
                    i = n + idx
                    ok = to_z3(i) >= 0 if is_sym(i) else i >= 0
                else:
                    i = idx
                    ok = And(to_z3(i) >= 0, to_z3(i) < to_z3(n)) if (is_sym(i) or is_sym(n)) else (0 <= i < n)
                if not (self.ctx.decide(ok, 'inrange') if is_sym(ok) else ok):
                    self.raise_('IndexError')
                return c.get(i)
            if isinstance(c, NMap):
                if not isinstance(idx, NodeV):
                    self.raise_('KeyError', idx)
                pres = Or(*[And(Eq(idx.idx, i), b) for i, b in enumerate(c.pres)])
                if not (self.ctx.decide(pres, 'haskey') if is_sym(pres) else pres):
                    self.raise_('KeyError', idx)
                return self.nmap_select(c, idx)
            if hasattr(c, 'get_item'):
                return c.get_item(self, obj, idx)
        if hasattr(obj, 'get_item'):
            return obj.get_item(self, idx)
        if isinstance(obj, (bool, int, float)) or (is_sym(obj) and not isinstance(obj, z3.SeqRef)):
            self.raise_('TypeError', 'object is not subscriptable')
        raise Undecided('subscript of %r' % (obj,))

    def nmap_select(self, c, node):
        if not is_sym(node.idx):
            return c.vals[node.idx]
        cands = [(i, v) for i, v in enumerate(c.vals) if c.pres[i] is not False]
        if not cands:
            self.raise_('KeyError')
        r = cands[-1][1]
        for i, v in reversed(cands[:-1]):
            r = ite_val(Eq(node.idx, i), v, r)
        return r

    def dict_symbolic_get(self, obj, c, idx):
        raise Undecided('symbolic key lookup in concrete-key dict')

    def set_subscript(self, obj, sl, v, fr):
        if isinstance(sl, ast.Slice):
            lo, hi = self.eval_slice(sl, fr)
            if isinstance(obj, Ref) and hasattr(self.ctx.cell(obj), 'set_slice'):
                return self.ctx.cell(obj).set_slice(self, obj, lo, hi, v)
            raise Undecided('slice assignment')
        idx = self.eval(sl, fr)
        if isinstance(obj, Ref):
            c = self.ctx.cell(obj)
            if isinstance(c, KVDict):
                ents = [(And(p, Not(self.equals(idx, k))), k, x) for p, k, x in c.entries]
                ents = [e for e in ents if e[0] is not False]
                self.ctx.setcell(obj, type(c)(ents + [(True, idx, v)]))
                return
            if isinstance(c, PDict):
                if hasattr(c, 'set_item'):
                    return c.set_item(self, obj, idx, v)
                d = dict(c.items)
                d[self.dict_key(idx)] = v
                self.ctx.setcell(obj, PDict(d, c.default))
                return
            if isinstance(c, NMap):
                idx = self.unwrap(idx, 'map-key')
                if not isinstance(idx, NodeV):
                    raise Undecided('NMap key %r' % (idx,))
                pres = [Or(p, Eq(idx.idx, i)) for i, p in enumerate(c.pres)]
                vals = [ite_val(Eq(idx.idx, i), v, old) if old is not None else v for i, old in enumerate(c.vals)]
                self.ctx.setcell(obj, NMap(pres, vals))
                return
            if isinstance(c, PList):
                if is_sym(idx):
                    raise Undecided('symbolic list store')
                if idx >= len(c.items) or idx < -len(c.items):
                    self.raise_('IndexError')
                items = list(c.items)
                items[idx] = v
                self.ctx.setcell(obj, PList(items))
                return
            if hasattr(c, 'set_item'):
                return c.set_item(self, obj, idx, v)
        raise Undecided('subscript store on %r' % (obj,))

    def del_subscript(self, obj, sl, fr):
        if isinstance(obj, Ref):
            c = self.ctx.cell(obj)
            if isinstance(sl, ast.Slice):
                lo, hi = self.eval_slice(sl, fr)
                if hasattr(c, 'del_slice'):
                    return c.del_slice(self, obj, lo, hi)
                if isinstance(c, SList) and hi is None:
                    a = self.norm_index(lo, c.n)
                    self.ctx.setcell(obj, slist_slice(c, 0, a))
                    return
                raise Undecided('del slice')
            idx = self.eval(sl, fr)
            if isinstance(c, KVDict):
                pres = Or(*[And(p, self.equals(idx, k)) for p, k, v in c.entries])
                if not (self.ctx.decide(pres, 'haskey') if is_sym(pres) else pres):
                    self.raise_('KeyError')
                self.ctx.setcell(obj, type(c)([(And(p, Not(self.equals(idx, k))), k, x) for p, k, x in c.entries]))
                return
            if isinstance(c, PDict):
                k = self.dict_key(idx)
                if k not in c.items:
                    self.raise_('KeyError', k)
                d = dict(c.items)
                del d[k]
                self.ctx.setcell(obj, PDict(d, c.default))
                return
            if isinstance(c, NMap):
                idx = self.unwrap(idx)
                pres = Or(*[And(Eq(idx.idx, i), b) for i, b in enumerate(c.pres)])
                if not (self.ctx.decide(pres, 'haskey') if is_sym(pres) else pres):
                    self.raise_('KeyError')
                self.ctx.setcell(obj, NMap([And(p, Not(Eq(idx.idx, i))) for i, p in enumerate(c.pres)], c.vals))
                return
            if hasattr(c, 'del_item'):
                return c.del_item(self, obj, idx)
        raise Undecided('del subscript on %r' % (obj,))

    # comprehensions (only over statically bounded iterables) -----------
    def ex_ListComp(self, e, fr):
        return self.ctx.alloc(PList(self._comp(e, fr)))

    def ex_GeneratorExp(self, e, fr):
        return self.ctx.alloc(PList(self._comp(e, fr)))

    def ex_SetComp(self, e, fr):
        return self.make_set(self._comp(e, fr))

    def _comp(self, e, fr):
        if len(e.generators) != 1:
            raise Undecided('nested comprehension')
        g = e.generators[0]
        it = self.eval(g.iter, fr)
        out = []
        sub = Frame(fr.mod, fr.cls, fr.fname, fr)
        for guard, x in self.iter_items(it, e, fr):
            if guard is not True and not self.ctx.decide(guard, 'in-set'):
                continue
            self.assign(g.target, x, sub)
            if all(self.truth(self.eval(c, sub), 'comp-if') for c in g.ifs):
                out.append(self.eval(e.elt, sub))
        return out

    def ex_DictComp(self, e, fr):
        if len(e.generators) != 1:
            raise Undecided('nested comprehension')
        g = e.generators[0]
        it = self.eval(g.iter, fr)
        d = {}
        sub = Frame(fr.mod, fr.cls, fr.fname, fr)
        for guard, x in self.iter_items(it, e, fr):
            if guard is not True and not self.ctx.decide(guard, 'in-set'):
                continue
            self.assign(g.target, x, sub)
            if all(self.truth(self.eval(c, sub), 'comp-if') for c in g.ifs):
                d[self.dict_key(self.eval(e.key, sub))] = self.eval(e.value, sub)
        return self.ctx.alloc(PDict(d))

    def ex_Lambda(self, e, fr):
        fn = ast.FunctionDef(name='<lambda>', args=e.args, body=[ast.Return(value=e.body, lineno=e.lineno)],
                             decorator_list=[], lineno=e.lineno)
        return FuncVal(fn, fr.mod, fr.cls, None, fr)

    def ex_JoinedStr(self, e, fr):
        return '<fstring>'

    # calls --------------------------------------------------------------
    def ex_Call(self, e, fr):
        f = self.eval(e.func, fr)
        args = []
        for a in e.args:
            if isinstance(a, ast.Starred):
                args.extend(self.star_items(self.eval(a.value, fr)))
            else:
                args.append(self.eval(a, fr))
        kwargs = {}
        for k in e.keywords:
            if k.arg is None:
                d = self.eval(k.value, fr)
                c = self.ctx.cell(d) if isinstance(d, Ref) else None
                if not isinstance(c, PDict):
                    raise Undecided('**kwargs of %r' % (d,))
                kwargs.update(c.items)
            else:
                kwargs[k.arg] = self.eval(k.value, fr)
        self.ctx.cur_line = getattr(e, 'lineno', self.ctx.cur_line)
        return self.call(f, args, kwargs, fr, e)

    def call(self, f, args, kwargs, fr, node=None):
        if isinstance(f, Opt):
            f = self.unwrap(f, 'callee')
        if f is None:
            self.raise_('TypeError', 'None is not callable')
        if isinstance(f, BoundMethod):
            return self.call_method(f.recv, f.name, args, kwargs, fr)
        if isinstance(f, FuncVal):
            qual = ('%s.%s' % (f.cls, f.fn.name)) if f.cls else f.fn.name
            if qual in self.registry:
                return self.registry[qual](self, f.selfv, args, kwargs)
            if qual in self.inline or f.closure is not None or f.fn.name == '<lambda>':
                return self.call_funcdef(f.fn, f.mod, f.cls, f.selfv, args, kwargs, f.closure, qual)
            raise Undecided('call to %s without contract (and not declared inline)' % qual)
        if isinstance(f, ExtName):
            h = self.externals.get(f.dotted)
            if h is None:
                from .builtins_ import BUILTINS
                h = BUILTINS.get(f.dotted)
            if h is None:
                raise Undecided('call to external %s has no trusted model' % f.dotted)
            return h(self, args, kwargs)
        if isinstance(f, ExcType):
            fields = {}
            ci = fr.mod.classes.get(f.name)
            if f.name == 'SyncObjExceptionWrongVer' and args:
                fields['ver'] = args[0]
                fields['errorCode'] = 'wrongVer'
            elif f.name == 'SyncObjException' and args:
                fields['errorCode'] = args[0]
            return PyExc(f.name, args, fields)
        if isinstance(f, Callable_):
            h = self.hooks.get('call:' + f.tag.split(':')[0]) or self.hooks.get('callable')
            if h is None:
                raise Undecided('call of opaque callable %s without a model' % f.tag)
            return h(self, f, args, kwargs)
        if isinstance(f, source.ClassInfo):
            qual = f.name + '.__init__'
            if qual in self.registry:
                return self.registry[qual](self, None, args, kwargs)
            h = self.hooks.get('new:' + f.name)
            if h is not None:
                return h(self, args, kwargs)
            raise Undecided('construction of %s without a model' % f.name)
        if hasattr(f, 'call'):
            return f.call(self, args, kwargs)
        raise Undecided('call of %r' % (f,))

    def call_method(self, recv, name, args, kwargs, fr):
        from .builtins_ import call_builtin_method
        if isinstance(recv, Ref):
            c = self.ctx.cell(recv)
            if isinstance(c, PObj):
                pre = '_%s__' % c.cls.lstrip('_')
                if name.startswith(pre):
                    name = '__' + name[len(pre):]
                qual = '%s.%s' % (c.cls, name)
                if qual in self.registry:
                    return self.registry[qual](self, recv, args, kwargs)
                if qual in self.inline:
                    fn, mod, cls = self.find_method(c.cls, name, fr)
                    return self.call_funcdef(fn, mod, cls, recv, args, kwargs, None, '%s.%s' % (cls, name))
                # a helper of the same class that has neither contract nor inline permission (e.g. freshly extracted by a
                # refactoring): its real body is executed in place - sound, it is the code that runs; loops inside still need contracts
                if self.hooks.get('auto_inline', True) and fr is not None and getattr(fr, 'mod', None) is not None:
                    ci_ = fr.mod.classes.get(c.cls)
                    if ci_ is not None and name in ci_.methods and self.depth < 12:
                        self.ctx.notes.append('auto-inlined %s' % qual)
                        return self.call_funcdef(ci_.methods[name], fr.mod, ci_.name, recv, args, kwargs, None, qual)
                # inherited method: look through base classes registered under their own name
                found = self.find_method(c.cls, name, fr, soft=True)
                if found is not None:
                    fn, mod, cls = found
                    q2 = '%s.%s' % (cls, name)
                    if q2 in self.registry:
                        return self.registry[q2](self, recv, args, kwargs)
                    if q2 in self.inline:
                        return self.call_funcdef(fn, mod, cls, recv, args, kwargs, None, q2)
                raise Undecided('call to %s without contract (and not declared inline)' % qual)
        return call_builtin_method(self, recv, name, args, kwargs, fr)

    def _find_property(self, clsname, name, fr):
        mods = []
        if fr is not None and getattr(fr, 'mod', None) is not None:
            mods.append(fr.mod)
        if getattr(self, 'cur_mod', None) is not None:
            mods.append(self.cur_mod)
        mods += [source.load(r) for r in self.hooks.get('modules', [])]
        for mod in mods:
            ci = mod.classes.get(clsname)
            seen = 0
            while ci is not None and seen < 8:
                seen += 1
                if name in ci.methods:
                    fn = ci.methods[name]
                    if any(isinstance(d, ast.Name) and d.id == 'property' for d in fn.decorator_list):
                        return fn, ci.module, ci.name
                    return None
                nxt = None
                for b in ci.bases:
                    for m2 in mods:
                        if b in m2.classes:
                            nxt = m2.classes[b]
                            break
                    if nxt:
                        break
                ci = nxt
        return None

    def find_method(self, clsname, name, fr, soft=False):
        mods = [fr.mod] + [source.load(r) for r in self.hooks.get('modules', [])]
        for mod in mods:
            ci = mod.classes.get(clsname)
            seen = 0
            while ci is not None and seen < 8:
                seen += 1
                if name in ci.methods:
                    return ci.methods[name], ci.module, ci.name
                nxt = None
                for b in ci.bases:
                    for m2 in mods:
                        if b in m2.classes:
                            nxt = m2.classes[b]
                            break
                    if nxt:
                        break
                ci = nxt
        if soft:
            return None
        raise Undecided('method %s.%s not found' % (clsname, name))


CONSTANTS = {'socket.errno.EAGAIN': 11, 'socket.errno.EWOULDBLOCK': 11, 'socket.errno.EINPROGRESS': 115,
             'errno.EAGAIN': 11, 'errno.EWOULDBLOCK': 11, 'socket.SOL_SOCKET': 1, 'socket.SO_ERROR': 4}


class ModVal(object):
    def __init__(self, mod):
        self.mod = mod


class _ValNode(ast.expr):
    """AST leaf carrying an already computed value"""
    _fields = ()

    def __init__(self, v):
        ast.expr.__init__(self)
        self.v = v


def _as_load(t):
    import copy
    t2 = copy.copy(t)
    t2.ctx = ast.Load()
    return t2


def _target_names(t):
    if isinstance(t, ast.Name):
        return [t.id]
    if isinstance(t, (ast.Tuple, ast.List)):
        out = []
        for x in t.elts:
            out.extend(_target_names(x))
        return out
    return []


_PURE_CALLS = {'len', 'min', 'max', 'int', 'float', 'abs', 'isinstance', 'ord', 'bool'}


def _pure_expr(e):
    for n in ast.walk(e):
        if isinstance(n, ast.Call):
            if isinstance(n.func, ast.Name) and n.func.id in _PURE_CALLS:
                continue
            if isinstance(n.func, ast.Attribute) and n.func.attr in ('get', '_isLeader') :
                continue
            return False
        if isinstance(n, (ast.Lambda, ast.ListComp, ast.SetComp, ast.GeneratorExp, ast.DictComp, ast.Yield, ast.Await)):
            return False
    return True


def _simple_block(stmts):
    for s in stmts:
        if isinstance(s, ast.Pass):
            continue
        if isinstance(s, (ast.Assign, ast.AugAssign)):
            if not _pure_expr(s.value):
                return False
            tg = s.targets if isinstance(s, ast.Assign) else [s.target]
            for t in tg:
                if not isinstance(t, (ast.Name, ast.Attribute, ast.Subscript, ast.Tuple)):
                    return False
                if not _pure_expr(t):
                    return False
            continue
        if isinstance(s, ast.If):
            if not _pure_expr(s.test) or not _simple_block(s.body) or not _simple_block(s.orelse):
                return False
            continue
        return False
    return True
