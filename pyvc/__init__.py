"""pyvc: verification-condition generation for a Python subset, on the real source of /repo."""
