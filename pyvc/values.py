"""Symbolic value domain of pyvc.

Scalars are raw z3 expressions (Int / Real / Bool) or concrete Python values
(int, float, bool, str, bytes, None).  Everything mutable lives in the heap of
the path context and is referred to through `Ref`.
Heap cells are treated as immutable snapshots: a mutation replaces the cell.
"""
import z3

_ctr = [0]


def fresh_name(base):
    _ctr[0] += 1
    return '%s!%d' % (base, _ctr[0])


def FreshInt(base='i'):
    return z3.Int(fresh_name(base))


def FreshBool(base='b'):
    return z3.Bool(fresh_name(base))


def FreshReal(base='r'):
    return z3.Real(fresh_name(base))


def is_sym(v):
    return isinstance(v, z3.ExprRef)


def is_symbool(v):
    return isinstance(v, z3.BoolRef)


def is_num(v):
    return (isinstance(v, (int, float)) and not isinstance(v, bool)) or isinstance(v, z3.ArithRef)


def to_z3(v):
    """concrete python scalar or z3 expr -> z3 expr"""
    if isinstance(v, z3.ExprRef):
        return v
    if isinstance(v, bool):
        return z3.BoolVal(v)
    if isinstance(v, int):
        return z3.IntVal(v)
    if isinstance(v, float):
        return z3.RealVal(repr(v))
    raise TypeError('to_z3: %r' % (v,))


def to_real(v):
    v = to_z3(v)
    if v.sort() == z3.IntSort():
        return z3.ToReal(v)
    return v


# ---- logical helpers usable from contract text, on concrete and symbolic values

def _b(v):
    if isinstance(v, z3.BoolRef):
        return v
    if isinstance(v, bool):
        return z3.BoolVal(v)
    raise TypeError('expected bool, got %r' % (v,))


def And(*xs):
    xs = [x for x in _flat(xs)]
    if all(isinstance(x, bool) for x in xs):
        return all(xs)
    ys = []
    for x in xs:
        if x is False:
            return False
        if x is True:
            continue
        ys.append(_b(x))
    if not ys:
        return True
    return z3.And(*ys) if len(ys) > 1 else ys[0]


def Or(*xs):
    xs = [x for x in _flat(xs)]
    if all(isinstance(x, bool) for x in xs):
        return any(xs)
    ys = []
    for x in xs:
        if x is True:
            return True
        if x is False:
            continue
        ys.append(_b(x))
    if not ys:
        return False
    return z3.Or(*ys) if len(ys) > 1 else ys[0]


def Not(x):
    if isinstance(x, bool):
        return not x
    return z3.Not(_b(x))


def Implies(a, b):
    return Or(Not(a), b)


def Iff(a, b):
    if isinstance(a, bool) and isinstance(b, bool):
        return a == b
    return _b(a) == _b(b)


def Ite(c, a, b):
    if isinstance(c, bool):
        return a if c else b
    if a is b:
        return a
    if not is_sym(a) and not is_sym(b) and type(a) == type(b) and a == b:
        return a
    if isinstance(a, (bool, z3.BoolRef)) and isinstance(b, (bool, z3.BoolRef)):
        return z3.If(c, _b(a), _b(b))
    za, zb = to_z3(a), to_z3(b)
    if za.sort() != zb.sort():
        za, zb = to_real(za), to_real(zb)
    return z3.If(c, za, zb)


def _flat(xs):
    for x in xs:
        if isinstance(x, (list, tuple)):
            for y in _flat(x):
                yield y
        else:
            yield x


def Eq(a, b):
    """structural equality of scalars / tuples (no heap objects)"""
    if isinstance(a, tuple) and isinstance(b, tuple):
        if len(a) != len(b):
            return False
        return And(*[Eq(x, y) for x, y in zip(a, b)])
    if isinstance(a, tuple) or isinstance(b, tuple):
        return False
    if a is None or b is None:
        if isinstance(a, Opt):
            return a.isnone
        if isinstance(b, Opt):
            return b.isnone
        return a is None and b is None
    if isinstance(a, Opt) or isinstance(b, Opt):
        if isinstance(a, Opt) and isinstance(b, Opt):
            return Or(And(a.isnone, b.isnone), And(Not(a.isnone), Not(b.isnone), Eq(a.val, b.val)))
        o, x = (a, b) if isinstance(a, Opt) else (b, a)
        return And(Not(o.isnone), Eq(o.val, x))
    if hasattr(a, 'sym_eq'):
        return a.sym_eq(b)
    if hasattr(b, 'sym_eq'):
        return b.sym_eq(a)
    if is_sym(a) or is_sym(b):
        if isinstance(a, (str, bytes)) or isinstance(b, (str, bytes)):
            return False
        za, zb = to_z3(a), to_z3(b)
        if za.sort() != zb.sort():
            if z3.is_bool(za) or z3.is_bool(zb):
                # python: True == 1
                za = z3.If(za, 1, 0) if z3.is_bool(za) else za
                zb = z3.If(zb, 1, 0) if z3.is_bool(zb) else zb
            if za.sort() != zb.sort():
                za, zb = to_real(za), to_real(zb)
        return za == zb
    return a == b


def Div(a, b):
    """python3 true division"""
    if not is_sym(a) and not is_sym(b):
        return a / b
    return to_real(a) / to_real(b)


def Min(a, b):
    if not is_sym(a) and not is_sym(b):
        return min(a, b)
    return Ite(to_z3(a) <= to_z3(b), a, b)


def Max(a, b):
    if not is_sym(a) and not is_sym(b):
        return max(a, b)
    return Ite(to_z3(a) >= to_z3(b), a, b)


def Sum(xs):
    xs = list(xs)
    if not xs:
        return 0
    r = xs[0]
    for x in xs[1:]:
        r = r + x
    return r


def B2I(b):
    if isinstance(b, bool):
        return 1 if b else 0
    return z3.If(b, 1, 0)


class Opt(object):
    """value that may be None: isnone is a z3 Bool"""
    __slots__ = ('isnone', 'val')

    def __init__(self, isnone, val):
        self.isnone = isnone
        self.val = val

    def __repr__(self):
        return 'Opt(%s, %r)' % (self.isnone, self.val)


def mkopt(isnone, val):
    if isnone is True:
        return None
    if isnone is False:
        return val
    return Opt(isnone, val)


class Ref(object):
    __slots__ = ('addr',)

    def __init__(self, addr):
        self.addr = addr

    def __repr__(self):
        return 'Ref(%d)' % self.addr

    def __eq__(self, o):
        return isinstance(o, Ref) and o.addr == self.addr

    def __hash__(self):
        return hash(('Ref', self.addr))


class NodeV(object):
    """a node of the finite universe: idx is an int or a z3 Int in [0, U)"""
    __slots__ = ('idx',)

    def __init__(self, idx):
        self.idx = idx

    def sym_eq(self, o):
        if isinstance(o, NodeV):
            return Eq(self.idx, o.idx)
        return False

    def __repr__(self):
        return 'Node(%s)' % (self.idx,)


NODEID_TRUTHY = None


class NodeId(object):
    """node.id of a universe node (ids are distinct per node)"""
    __slots__ = ('idx',)

    def __init__(self, idx):
        self.idx = idx

    def sym_eq(self, o):
        if isinstance(o, NodeId):
            return Eq(self.idx, o.idx)
        return False

    def truth(self, I):
        # Node ids are arbitrary hashable values (TCPNode: 'host:port', custom nodes: anything, including 0 or ''): truthiness is not known
        import z3 as _z3
        global NODEID_TRUTHY
        if NODEID_TRUTHY is None:
            NODEID_TRUTHY = _z3.Function('nodeid_truthy', _z3.IntSort(), _z3.BoolSort())
        from .values import to_z3 as _to
        return NODEID_TRUTHY(_to(self.idx))

    def __repr__(self):
        return 'NodeId(%s)' % (self.idx,)


class Callable_(object):
    """opaque callable (user callback, replicated method, ...)"""
    __slots__ = ('tag', 'payload')

    def __init__(self, tag, payload=None):
        self.tag = tag
        self.payload = payload

    def sym_eq(self, o):
        return isinstance(o, Callable_) and o.tag == self.tag

    def __repr__(self):
        return 'Callable(%s)' % (self.tag,)


class Opaque(object):
    """opaque immutable value identified by a z3 Int (commands, pickled data, user values)"""
    __slots__ = ('kind', 'id')

    def __init__(self, kind, id):
        self.kind = kind
        self.id = id

    def sym_eq(self, o):
        if isinstance(o, Opaque) and o.kind == self.kind:
            return Eq(self.id, o.id)
        return False

    def __repr__(self):
        return 'Opaque(%s,%s)' % (self.kind, self.id)


# ------------------------------------------------------------------ heap cells

class PObj(object):
    """generic object with named fields"""

    def __init__(self, cls, fields=None):
        self.cls = cls
        self.fields = dict(fields or {})

    def with_field(self, k, v):
        o = PObj(self.cls, self.fields)
        o.fields[k] = v
        return o


class PList(object):
    """list of concrete length"""

    def __init__(self, items=()):
        self.items = list(items)


class PDict(object):
    """dict with concrete keys"""

    def __init__(self, items=None, default=None):
        self.items = dict(items or {})
        self.default = default   # for defaultdict(list) etc: a callable name


class NSet(object):
    """set of universe nodes: bits[i] is a Bool (concrete or z3)"""

    def __init__(self, bits):
        self.bits = list(bits)


class NMap(object):
    """dict keyed by universe nodes"""

    def __init__(self, pres, vals):
        self.pres = list(pres)
        self.vals = list(vals)


class SList(object):
    """list of symbolic length.  `n` is the length (int or z3 Int); `get(i)` maps a z3/py
    int index in [0,n) to the element value (usually a tuple of scalars)."""

    def __init__(self, n, get, width=None):
        self.n = n
        self.get = get
        self.width = width     # tuple arity of elements if known


def slist_fresh(base, width, kinds=None):
    """fresh symbolic list whose elements are tuples of `width` Ints (kinds may give
    per-column constructor: callable(z3expr)->value)"""
    n = FreshInt(base + '_len')
    fs = [z3.Function(fresh_name(base + '_c%d' % k), z3.IntSort(), z3.IntSort()) for k in range(width)]
    kinds = kinds or [None] * width

    def get(i, fs=fs, kinds=kinds):
        i = to_z3(i)
        return tuple((kinds[k](fs[k](i)) if kinds[k] else fs[k](i)) for k in range(len(fs)))
    return SList(n, get, width), n


def slist_slice(sl, a, b):
    """sl[a:b] with 0 <= a, b already normalised and clamped: a<=b<=n"""
    def get(i, sl=sl, a=a):
        return sl.get(i + a)
    return SList(b - a, get, sl.width)


def slist_append(sl, v):
    n = sl.n

    def get(i, sl=sl, n=n, v=v):
        base = sl.get(i)
        if isinstance(v, tuple) and isinstance(base, tuple) and len(v) == len(base):
            return tuple(_ite_val(Eq(i, n), x, y) for x, y in zip(v, base))
        return _ite_val(Eq(i, n), v, base)
    return SList(n + 1, get, sl.width)


def _ite_val(c, a, b):
    if isinstance(c, bool):
        return a if c else b
    if hasattr(a, 'ite_with'):
        return a.ite_with(c, b)
    if isinstance(a, Opaque) and isinstance(b, Opaque) and a.kind == b.kind:
        return Opaque(a.kind, Ite(c, a.id, b.id))
    if isinstance(a, NodeV) and isinstance(b, NodeV):
        return NodeV(Ite(c, a.idx, b.idx))
    if isinstance(a, NodeId) and isinstance(b, NodeId):
        return NodeId(Ite(c, a.idx, b.idx))
    if isinstance(a, tuple) and isinstance(b, tuple) and len(a) == len(b):
        return tuple(_ite_val(c, x, y) for x, y in zip(a, b))
    if (a is None or isinstance(a, Opt)) or (b is None or isinstance(b, Opt)):
        an = True if a is None else (a.isnone if isinstance(a, Opt) else False)
        bn = True if b is None else (b.isnone if isinstance(b, Opt) else False)
        av = None if a is None else (a.val if isinstance(a, Opt) else a)
        bv = None if b is None else (b.val if isinstance(b, Opt) else b)
        if av is None:
            v = bv
        elif bv is None:
            v = av
        else:
            v = _ite_val(c, av, bv)
        return mkopt(z3.simplify(Ite(c, _bz(an), _bz(bn))) if True else None, v)
    return Ite(c, a, b)


def _bz(x):
    return z3.BoolVal(x) if isinstance(x, bool) else x


def ite_val(c, a, b):
    if a is b:
        return a
    return _ite_val(c, a, b)


class BImg(object):
    """byte image (mmap / file): arr is a z3 Array Int->Int, size an Int"""

    def __init__(self, arr, size):
        self.arr = arr
        self.size = size


def as_slist(cell):
    """view a concrete-length list cell as an SList"""
    if isinstance(cell, SList):
        return cell
    if isinstance(cell, PList):
        items = list(cell.items)

        def get(i, items=items):
            if not is_sym(i):
                return items[i]
            if not items:
                raise IndexError('element of empty list')
            r = items[-1]
            for k in range(len(items) - 2, -1, -1):
                r = _ite_val(Eq(i, k), items[k], r)
            return r
        return SList(len(items), get, None)
    raise TypeError('as_slist(%r)' % (cell,))


class KVDict(object):
    """dict with possibly symbolic keys: ordered list of (present, key, value); keys pairwise distinct
    among present entries (maintained by set_item)"""

    def __init__(self, entries=()):
        self.entries = list(entries)


class GSet(KVDict):
    """generic set: KVDict whose values are ignored"""


class GuardedSeq(object):
    """sequence whose elements are present under guards (values()/items() of a node-keyed map, popped subscriber lists)"""

    def __init__(self, items):
        self.items = list(items)

    def iter_items(self, I):
        return [(g, x) for g, x in self.items if g is not False]


OPAQUE_LE = None


def opaque_le(a, b):
    """uninterpreted total preorder on opaque values (user values that are comparable, e.g. priority queue items)"""
    import z3 as _z3
    global OPAQUE_LE
    if OPAQUE_LE is None:
        OPAQUE_LE = _z3.Function('opaque_le', _z3.IntSort(), _z3.IntSort(), _z3.BoolSort())
    return OPAQUE_LE(to_z3(a.id), to_z3(b.id))
