"""Models of Python builtins and builtin container methods (T-BUILTIN)."""
import ast
import z3
from .values import *   # noqa
from .ctx import Undecided
from . import source


def _len(I, args, kw):
    (v,) = args
    v = I.unwrap(v, 'len')
    if v is None:
        I.raise_('TypeError', 'len(None)')
    if isinstance(v, (tuple, bytes, str)):
        return len(v)
    if isinstance(v, Ref):
        c = I.ctx.cell(v)
        if isinstance(c, PList):
            return len(c.items)
        if isinstance(c, KVDict):
            return Sum([B2I(p) for p, k, v in c.entries])
        if isinstance(c, PDict):
            return len(c.items)
        if isinstance(c, SList):
            return c.n
        if isinstance(c, NSet):
            return Sum([B2I(b) for b in c.bits])
        if isinstance(c, NMap):
            return Sum([B2I(b) for b in c.pres])
        if isinstance(c, PObj):
            return I.call_method(v, '__len__', [], {}, _fr(I))
        if hasattr(c, 'length'):
            return c.length(I)
    if hasattr(v, 'length'):
        return v.length(I)
    raise Undecided('len of %r' % (v,))


def _fr(I):
    from .interp import Frame
    return Frame(getattr(I, 'cur_mod', None), None, '<builtin>')


def _min(I, args, kw):
    if len(args) == 1:
        args = I.star_items(args[0])
    r = I.unwrap(args[0])
    for x in args[1:]:
        r = Min(r, I.unwrap(x))
    return r


def _max(I, args, kw):
    if len(args) == 1:
        args = I.star_items(args[0])
    r = I.unwrap(args[0])
    for x in args[1:]:
        r = Max(r, I.unwrap(x))
    return r


def _int(I, args, kw):
    if not args:
        return 0
    (v,) = args
    v = I.unwrap(v)
    if isinstance(v, (int, float)):
        return int(v)
    if isinstance(v, z3.ArithRef):
        if v.sort() == z3.IntSort():
            return v
        # truncation toward zero
        return z3.If(v >= 0, z3.ToInt(v), -z3.ToInt(-v))
    if isinstance(v, (bool, z3.BoolRef)):
        return B2I(v)
    if isinstance(v, str):
        try:
            return int(v)
        except ValueError:
            I.raise_('ValueError')
    raise Undecided('int(%r)' % (v,))


def _float(I, args, kw):
    (v,) = args
    v = I.unwrap(v)
    if isinstance(v, (int, float)):
        return float(v)
    if isinstance(v, z3.ArithRef):
        return to_real(v)
    raise Undecided('float(%r)' % (v,))


def _abs(I, args, kw):
    (v,) = args
    if is_sym(v):
        return z3.If(v >= 0, v, -v)
    return abs(v)


def _bool(I, args, kw):
    return I.truth_expr(args[0])


def _str(I, args, kw):
    (v,) = args
    if isinstance(v, (int, str)) and not is_sym(v):
        return str(v)
    if hasattr(v, 'to_str'):
        return v.to_str(I)
    return StrOf(v)


class StrOf(object):
    """str(x) of a symbolic x: opaque, injective in x"""

    def __init__(self, v):
        self.v = v

    def sym_eq(self, o):
        if isinstance(o, StrOf):
            return Eq(self.v, o.v)
        return False

    def binop(self, I, op, other, swapped, inplace):
        if isinstance(op, ast.Add):
            return StrCat((other, self) if swapped else (self, other))
        return NotImplemented


class StrCat(object):
    def __init__(self, parts):
        self.parts = tuple(parts)

    def sym_eq(self, o):
        if isinstance(o, StrCat) and len(o.parts) == len(self.parts):
            return And(*[Eq(a, b) for a, b in zip(self.parts, o.parts)])
        return False

    def binop(self, I, op, other, swapped, inplace):
        if isinstance(op, ast.Add):
            return StrCat(((other,) + self.parts) if swapped else (self.parts + (other,)))
        return NotImplemented


def kind_of(I, v):
    """coarse runtime type of a value: a set of python type names it may be instance of"""
    if v is None:
        return {'NoneType'}
    if isinstance(v, bool) or isinstance(v, z3.BoolRef):
        return {'bool', 'int'}
    if isinstance(v, int) or (isinstance(v, z3.ArithRef) and v.sort() == z3.IntSort()):
        return {'int'}
    if isinstance(v, float) or isinstance(v, z3.ArithRef):
        return {'float'}
    if isinstance(v, str) or isinstance(v, (StrOf, StrCat)):
        return {'str'}
    if isinstance(v, bytes):
        return {'bytes'}
    if isinstance(v, tuple):
        return {'tuple'}
    if isinstance(v, NodeV):
        return {'Node', 'TCPNode'}
    if isinstance(v, NodeId):
        return {'str'}
    if isinstance(v, Callable_):
        return {'function'}
    if isinstance(v, Ref):
        c = I.ctx.cell(v)
        if isinstance(c, (PList, SList)):
            return {'list'}
        if isinstance(c, PDict):
            return {'dict'}
        if isinstance(c, (NSet,)):
            return {'set'}
        if isinstance(c, NMap):
            return {'dict'}
        if isinstance(c, PObj):
            out = {c.cls}
            out |= set(I.hooks.get('bases', {}).get(c.cls, ()))
            return out
        if hasattr(c, 'kinds'):
            return set(c.kinds)
    if hasattr(v, 'kinds'):
        return set(v.kinds)
    raise Undecided('type of %r' % (v,))


def _isinstance(I, args, kw):
    v, t = args
    if isinstance(v, Opt):
        v = I.unwrap(v, 'isinstance')
    ts = t if isinstance(t, tuple) else (t,)
    names = set()
    for x in ts:
        if isinstance(x, source.ClassInfo):
            names.add(x.name)
        elif hasattr(x, 'dotted'):
            names.add(x.dotted.split('.')[-1])
        elif hasattr(x, 'name'):
            names.add(x.name)
        else:
            raise Undecided('isinstance against %r' % (x,))
    return bool(kind_of(I, v) & names)


def _callable(I, args, kw):
    v = args[0]
    from .interp import FuncVal, BoundMethod
    return isinstance(v, (Callable_, FuncVal, BoundMethod))


def _ord(I, args, kw):
    (v,) = args
    if isinstance(v, (bytes, str)):
        if len(v) != 1:
            I.raise_('TypeError', 'ord() expected a character')
        return ord(v)
    if hasattr(v, 'ord'):
        return v.ord(I)
    raise Undecided('ord(%r)' % (v,))


def _range(I, args, kw):
    args = [I.unwrap(a) for a in args]
    if all(not is_sym(a) for a in args):
        return range(*args)
    if len(args) == 1:
        lo, hi, st = 0, args[0], 1
    elif len(args) == 2:
        lo, hi, st = args[0], args[1], 1
    else:
        lo, hi, st = args
    return SymRange(lo, hi, st)


class SymRange(object):
    def __init__(self, lo, hi, st):
        self.lo, self.hi, self.st = lo, hi, st


def _list(I, args, kw):
    if not args:
        return I.ctx.alloc(PList([]))
    (v,) = args
    if isinstance(v, Ref):
        c = I.ctx.cell(v)
        if isinstance(c, SList):
            return I.ctx.alloc(SList(c.n, c.get, c.width))
        if isinstance(c, PDict) and hasattr(c, 'keys_list'):
            return c.keys_list(I)
    return I.ctx.alloc(PList([x for g, x in _concrete_items(I, v)]))


def _concrete_items(I, v):
    from .interp import Frame
    items = I.iter_items(v, ast.Pass(lineno=0), Frame(None, None, '<builtin>'))
    out = []
    for g, x in items:
        if g is not True:
            if not I.ctx.decide(g, 'in-set'):
                continue
        out.append((True, x))
    return out


def _tuple(I, args, kw):
    if not args:
        return ()
    return tuple(x for g, x in _concrete_items(I, args[0]))


def _dict(I, args, kw):
    if not args:
        return I.ctx.alloc(PDict(dict(kw)))
    (v,) = args
    d = {}
    for g, x in _concrete_items(I, v):
        k, val = I.unpack(x, 2)
        d[I.dict_key(k)] = val
    return I.ctx.alloc(PDict(d))


def _set(I, args, kw):
    U = I.ctx.universe
    if not args:
        return I.ctx.alloc(GSet([]))
    (v,) = args
    if isinstance(v, Ref) and isinstance(I.ctx.cell(v), NSet):
        return I.ctx.alloc(NSet(I.ctx.cell(v).bits))
    return I.make_set([x for g, x in _concrete_items(I, v)])


def _sorted(I, args, kw):
    (v,) = args
    items = [x for g, x in _concrete_items(I, v)]
    if items and all(is_num(x) for x in items) and any(is_sym(x) for x in items):
        # symbolic numbers: accepted only when the given order is provably ascending
        for a, b in zip(items, items[1:]):
            if I.ctx.feasible(to_z3(a) > to_z3(b)):
                raise Undecided('sorted() of symbolic numbers whose order is not determined')
        return I.ctx.alloc(PList(items))
    if all(isinstance(x, (int, str)) and not is_sym(x) for x in items):
        return I.ctx.alloc(PList(sorted(items)))
    if all(isinstance(x, NodeV) and not is_sym(x.idx) for x in items):
        return I.ctx.alloc(PList(sorted(items, key=lambda n: n.idx)))
    raise Undecided('sorted() of symbolic items')


def _reversed(I, args, kw):
    (v,) = args
    if isinstance(v, Ref):
        c = I.ctx.cell(v)
        if isinstance(c, SList):
            n = c.n
            return I.ctx.alloc(SList(n, (lambda i, c=c, n=n: c.get(n - 1 - i)), c.width))
        if isinstance(c, PList):
            return I.ctx.alloc(PList(list(reversed(c.items))))
    if isinstance(v, tuple):
        return tuple(reversed(v))
    raise Undecided('reversed(%r)' % (v,))


def _enumerate(I, args, kw):
    (v,) = args
    if isinstance(v, Ref):
        c = I.ctx.cell(v)
        if isinstance(c, SList):
            return I.ctx.alloc(SList(c.n, (lambda i, c=c: (i, c.get(i))), 2))
        if isinstance(c, PList):
            return I.ctx.alloc(PList([(i, x) for i, x in enumerate(c.items)]))
    if isinstance(v, tuple):
        return tuple((i, x) for i, x in enumerate(v))
    raise Undecided('enumerate(%r)' % (v,))


def _id(I, args, kw):
    (v,) = args
    if isinstance(v, Ref):
        return ('id', v.addr)
    raise Undecided('id(%r)' % (v,))


def _getattr(I, args, kw):
    obj, name = args[0], args[1]
    if not isinstance(name, str):
        raise Undecided('getattr with symbolic name')
    try:
        if isinstance(obj, Ref) and isinstance(I.ctx.cell(obj), PObj):
            c = I.ctx.cell(obj)
            if name in c.fields:
                return c.fields[name]
            if len(args) > 2:
                return args[2]
            I.raise_('AttributeError', name)
        return I.get_attr(obj, name)
    except Undecided:
        if len(args) > 2:
            return args[2]
        raise


def _hasattr(I, args, kw):
    obj, name = args
    if isinstance(obj, Ref) and isinstance(I.ctx.cell(obj), PObj):
        return name in I.ctx.cell(obj).fields
    raise Undecided('hasattr')


def _bytes(I, args, kw):
    if not args:
        return b''
    raise Undecided('bytes(x)')


def _any(I, args, kw):
    return Or(*[I.truth_expr(x) for g, x in _concrete_items(I, args[0])])


def _all(I, args, kw):
    return And(*[I.truth_expr(x) for g, x in _concrete_items(I, args[0])])


def _sum(I, args, kw):
    r = args[1] if len(args) > 1 else 0
    for g, x in _concrete_items(I, args[0]):
        r = r + (B2I(x) if isinstance(x, (bool, z3.BoolRef)) else x)
    return r


def _zip(I, args, kw):
    cols = [[x for g, x in _concrete_items(I, a)] for a in args]
    return I.ctx.alloc(PList([tuple(t) for t in zip(*cols)]))


BUILTINS = {
    'any': _any, 'all': _all, 'sum': _sum, 'zip': _zip,
    'len': _len, 'min': _min, 'max': _max, 'int': _int, 'float': _float, 'abs': _abs, 'bool': _bool, 'str': _str,
    'isinstance': _isinstance, 'callable': _callable, 'ord': _ord, 'range': _range, 'xrange': _range,
    'list': _list, 'tuple': _tuple, 'dict': _dict, 'set': _set, 'sorted': _sorted, 'reversed': _reversed,
    'enumerate': _enumerate, 'id': _id, 'getattr': _getattr, 'hasattr': _hasattr, 'bytes': _bytes,
}


# --------------------------------------------------------------------------- container methods

class SuperProxy(object):
    """super(Cls, self): method lookup starts at the bases of Cls (classes found in the current module and the hook 'modules')"""

    def __init__(self, cls, selfref, mods):
        self.cls, self.selfref, self.mods = cls, selfref, mods

    def call_method(self, I, name, args, kw):
        ci = None
        for m in self.mods:
            if self.cls in m.classes:
                ci = m.classes[self.cls]
        if ci is None:
            raise Undecided('super(): class %s not found' % self.cls)
        for b in ci.bases:
            for m in self.mods:
                cb = m.classes.get(b)
                seen = 0
                while cb is not None and seen < 8:
                    seen += 1
                    if name in cb.methods:
                        return I.call_funcdef(cb.methods[name], cb.module, cb.name, self.selfref, list(args), dict(kw), None, '%s.%s' % (cb.name, name))
                    nb = None
                    for b2 in cb.bases:
                        for m2 in self.mods:
                            if b2 in m2.classes:
                                nb = m2.classes[b2]
                    cb = nb
        if name == '__init__':
            return None      # object.__init__
        raise Undecided('super().%s not found' % name)


def _super(I, args, kw):
    from . import source as _source
    mods = []
    if getattr(I, 'cur_mod', None) is not None:
        mods.append(I.cur_mod)
    mods += [_source.load(r) for r in I.hooks.get('modules', [])]
    if len(args) == 2 and isinstance(args[0], _source.ClassInfo):
        if args[0].module not in mods:
            mods.append(args[0].module)
        return SuperProxy(args[0].name, args[1], mods)
    raise Undecided('super%r' % (tuple(args),))


BUILTINS['super'] = _super


def call_builtin_method(I, recv, name, args, kwargs, fr):
    recv = I.unwrap(recv, 'method ' + name)
    if recv is None:
        I.raise_('AttributeError', name)
    if isinstance(recv, Ref):
        c = I.ctx.cell(recv)
        if hasattr(c, 'call_method'):
            r = c.call_method(I, recv, name, args, kwargs)
            if r is not NotImplemented:
                return r
        if isinstance(c, KVDict):
            return _kvdict_method(I, recv, c, name, args, kwargs)
        if isinstance(c, PList):
            return _plist_method(I, recv, c, name, args, kwargs)
        if isinstance(c, PDict):
            return _pdict_method(I, recv, c, name, args, kwargs)
        if isinstance(c, NSet):
            return _nset_method(I, recv, c, name, args, kwargs)
        if isinstance(c, NMap):
            return _nmap_method(I, recv, c, name, args, kwargs)
        if isinstance(c, SList):
            return _slist_method(I, recv, c, name, args, kwargs)
    if hasattr(recv, 'call_method'):
        r = recv.call_method(I, name, args, kwargs)
        if r is not NotImplemented:
            return r
    if isinstance(recv, NodeV) and name == '_destroy':
        return None
    if isinstance(recv, (str, bytes)):
        if name == 'join' and recv in ('', b'') and len(args) == 1:
            a0 = args[0]
            c0 = I.ctx.cell(a0) if isinstance(a0, Ref) else a0
            if hasattr(c0, 'joined'):
                return c0.joined(I)
            if isinstance(c0, PList) and all(hasattr(x, 'join_part') for x in c0.items) and c0.items:
                return c0.items[0].join_parts(I, c0.items)
            if isinstance(c0, PList) and all(isinstance(x, type(recv)) for x in c0.items):
                return recv.join(c0.items)
        if name == 'join' and len(args) == 1:
            a0 = args[0]
            c0 = I.ctx.cell(a0) if isinstance(a0, Ref) else a0
            if isinstance(c0, PList) and all(type(x) is type(recv) for x in c0.items):
                return recv.join(c0.items)       # concrete separator, concrete parts
        if name == 'encode' and isinstance(recv, str):
            return recv.encode(*args)
        if name == 'upper':
            return recv.upper()
        if name == 'rsplit' or name == 'split':
            return I.ctx.alloc(PList(getattr(recv, name)(*args)))
    raise Undecided('method %s on %r' % (name, recv))


def _plist_method(I, ref, c, name, args, kw):
    if name == 'append':
        I.ctx.setcell(ref, PList(c.items + [args[0]]))
        return None
    if name == 'extend':
        I.ctx.setcell(ref, PList(c.items + [x for g, x in _concrete_items(I, args[0])]))
        return None
    if name == 'pop':
        if not c.items:
            I.raise_('IndexError', 'pop from empty list')
        i = args[0] if args else -1
        if is_sym(i):
            raise Undecided('list.pop(symbolic)')
        items = list(c.items)
        try:
            v = items.pop(i)
        except IndexError:
            I.raise_('IndexError')
        I.ctx.setcell(ref, PList(items))
        return v
    if name == 'index':
        for i, x in enumerate(c.items):
            e = I.equals(x, args[0])
            if (I.ctx.decide(e, 'index') if is_sym(e) else e):
                return i
        I.raise_('ValueError')
    if name == 'remove':
        for i, x in enumerate(c.items):
            e = I.equals(x, args[0])
            if (I.ctx.decide(e, 'remove') if is_sym(e) else e):
                I.ctx.setcell(ref, PList(c.items[:i] + c.items[i + 1:]))
                return None
        I.raise_('ValueError')
    if name == 'copy':
        return I.ctx.alloc(PList(c.items))
    if name == 'popleft':
        if not c.items:
            I.raise_('IndexError', 'pop from an empty deque')
        I.ctx.setcell(ref, PList(c.items[1:]))
        return c.items[0]
    if name == 'insert' and not is_sym(args[0]):
        items = list(c.items)
        items.insert(args[0], args[1])
        I.ctx.setcell(ref, PList(items))
        return None
    raise Undecided('list.%s' % name)


def _pdict_method(I, ref, c, name, args, kw):
    if name == 'get':
        k = args[0]
        d = args[1] if len(args) > 1 else None
        kk = I.dict_key(k)
        return c.items.get(kk, d)
    if name == 'pop':
        k = args[0]
        kk = I.dict_key(k)
        if kk in c.items:
            items = dict(c.items)
            v = items.pop(kk)
            I.ctx.setcell(ref, PDict(items, c.default))
            return v
        if len(args) > 1:
            return args[1]
        I.raise_('KeyError', kk)
    if name == 'setdefault':
        kk = I.dict_key(args[0])
        if kk in c.items:
            return c.items[kk]
        items = dict(c.items)
        items[kk] = args[1] if len(args) > 1 else None
        I.ctx.setcell(ref, PDict(items, c.default))
        return items[kk]
    if name == 'update':
        o = I.ctx.cell(args[0]) if args and isinstance(args[0], Ref) else None
        items = dict(c.items)
        if isinstance(o, PDict):
            items.update(o.items)
        elif args and hasattr(args[0], 'kw_items'):
            items.update(args[0].kw_items(I))
        elif args:
            raise Undecided('dict.update(%r)' % (args[0],))
        items.update(kw)
        I.ctx.setcell(ref, PDict(items, c.default))
        return None
    if name == 'clear':
        I.ctx.setcell(ref, PDict({}, c.default))
        return None
    if name in ('items', 'iteritems'):
        return I.ctx.alloc(PList([(k, v) for k, v in c.items.items()]))
    if name == 'keys':
        return I.ctx.alloc(PList(list(c.items.keys())))
    if name == 'values':
        return I.ctx.alloc(PList(list(c.items.values())))
    if name == 'copy':
        return I.ctx.alloc(PDict(c.items, c.default))
    raise Undecided('dict.%s' % name)


def _node(I, v, what):
    v = I.unwrap(v, what)
    if not isinstance(v, NodeV):
        raise Undecided('%s: expected a node, got %r' % (what, v))
    return v


def _nset_method(I, ref, c, name, args, kw):
    if name == 'add':
        n = _node(I, args[0], 'set.add')
        I.ctx.setcell(ref, NSet([Or(b, Eq(n.idx, i)) for i, b in enumerate(c.bits)]))
        return None
    if name == 'discard':
        n = I.unwrap(args[0], 'set.discard')
        if not isinstance(n, NodeV):
            return None
        I.ctx.setcell(ref, NSet([And(b, Not(Eq(n.idx, i))) for i, b in enumerate(c.bits)]))
        return None
    if name == 'remove':
        n = _node(I, args[0], 'set.remove')
        pres = Or(*[And(Eq(n.idx, i), b) for i, b in enumerate(c.bits)])
        if not (I.ctx.decide(pres, 'member') if is_sym(pres) else pres):
            I.raise_('KeyError')
        I.ctx.setcell(ref, NSet([And(b, Not(Eq(n.idx, i))) for i, b in enumerate(c.bits)]))
        return None
    if name == 'copy':
        return I.ctx.alloc(NSet(c.bits))
    if name == 'intersection':
        o = I.ctx.cell(args[0])
        return I.ctx.alloc(NSet([And(x, y) for x, y in zip(c.bits, o.bits)]))
    if name == 'clear':
        I.ctx.setcell(ref, NSet([False] * len(c.bits)))
        return None
    raise Undecided('set.%s' % name)


def _nmap_method(I, ref, c, name, args, kw):
    if name == 'pop':
        n = I.unwrap(args[0], 'map.pop')
        if not isinstance(n, NodeV):
            if len(args) > 1:
                return args[1]
            I.raise_('KeyError')
        pres = Or(*[And(Eq(n.idx, i), b) for i, b in enumerate(c.pres)])
        if len(args) > 1:
            # value is not used by any caller in the verified code when a default is given
            I.ctx.setcell(ref, NMap([And(p, Not(Eq(n.idx, i))) for i, p in enumerate(c.pres)], c.vals))
            return PoppedValue()
        if not (I.ctx.decide(pres, 'haskey') if is_sym(pres) else pres):
            I.raise_('KeyError')
        v = I.nmap_select(c, n)
        I.ctx.setcell(ref, NMap([And(p, Not(Eq(n.idx, i))) for i, p in enumerate(c.pres)], c.vals))
        return v
    if name == 'clear':
        I.ctx.setcell(ref, NMap([False] * len(c.pres), c.vals))
        return None
    if name == 'setdefault':
        n = _node(I, args[0], 'map.setdefault')
        d = args[1] if len(args) > 1 else None
        hit = [Eq(n.idx, i) for i in range(len(c.pres))]
        vals = [ite_val(And(h, Not(p)), d, v) if v is not None else d for h, p, v in zip(hit, c.pres, c.vals)]
        I.ctx.setcell(ref, NMap([Or(p, h) for p, h in zip(c.pres, hit)], vals))
        return I.nmap_select(I.ctx.cell(ref), n)
    if name == 'get':
        n = I.unwrap(args[0], 'map.get')
        d = args[1] if len(args) > 1 else None
        if not isinstance(n, NodeV):
            return d
        pres = Or(*[And(Eq(n.idx, i), b) for i, b in enumerate(c.pres)])
        if (I.ctx.decide(pres, 'haskey') if is_sym(pres) else pres):
            return I.nmap_select(c, n)
        return d
    if name == 'values':
        return I.ctx.alloc(GuardedSeq([(p, c.vals[i]) for i, p in enumerate(c.pres) if p is not False]))
    if name == 'keys':
        return I.ctx.alloc(GuardedSeq([(p, NodeV(i)) for i, p in enumerate(c.pres) if p is not False]))
    if name in ('items', 'iteritems'):
        out = []
        for i, p in enumerate(c.pres):
            if p is False:
                continue
            if p is True or I.ctx.decide(p, 'haskey'):
                out.append((NodeV(i), c.vals[i]))
        return I.ctx.alloc(PList(out))
    raise Undecided('nodemap.%s' % name)


class PoppedValue(object):
    """result of dict.pop(k, default) whose value no verified caller reads"""


def _slist_method(I, ref, c, name, args, kw):
    if name == 'append':
        I.ctx.setcell(ref, slist_append(c, args[0]))
        return None
    raise Undecided('symbolic list .%s' % name)


def _gset_method(I, ref, c, name, args, kw):
    x = args[0] if args else None
    if name == 'add':
        ents = [(And(p, Not(I.equals(x, k))), k, v) for p, k, v in c.entries]
        I.ctx.setcell(ref, GSet([e for e in ents if e[0] is not False] + [(True, x, True)]))
        return None
    if name in ('discard', 'remove'):
        pres = Or(*[And(p, I.equals(x, k)) for p, k, v in c.entries])
        if name == 'remove' and not (I.ctx.decide(pres, 'member') if is_sym(pres) else pres):
            I.raise_('KeyError')
        ents = [(And(p, Not(I.equals(x, k))), k, v) for p, k, v in c.entries]
        I.ctx.setcell(ref, GSet([e for e in ents if e[0] is not False]))
        return None
    if name == 'copy':
        return I.ctx.alloc(GSet(c.entries))
    if name == 'clear':
        I.ctx.setcell(ref, GSet([]))
        return None
    raise Undecided('set.%s (generic)' % name)


def _kvdict_method(I, ref, c, name, args, kw):
    if isinstance(c, GSet):
        return _gset_method(I, ref, c, name, args, kw)
    def hit(p, k):
        h = And(p, I.equals(args[0], k))
        return I.ctx.decide(h, 'haskey') if is_sym(h) else h
    if name == 'get':
        for p, k, v in c.entries:
            if hit(p, k):
                return v
        return args[1] if len(args) > 1 else None
    if name == 'pop':
        for j, (p, k, v) in enumerate(c.entries):
            if hit(p, k):
                ents = list(c.entries)
                del ents[j]
                I.ctx.setcell(ref, type(c)(ents))
                return v
        if len(args) > 1:
            return args[1]
        I.raise_('KeyError')
    if name == 'setdefault':
        for p, k, v in c.entries:
            if hit(p, k):
                return v
        d = args[1] if len(args) > 1 else None
        I.ctx.setcell(ref, type(c)(c.entries + [(True, args[0], d)]))
        return d
    if name == 'clear':
        I.ctx.setcell(ref, type(c)([]))
        return None
    if name in ('items', 'iteritems'):
        out = []
        for p, k, v in c.entries:
            if p is False:
                continue
            if p is True or I.ctx.decide(p, 'present'):
                out.append((k, v))
        return I.ctx.alloc(PList(out))
    if name == 'keys':
        return I.ctx.alloc(PList([k for g, k in _concrete_items(I, ref)]))
    if name == 'copy':
        return I.ctx.alloc(type(c)(c.entries))
    raise Undecided('dict.%s (symbolic keys)' % name)
