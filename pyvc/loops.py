"""Loop contracts: inductive invariants checked on the real loop body (init / preservation / use)."""
import ast
import z3
from .values import *   # noqa
from .ctx import Undecided, PathAbort
from .interp import _Break, _Continue, _target_names
from .builtins_ import SymRange


class Uninit(object):
    """value of a loop-local that is (re)assigned before use in every iteration"""

    def __repr__(self):
        return '<uninit>'


UNINIT = Uninit()


def havoc_like(ctx, v, base='h'):
    if isinstance(v, bool) or isinstance(v, z3.BoolRef):
        return FreshBool(base)
    if isinstance(v, int) or (isinstance(v, z3.ArithRef) and v.sort() == z3.IntSort()):
        return FreshInt(base)
    if isinstance(v, float) or isinstance(v, z3.ArithRef):
        return FreshReal(base)
    if isinstance(v, tuple):
        return tuple(havoc_like(ctx, x, base) for x in v)
    if isinstance(v, Opt):
        return Opt(FreshBool(base + '_none'), havoc_like(ctx, v.val, base))
    if isinstance(v, NodeV):
        i = FreshInt(base + '_node')
        ctx.assume(z3.And(i >= 0, i < ctx.universe))
        return NodeV(i)
    if isinstance(v, Opaque):
        return Opaque(v.kind, FreshInt(base + '_' + v.kind))
    if isinstance(v, Ref):
        c = ctx.cell(v)
        if isinstance(c, SList):
            nl, n = slist_fresh(base, c.width or 1)
            ctx.assume(n >= 0)
            ctx.setcell(v, nl)
            return v
        if isinstance(c, NSet):
            ctx.setcell(v, NSet([FreshBool(base) for _ in c.bits]))
            return v
        if isinstance(c, NMap):
            ctx.setcell(v, NMap([FreshBool(base) for _ in c.pres], [havoc_like(ctx, x, base) if x is not None else FreshInt(base) for x in c.vals]))
            return v
        if hasattr(c, 'havoc'):
            ctx.setcell(v, c.havoc(ctx, base))
            return v
        raise Undecided('cannot havoc heap cell %r' % (c,))
    return UNINIT


def assigned_in(stmts):
    """names and self-attributes syntactically assigned in a block"""
    names, attrs = set(), set()
    for s in stmts:
        for n in ast.walk(s):
            tg = []
            if isinstance(n, ast.Assign):
                tg = n.targets
            elif isinstance(n, ast.AugAssign):
                tg = [n.target]
            elif isinstance(n, (ast.For,)):
                tg = [n.target]
            elif isinstance(n, ast.ExceptHandler) and n.name:
                names.add(n.name)
            elif isinstance(n, ast.With):
                tg = [i.optional_vars for i in n.items if i.optional_vars is not None]
            for t in tg:
                for x in ast.walk(t):
                    if isinstance(x, ast.Name) and isinstance(x.ctx, ast.Store):
                        names.add(x.id)
                    elif isinstance(x, ast.Attribute) and isinstance(x.value, ast.Name) and x.value.id == 'self' \
                            and isinstance(x.ctx, ast.Store):
                        attrs.add(x.attr)
    return names, attrs


class LoopSpec(object):
    """inv(I, fr, it) -> list of (clause_id, bool).  `it` carries 'k' (iterations done) and for
    for-loops 'seq'/'x'.  havoc(I, fr) may havoc extra heap state (called after the automatic havoc of
    assigned locals and assigned self-fields)."""

    def __init__(self, name, inv, havoc=None, quant=False, nia=False, extra_locals=(), keep=(), after=None, construct=None, check=None):
        self.name = name
        self.inv = inv
        self.havoc = havoc
        self.quant = quant
        self.nia = nia
        self.extra_locals = extra_locals
        self.keep = set(keep)
        self.after = after
        self.construct = construct   # construct(I, fr, it): put the exact loop-head state for iteration it['k'] in place
        self.check = check           # check(I, fr, it) -> prove-only clauses (extensional equality with the constructed form)

    # -- helpers
    def _oid(self, phase, cid):
        # a loop invariant is *assumed* on the exit path, so every later clause of the unit rests on it: its obligations count
        # for every property the unit serves ('*'), whatever property named it first
        name = self.name if self.name.startswith('*') or ':' not in self.name else '*+' + self.name
        return '%s.%s.%s' % (name, phase, cid)

    def _inv(self, I, fr, it):
        # an invariant written for the loop as it was may not even be evaluable on a restructured loop (a local it names no longer exists):
        # that is "the contract does not fit the code any more" - undecided, not a crash
        try:
            return list(self.inv(I, fr, it))
        except (TypeError, KeyError, AttributeError, IndexError) as e:
            raise Undecided('loop contract %s cannot be evaluated on this loop (%s: %s)' % (self.name, type(e).__name__, e))

    def _prove_inv(self, I, fr, it, phase):
        for cid, b in self._inv(I, fr, it):
            I.ctx.prove(b, self._oid(phase, cid))
        if self.check is not None:
            for cid, b in self.check(I, fr, it):
                I.ctx.prove(b, self._oid(phase, cid))

    def _assume_inv(self, I, fr, it):
        if self.construct is not None:
            self.construct(I, fr, it)
        for cid, b in self._inv(I, fr, it):
            I.ctx.assume(b, quant=self.quant)

    def _havoc(self, I, s, fr):
        from . import source
        names, attrs = assigned_in(s.body)
        if isinstance(s, ast.For):
            names |= set(_target_names(s.target))
        for n in sorted(names | set(self.extra_locals)):
            if n in self.keep:
                continue
            if n in fr.locals:
                fr.locals[n] = havoc_like(I.ctx, fr.locals[n], n)
            else:
                fr.locals[n] = UNINIT
        selfv = fr.locals.get('self')
        if selfv is not None and attrs:
            c = I.ctx.cell(selfv)
            for a in sorted(attrs):
                m = source.mangle(fr.cls, a)
                if m in self.keep or a in self.keep:
                    continue
                if m in c.fields:
                    c = c.with_field(m, havoc_like(I.ctx, c.fields[m], a))
            I.ctx.setcell(selfv, c)
        if self.havoc is not None:
            self.havoc(I, fr)

    # -- while
    def run_while(self, I, s, fr):
        ctx = I.ctx
        it = {'k': 0}
        self._prove_inv(I, fr, it, 'init')
        self._havoc(I, s, fr)
        k = FreshInt('iter')
        ctx.assume(k >= 0)
        it = {'k': k}
        self._assume_inv(I, fr, it)
        if I.truth(I.eval(s.test, fr), 'while'):
            try:
                I.exec_block(s.body, fr)
            except _Break:
                if self.after:
                    self.after(I, fr, it)
                return
            except _Continue:
                pass
            self._prove_inv(I, fr, {'k': k + 1}, 'step')
            raise PathAbort()
        I.exec_block(s.orelse, fr)
        if self.after:
            self.after(I, fr, it)

    # -- for
    def run_for(self, I, s, fr, itv):
        ctx = I.ctx
        itv = I.unwrap(itv, 'iter')
        pre_target = dict((n, fr.locals.get(n, UNINIT)) for n in _target_names(s.target))
        if isinstance(itv, Ref) and isinstance(ctx.cell(itv), SList):
            seq = ctx.cell(itv)
            n = seq.n
            elt = lambda k: seq.get(k)
        elif isinstance(itv, SymRange):
            seq = itv
            n = None
        else:
            raise Undecided('loop contract on iteration over %r' % (itv,))
        self._prove_inv(I, fr, {'k': 0, 'seq': seq, 'x': (itv.lo if n is None else None)}, 'init')
        self._havoc(I, s, fr)
        k = FreshInt('iter')
        ctx.assume(k >= 0)
        if n is not None:
            ctx.assume(to_z3(k) <= to_z3(n))
            it = {'k': k, 'seq': seq, 'x': None}
            self._assume_inv(I, fr, it)
            more = to_z3(k) < to_z3(n)
            if ctx.decide(more, 'for-more'):
                I.assign(s.target, elt(k), fr)
                try:
                    I.exec_block(s.body, fr)
                except _Break:
                    if self.after:
                        self.after(I, fr, it)
                    return
                except _Continue:
                    pass
                self._prove_inv(I, fr, {'k': k + 1, 'seq': seq, 'x': None}, 'step')
                raise PathAbort()
            # exhausted: loop variable keeps its last value
            if _target_names(s.target):
                nz = to_z3(n) > 0
                if ctx.decide(nz, 'for-nonempty'):
                    I.assign(s.target, elt(n - 1), fr)
                else:
                    for nm, v in pre_target.items():
                        if v is UNINIT:
                            fr.locals.pop(nm, None)
                        else:
                            fr.locals[nm] = v
        else:
            x = FreshInt('rangevar')
            lo, hi, st = itv.lo, itv.hi, itv.st
            ctx.assume(to_z3(st) > 0)
            if self.nia:
                ctx.assume(x == to_z3(lo) + k * to_z3(st))
            else:
                ctx.assume(x >= to_z3(lo))
                ctx.assume(z3.Implies(k == 0, x == to_z3(lo)))
                ctx.assume(z3.Implies(k > 0, x >= to_z3(lo) + to_z3(st)))
            it = {'k': k, 'seq': seq, 'x': x}
            self._assume_inv(I, fr, it)
            more = x < to_z3(hi)
            if ctx.decide(more, 'for-more'):
                I.assign(s.target, x, fr)
                try:
                    I.exec_block(s.body, fr)
                except _Break:
                    if self.after:
                        self.after(I, fr, it)
                    return
                except _Continue:
                    pass
                self._prove_inv(I, fr, {'k': k + 1, 'seq': seq, 'x': x + to_z3(st)}, 'step')
                raise PathAbort()
            for nm, v in pre_target.items():
                # last value: unknown multiple; keep havoc'd
                pass
        I.exec_block(s.orelse, fr)
        if self.after:
            self.after(I, fr, it)


class Sel(object):
    """selects one loop of a function by what it looks like (kind, text its header must / must not contain, text its body must
    contain) instead of by position, so that adding or removing an unrelated loop does not attach a contract to the wrong loop"""

    def __init__(self, kind=None, header=(), not_header=(), body=(), not_body=()):
        self.kind = kind
        self.header, self.not_header, self.body, self.not_body = tuple(header), tuple(not_header), tuple(body), tuple(not_body)

    def matches(self, mod, n):
        if self.kind == 'while' and not isinstance(n, ast.While):
            return False
        if self.kind == 'for' and not isinstance(n, ast.For):
            return False
        head = mod.segment(n.test) if isinstance(n, ast.While) else ((mod.segment(n.target) or '') + ' in ' + (mod.segment(n.iter) or ''))
        head = head or ''
        body = '\n'.join((mod.segment(b) or '') for b in n.body)
        return all(h in head for h in self.header) and not any(h in head for h in self.not_header) and \
            all(b in body for b in self.body) and not any(b in body for b in self.not_body)


def loop_table(mod, qualname, specs):
    """{ordinal or Sel: LoopSpec} -> table understood by Interp.find_loop_spec"""
    fn, ci = mod.find(qualname)
    if fn is None:
        raise Undecided('function %s not found in %s' % (qualname, mod.relpath))
    loops = [n for n in ast.walk(fn) if isinstance(n, (ast.For, ast.While))]
    loops.sort(key=lambda n: (n.lineno, n.col_offset))
    d = {'__fn__': fn}
    for k, spec in specs.items():
        if isinstance(k, Sel):
            hits = [i for i, n in enumerate(loops) if k.matches(mod, n)]
            if len(hits) != 1:
                raise Undecided('%s: loop under contract %s not identified (%d candidates): the function was restructured' % (qualname, spec.name, len(hits)))
            d[hits[0]] = spec
        else:
            if k >= len(loops):
                raise Undecided('%s has no loop #%d any more' % (qualname, k))
            d[k] = spec
    return d
