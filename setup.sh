#!/bin/sh
# offline self-test of the engine: solvers present, a toy function verifies, a toy mutant fails
cd "$(dirname "$0")" || exit 1
mkdir -p .scratch evidence replays
export PYTHONPATH="$(pwd)"
exec python3-vt -m pyvc.selftest
