"""Contracts for dynamic membership (C10): leader gate, __doChangeCluster, membership bookkeeping on the leader."""
import ast
import z3
from pyvc.values import *   # noqa
from pyvc.harness import unit, mutate_function, replace_compare
from pyvc.ctx import Undecided
from .so_common import *    # noqa
from .so_common import F, _clen, _ctype
from .so_apply import APPLY_REG, doChangeCluster_summary
from .so_tick import LEADER, CAND, FOLL

GATE = 'SyncObj.__changeCluster'
DOCHANGE = 'SyncObj.__doChangeCluster'


def I9(so, st=None):
    """I9 (leader): every MEMBERSHIP entry above max(noopIDx, lastApplied) is at or below the recorded pending-change index.
    Returned as a z3 formula with a universally quantified index (hypothesis form)."""
    g = (lambda n: st.get(n)) if st else so.get
    log = st.get('raftLog') if st else so.log()
    noop, cci, applied = g('noopIDx'), g('changeClusterIDx'), g('raftLastApplied')
    i = z3.Int('i9')
    nv = noop.val if isinstance(noop, Opt) else noop
    lo = z3.If(nv > applied, nv, applied)
    if isinstance(cci, Opt):
        bound = z3.And(z3.Not(cci.isnone), i <= cci.val)
    elif cci is None:
        bound = z3.BoolVal(False)
    else:
        bound = i <= cci
    body = z3.Implies(z3.And(i > lo, i <= log.last_idx(), _ctype(log.cmd_at(i)) == 2), bound)
    return i, body


def I9_goal(so):
    i, body = I9(so)
    j = FreshInt('i9sk')
    return z3.substitute(body, (i, j))


@unit(name='changeCluster', relpath=MOD, qual=[GATE], props=['C10'],
      doc='O10.1 (from the statement): a membership change is accepted by the leader only if it has applied its own no-op '
          'and no earlier membership entry is still unapplied in its journal',
      assumptions=['I9 (leader bookkeeping invariant) - preserved by units checkCommandsToApply.membership and msg.response_vote',
                   'A-I2: the applied position lies inside the journal (see unit tryLogCompaction)'],
      canaries=[('drop-noop-gate', lambda mod: mutate_function(mod, GATE, _mut_drop_noop_gate), ['O10.1.accepted-only-after-own-noop-applied'])])
def change_cluster(ctx):
    so = SO(ctx, UNIVERSE())
    so.assume_inv()
    ctx.assume(so.get('raftState') == LEADER)
    ctx.assume(And(so.get('raftLastApplied') >= to_z3(so.log().first), so.get('raftLastApplied') <= so.log().last_idx()))
    i, body = I9(so)
    ctx.assume(z3.ForAll([i], body), quant=True)
    nidx = FreshInt('reqNode')
    ctx.assume(And(nidx >= 0, nidx <= so.U))
    kindv = FreshBool('reqIsAdd')
    old = so.snapshot()
    for kind in ('add', 'rem'):
        pass
    kind = 'add' if ctx.decide(kindv, 'req-add') else 'rem'
    req = ctx.alloc(PList([kind, NodeId(nidx), NodeV(nidx)]))
    I = make_interp(ctx, so, registry=APPLY_REG)
    k, v = run_method(I, so, GATE, [req])
    ctx.prove(k == 'ok', 'C10:O10.1.no-exception', info=getattr(v, 'typ', None))
    if k != 'ok':
        return
    res = I.truth_expr(v)
    applied, noop = old.get('raftLastApplied'), old.get('noopIDx')
    log = old.get('raftLog')
    ctx.prove(Implies(res, applied >= noop.val), 'C10+C04+C01:O10.1.accepted-only-after-own-noop-applied')
    w = FreshInt('w')
    ctx.prove(Implies(And(res, w > applied, w <= log.last_idx()), _ctype(log.cmd_at(w)) != 2), 'C10+C04+C01:O10.1.accepted-only-without-pending-change')
    if ctx.decide(Not(res), 'refused'):
        for n, b in field_unchanged(old, so, ['otherNodes', 'raftNextIndex', 'raftMatchIndex', 'raftLog']):
            ctx.prove(b, 'C10:O10.1.refusal-changes-nothing.%s' % n)


def _mut_drop_noop_gate(fn):
    cnt = 0
    for n in fn.body:
        if isinstance(n, ast.If) and any(isinstance(x, ast.Attribute) and x.attr == '__noopIDx' for x in ast.walk(n.test)):
            n.test = ast.Constant(value=False)
            cnt += 1
    return cnt


@unit(name='doChangeCluster', relpath=MOD, qual=[DOCHANGE], props=['C10', 'C18', 'C20'],
      cases=[dict(kind=k, reverse=r, short=s) for k in ('add', 'rem', 'bogus') for r in (False, True) for s in (False, True)],
      doc='O10.2: exact effect of applying / reversing one membership request on voters, nextIndex, matchIndex, lastResponse and '
          'the transport; add-present, remove-absent, remove-self and unknown kinds change nothing and return False',
      trusted=['T-TRANSPORT (addNode/dropNode recorded as ghost events)'],
      canaries=[('ignore-reverse', lambda mod: mutate_function(mod, DOCHANGE, _mut_ignore_reverse), ['O10.2.direction'])])
def do_change_cluster(ctx, kind, reverse, short):
    so = SO(ctx, UNIVERSE())
    so.assume_inv()
    nidx = FreshInt('reqNode')
    ctx.track('reqNode', nidx)
    ctx.assume(And(nidx >= 0, nidx <= so.U))
    items = [kind, NodeId(nidx)] + ([] if short else [NodeV(nidx)])
    req = ctx.alloc(PList(items))
    # index U denotes the node itself only if it has an address; observers carry counter ids that are never member
    # addresses (transport O14.1), so a membership request never names a connected observer
    ctx.assume(Not(And(so.get('selfNode').isnone, nidx == so.U)))
    ctx.assume(And(*[Not(And(nidx == i, so.cell('readonlyNodes').bits[i])) for i in range(so.U)]))
    old = so.snapshot()
    ev = []
    reg = dict(SUMMARIES)
    reg['Transport.addNode'] = lambda I, s, a, k: ev.append(('addNode', a[0]))
    reg['Transport.dropNode'] = lambda I, s, a, k: ev.append(('dropNode', a[0]))
    I = make_interp(ctx, so, registry=reg)
    k, v = run_method(I, so, DOCHANGE, [req], {'reverse': reverse} if reverse else {})
    ctx.prove(k == 'ok', 'C10:O10.2.no-exception', info=getattr(v, 'typ', None))
    if k != 'ok':
        return
    U = so.U
    v0, v1 = old.get('otherNodes').bits, so.cell('otherNodes').bits
    n0, n1 = old.get('raftNextIndex'), so.cell('raftNextIndex')
    m0, m1 = old.get('raftMatchIndex'), so.cell('raftMatchIndex')
    l0, l1 = old.get('lastResponseTime'), so.cell('lastResponseTime')
    res = I.truth_expr(v)
    isself = Eq(nidx, U)
    member = Or(*[And(Eq(nidx, i), v0[i]) for i in range(U)])
    if kind == 'bogus':
        ctx.prove(Not(res), 'C10:O10.2.unknown-kind-refused')
        adding = None
    else:
        adding = (kind == 'add') != reverse
    ctx.prove(Iff(res, False if adding is None else (And(Not(isself), Not(member)) if adding else And(Not(isself), member))), 'C10:O10.2.direction')
    for i in range(U + 1):
        me = And(res, Eq(nidx, i))
        if adding is None:
            want = v0[i]
        elif adding:
            want = Or(v0[i], me)
        else:
            want = And(v0[i], Not(me))
        ctx.prove(Iff(v1[i], want), 'C10:O10.2.member-set-effect')
        if adding:
            ctx.prove(Implies(me, And(n1.pres[i], m1.pres[i], Eq(n1.vals[i], so.log().last_idx() + 1), Eq(m1.vals[i], 0))), 'C10+C04:O10.2.I4.maps-initialised-for-new-member')
            ctx.prove(Implies(And(me, old.get('raftState') == LEADER), l1.pres[i]), 'C10+C20:O10.2.I4.lastResponse-initialised-on-leader')
        elif adding is False:
            ctx.prove(Implies(me, And(Not(n1.pres[i]), Not(m1.pres[i]))), 'C10:O10.2.maps-dropped-for-removed-member')
        ctx.prove(Implies(Not(me), And(Iff(n1.pres[i], n0.pres[i]), Iff(m1.pres[i], m0.pres[i]), Implies(m0.pres[i], Eq(m1.vals[i], m0.vals[i])),
                                       Implies(n0.pres[i], Eq(n1.vals[i], n0.vals[i])), Iff(l1.pres[i], l0.pres[i]),
                                       Implies(l0.pres[i], Eq(l1.vals[i], l0.vals[i])))), 'C10+C04+C20:O10.2.other-members-untouched')
    if ctx.decide(res, 'changed'):
        ctx.prove(len(ev) == 1 and ev[0][0] == ('addNode' if adding else 'dropNode') and Eq(ev[0][1].idx, nidx), 'C10:O10.2.transport-follows-member-set')
    else:
        ctx.prove(len(ev) == 0, 'C10:O10.2.refusal-leaves-transport')
    for n, b in field_unchanged(old, so, ['raftLog', 'raftCommitIndex', 'raftCurrentTerm', 'raftState', 'readonlyNodes', 'raftLastApplied']):
        ctx.prove(b, 'C10+C04:O10.2.frame.%s' % n)
    so.prove_inv('*:doChangeCluster')


def _mut_ignore_reverse(fn):
    cnt = 0
    for n in ast.walk(fn):
        if isinstance(n, ast.Assign) and isinstance(n.targets[0], ast.Name) and n.targets[0].id == 'adding':
            if isinstance(n.value, ast.Name) and n.value.id == 'reverse':
                n.value = ast.Constant(value=False)
                cnt += 1
            elif isinstance(n.value, ast.UnaryOp):
                n.value = ast.Constant(value=True)
                cnt += 1
    return cnt


@unit(name='checkCommandsToApply.membership', relpath=MOD, qual=['SyncObj._checkCommandsToApply', GATE], props=['C10'],
      cases=[dict(shape=s) for s in (0, 1, 2)],
      kind='body of the dequeue loop of _checkCommandsToApply on a leader with dynamic membership',
      doc='I9 is preserved when the leader appends a submission: a membership entry it appends is recorded as the pending change, '
          'so that the gate (unit changeCluster) refuses the next one until it is applied',
      assumptions=['A-I2: the applied position lies inside the journal (see unit tryLogCompaction)', 'I7: a leader has recorded its no-op index (R4.noop-index-recorded)'],
      canaries=[('never-record', lambda mod: mutate_function(mod, 'SyncObj._checkCommandsToApply', _mut_never_record), ['I9.preserved-by-leader-append'])])
def check_commands_membership(ctx, shape):
    from .so_submit import get_nowait_summary_factory, _loop_body, CHECK
    from pyvc.interp import _Break, _Continue
    so = SO(ctx, UNIVERSE())
    so.assume_inv()
    ctx.assume(so.get('raftState') == LEADER)
    ctx.assume(so.conf('dynamicMembershipChange'))
    ctx.assume(And(so.get('raftLastApplied') >= to_z3(so.log().first), so.get('raftLastApplied') <= so.log().last_idx()))
    ctx.assume(Not(so.get('noopIDx').isnone))
    ctx.assume(so.get('noopIDx').val <= so.log().last_idx())
    i, body = I9(so)
    ctx.assume(z3.ForAll([i], body), quant=True)
    loop = _loop_body(so.mod, CHECK, 0)
    reg = dict(APPLY_REG)
    reg['FastQueue.get_nowait'] = get_nowait_summary_factory(ctx, so, shape)
    I = make_interp(ctx, so, registry=reg, inline={GATE})
    try:
        kind, v, fr = run_region(I, so, CHECK, loop.body, {'startTime': FreshReal('startTime')}, loop=loop)
    except (_Break, _Continue):
        kind, v = 'ok', None
    if kind == 'not-entered':
        return          # the time budget of the dequeue loop is used up: no round happens
    ctx.prove(kind == 'ok', 'C10:I9.no-exception', info=getattr(v, 'typ', None))
    if kind != 'ok':
        return
    ctx.prove(I9_goal(so), 'C10+C04+C01:I9.preserved-by-leader-append')


def _mut_never_record(fn):
    cnt = 0
    for n in ast.walk(fn):
        body = getattr(n, 'body', None)
        if isinstance(body, list):
            for s in list(body):
                if isinstance(s, ast.Assign) and isinstance(s.targets[0], ast.Attribute) and s.targets[0].attr == '__changeClusterIDx':
                    body.remove(s)
                    if not body:
                        body.append(ast.Pass())
                    cnt += 1
    return cnt


# ------------------------------------------------------------------------------------------------ the public membership requests
@unit(name='membership.request', relpath=MOD, qual=['SyncObj.addNodeToCluster', 'SyncObj.removeNodeFromCluster', 'SyncObj._addNodeToCluster',
                                                     'SyncObj._removeNodeFromCluster'], props=['C10'],
      cases=[dict(op=o, via=v) for o in ('add', 'rem') for v in ('api', 'utility')],
      doc='O10.1 (entry points): with dynamic membership disabled the request raises and submits nothing; otherwise exactly one MEMBERSHIP command '
          '[kind, node.id, node] for the named node is submitted with the caller\'s callback - "add" from addNodeToCluster, "rem" from '
          'removeNodeFromCluster; the admin-utility wrapper refuses to remove the node\'s own address (REQUEST_DENIED) and otherwise forwards',
      assumptions=['utility wrappers run only on a node with an own address (utility messages arrive through its bound server)'])
def membership_request(ctx, op, via):
    so = SO(ctx, UNIVERSE())
    so.assume_inv()
    idx = FreshInt('node')
    ctx.assume(And(idx >= 0, idx <= so.U))
    node = NodeV(idx)
    reg = dict(SUMMARIES)
    from .so_submit import applyCommand_summary
    reg['SyncObj._applyCommand'] = applyCommand_summary
    I = make_interp(ctx, so, registry=reg, inline={'SyncObj.addNodeToCluster', 'SyncObj.removeNodeFromCluster'})
    cb = Callable_('user:cb')
    old = so.snapshot()
    if via == 'api':
        k, v = run_method(I, so, 'SyncObj.%s' % ('addNodeToCluster' if op == 'add' else 'removeNodeFromCluster'), [node, cb])
    else:
        # the admin utility names the node by its address string (for a TCPNode: its id); utility messages only reach a node that has bound
        # its own address, i.e. one with a selfNode
        sn = so.get('selfNode')
        ctx.assume(Not(sn.isnone) if isinstance(sn, Opt) else (sn is not None))
        k, v = run_method(I, so, 'SyncObj.%s' % ('_addNodeToCluster' if op == 'add' else '_removeNodeFromCluster'), [(NodeId(idx),), cb])
    sub = ctx.glist('submitted')
    cbs = ctx.glist('cb')
    dyn = so.conf('dynamicMembershipChange')
    denied = [a for f, a in cbs if f.tag == 'user:cb']
    if k == 'raise':
        ctx.prove(Not(I.truth_expr(dyn)), 'C10:O10.1.request-raises-only-when-membership-changes-are-disabled', info=v.typ)
        ctx.prove(len(sub) == 0, 'C10:O10.1.rejected-request-submits-nothing')
        return
    if denied:
        # only the utility wrapper of "remove" may answer by itself, and only for the node's own address
        ctx.prove(via == 'utility' and op == 'rem', 'C10:O10.1.only-remove-of-self-is-refused-locally')
        ctx.prove(And(idx == so.U, len(denied) == 1 and denied[0][0] is None and Eq(denied[0][1], 6)), 'C10:O10.1.remove-of-own-address-is-REQUEST_DENIED',
                  info=repr(denied))
        ctx.prove(len(sub) == 0, 'C10:O10.1.refused-request-submits-nothing')
        return
    ctx.prove(I.truth_expr(dyn), 'C10:O10.1.membership-change-needs-dynamic-membership')
    ctx.prove(len(sub) == 1, 'C10:O10.1.exactly-one-command-submitted')
    if len(sub) == 1:
        a = sub[0]
        from .so_model import Pickled
        val = ctx.cell(a[0].value) if isinstance(a[0], Pickled) and isinstance(a[0].value, Ref) else None
        ok = isinstance(val, PList) and len(val.items) == 3 and val.items[0] == op
        ctx.prove(ok, 'C10:O10.1.command-kind-matches-the-request', info=repr(val.items if val is not None else a[0]))
        if ok:
            nid, nd = val.items[1], val.items[2]
            ctx.prove(isinstance(nd, NodeV) and Eq(nd.idx, idx), 'C10:O10.1.command-names-the-requested-node')
            ctx.prove(isinstance(nid, NodeId) and Eq(nid.idx, idx), 'C10:O10.1.command-carries-the-node-id')
        ctx.prove(a[2] == 2, 'C10:O10.1.command-type-is-MEMBERSHIP', info=repr(a[2]))
        ctx.prove(a[1] is cb, 'C10+C02:O10.1.callback-forwarded')
    if via == 'utility' and op == 'rem':
        ctx.prove(idx != so.U, 'C10:O10.1.remove-of-own-address-never-submitted')
    for n, b in field_unchanged(old, so, ['otherNodes', 'raftLog', 'raftCommitIndex', 'raftCurrentTerm', 'changeClusterIDx']):
        ctx.prove(b, 'C10:O10.1.request-changes-nothing-before-it-is-appended.%s' % n)
