"""C02 O2.8 / C11 O11.1 / C17 O17.7: the closure `newFunc` created by the `replicated` decorator (AST-extracted from inside the
decorator; the frame introspection that installs the _vN copies is outside the unit, see the bounded stand-in of C17)."""
import ast
import z3
from pyvc.values import *   # noqa
from pyvc.harness import unit, mutate_function
from pyvc.ctx import Undecided
from pyvc.interp import Interp, PyExc, Frame, BoundMethod
from pyvc import source
from .so_model import MOD, Pickled, pickle_dumps

QUAL = 'replicated.replicatedImpl.newFunc'


class FuncObj(object):
    def __init__(self, name):
        self.name = name

    def get_attr(self, I, n):
        if n == '__name__':
            return self.name
        raise Undecided('function attribute %s' % n)

    def call(self, I, args, kw):
        rid = FreshInt('directResult')
        I.ctx.ghost['direct'] = I.ctx.glist('direct') + [(tuple(args), dict(kw), rid)]
        return Opaque('result', rid)


KW_CASES = [dict(kws=k, nargs=n, target=t) for k in ((), ('callback',), ('sync',), ('sync', 'timeout'), ('user',), ('user', 'callback'), ('user', 'sync'), ('callback', 'sync'))
            for n in (0, 2) for t in ('syncobj', 'consumer')]


@unit(name='replicated.newFunc', relpath=MOD, qual=[QUAL], props=['C02', 'C11', 'C17'], cases=KW_CASES + [dict(kws=('_doApply',), nargs=2, target='syncobj')],
      doc='O2.8/O11.1: with _doApply the real method runs with the given arguments; otherwise exactly one command (funcID of the '
          'currently enabled implementation, args, user kwargs without callback/sync/timeout) is submitted with the right callback; the '
          'sync path returns the result iff error == 0, raises SyncObjException(error) otherwise and "Timeout" iff the wait timed out',
      trusted=['T-PICKLE', 'threading.Event'],
      canaries=[('reserved-kw-leaks', lambda mod: mutate_function(mod, QUAL, _mut_pop_to_get), ['O11.1.reserved-names-not-pickled']),
                ('sync-ignores-error', lambda mod: mutate_function(mod, QUAL, _mut_ignore_error), ['O2.8.sync-raises-on-error'])])
def replicated_newfunc(ctx, kws, nargs, target):
    mod = source.load(MOD)
    fn, ci = mod.find(QUAL)
    if fn is None:
        raise Undecided('%s not found' % QUAL)
    args = [Opaque('arg', FreshInt('a%d' % i)) for i in range(nargs)]
    kw = {}
    cb = Callable_('user:cb')
    sync_v = True
    timeout_v = FreshReal('timeout')
    userval = Opaque('arg', FreshInt('kwval'))
    for k in kws:
        kw[k] = {'callback': cb, 'sync': sync_v, 'timeout': timeout_v, 'user': userval, '_doApply': True}[k]
    fid = FreshInt('funcID')
    submitted = []

    def applier(I, selfv, a, k):
        submitted.append(tuple(a))
        return None
    so = ctx.alloc(PObj('SyncObj', {}))
    if target == 'syncobj':
        selfobj = so
    else:
        selfobj = ctx.alloc(PObj('MyConsumer', {'_syncObj': so}))
    names = []

    def get_func_name(I, selfv, a, k):
        # contract of _getFuncName (unit getFuncName): one argument, the name; the enabled implementation's name, or KeyError
        if len(a) != 1 or k:
            raise Undecided('_getFuncName called outside its contract (arguments %r %r)' % (tuple(a), sorted(k)))
        names.append(a[0])
        return ('NAME', a[0])

    class MethodToID(PDict):
        def get_item(self, I, ref, idx):
            I.ctx.ghost['id_lookup'] = I.ctx.glist('id_lookup') + [idx]
            return fid
    c = ctx.cell(so)
    ctx.setcell(so, c.with_field('_methodToID', ctx.alloc(MethodToID({}))))

    def new_async(I, a, k):
        return ctx.alloc(PObj('AsyncResult', {'result': None, 'error': None, 'event': ctx.alloc(PObj('Event', {}))}))
    waited = []

    def event_wait(I, selfv, a, k):
        ok = FreshBool('waitReturnedTrue')
        waited.append((a[0] if a else None, ok))
        # the tick thread has called onResult(res, err) iff the wait succeeded
        for addr, cell in list(ctx.heap.items()):
            if isinstance(cell, PObj) and cell.cls == 'AsyncResult':
                ctx.heap[addr] = cell.with_field('result', Opaque('result', FreshInt('asyncResult'))).with_field('error', FreshInt('asyncError'))
        return ok
    reg = {'SyncObj._applyCommand': applier, 'SyncObj._getFuncName': get_func_name, 'Event.wait': event_wait}
    I = Interp(ctx, registry=reg, externals={'pickle.dumps': pickle_dumps}, hooks={'new:AsyncResult': new_async, 'bases': {'MyConsumer': ('SyncObjConsumer',)}})
    closure = Frame(mod, None, 'replicatedImpl')
    closure.locals['func'] = FuncObj('myMethod')
    try:
        ret = I.call_funcdef(fn, mod, None, None, [selfobj] + args, dict(kw), closure, QUAL)
        outcome = 'ok'
    except PyExc as e:
        ret, outcome = e, 'raise'
    direct = ctx.glist('direct')
    if '_doApply' in kws:
        ctx.prove(outcome == 'ok' and len(direct) == 1 and len(submitted) == 0, 'C01+C11:O2.8.doApply-runs-the-method-directly')
        if direct:
            a, k, rid = direct[0]
            ctx.prove(a[0] is selfobj and all(x is y for x, y in zip(a[1:], args)) and len(a) == 1 + nargs and '_doApply' not in k,
                      'C11+C15:O11.1.doApply-arguments-passed-through')
            ctx.prove(isinstance(ret, Opaque) and Eq(ret.id, rid), 'C02:O2.8.doApply-returns-method-result')
        return
    ctx.prove(len(direct) == 0, 'C02:O2.8.no-local-execution-on-submission')
    ctx.prove(len(submitted) == 1, 'C02+C11:O2.8.exactly-one-command-submitted', info=outcome)
    if len(submitted) != 1:
        return
    data, callback, ctype = submitted[0]
    ctx.prove(ctype == 0, 'C02:O2.8.command-type-regular')
    ctx.prove(isinstance(data, Pickled), 'C11+C15:O11.1.command-is-pickled')
    cmd = data.value
    user_kw = 'user' in kws
    if isinstance(cmd, tuple):
        got_id = cmd[0]
        got_args = cmd[1] if len(cmd) > 1 else ()
        got_kw = ctx.cell(cmd[2]).items if len(cmd) > 2 else {}
    else:
        got_id, got_args, got_kw = cmd, (), {}
    ctx.prove(Eq(got_id, fid), 'C11+C17:O17.7.funcID-of-the-enabled-implementation')
    look = ctx.glist('id_lookup')
    want_name = 'myMethod' if target == 'syncobj' else None
    ctx.prove(len(names) == 1 and (names[0] == 'myMethod' if target == 'syncobj' else (isinstance(names[0], tuple) and names[0][1] == 'myMethod')),
              'C17:O17.7.name-resolved-through-the-version-table')
    ctx.prove(len(got_args) == nargs and all(x is y for x, y in zip(got_args, args)), 'C11+C15:O11.1.positional-arguments-intact')
    ctx.prove(set(got_kw) == ({'user'} if user_kw else set()) and (not user_kw or got_kw['user'] is userval), 'C11+C02+C15:O11.1.reserved-names-not-pickled',
              info=repr(sorted(got_kw)))
    ctx.prove(not isinstance(got_id, tuple), 'C11+C15:O11.1.shapes-distinguishable')
    is_sync = 'sync' in kws and 'callback' not in kws
    if 'callback' in kws:
        ctx.prove(callback is cb, 'C02:O2.8.user-callback-passed')
    elif is_sync:
        ctx.prove(isinstance(callback, BoundMethod) and callback.name == 'onResult', 'C02:O2.8.sync-uses-async-result')
    else:
        ctx.prove(callback is None, 'C02:O2.8.no-callback')
    if not is_sync:
        ctx.prove(outcome == 'ok' and ret is None and len(waited) == 0, 'C02:O2.8.async-call-returns-at-once')
        return
    ctx.prove(len(waited) == 1, 'C02:O2.8.sync-waits-once')
    if not waited:
        return
    tmo, ok = waited[0]
    ctx.prove((tmo is timeout_v) if 'timeout' in kws else (tmo is None), 'C02:O2.8.sync-timeout-passed')
    ar = [c_ for c_ in ctx.heap.values() if isinstance(c_, PObj) and c_.cls == 'AsyncResult'][0]
    err, res = ar.fields['error'], ar.fields['result']
    if outcome == 'ok':
        ctx.prove(And(ok, err == 0), 'C02:O2.8.sync-returns-only-on-success')
        ctx.prove(ret is res, 'C02:O2.8.sync-returns-own-result')
    else:
        ctx.prove(ret.typ == 'SyncObjException', 'C02:O2.8.sync-raises-SyncObjException', info=ret.typ)
        code = ret.fields.get('errorCode')
        if isinstance(code, str):
            ctx.prove(And(Not(ok), code == 'Timeout'), 'C02:O2.8.sync-raises-on-error')
        else:
            ctx.prove(And(ok, err != 0, Eq(code, err)), 'C02:O2.8.sync-raises-on-error')


def _mut_pop_to_get(fn):
    cnt = 0
    for n in ast.walk(fn):
        if isinstance(n, ast.Call) and isinstance(n.func, ast.Attribute) and n.func.attr == 'pop' and n.args and \
                isinstance(n.args[0], ast.Constant) and n.args[0].value == 'timeout':
            n.func.attr = 'get'
            cnt += 1
    return cnt


def _mut_ignore_error(fn):
    cnt = 0
    for n in ast.walk(fn):
        if isinstance(n, ast.If) and isinstance(n.test, ast.UnaryOp) and any(isinstance(x, ast.Attribute) and x.attr == 'error' for x in ast.walk(n.test)):
            n.test = ast.Constant(value=False)
            cnt += 1
    return cnt
