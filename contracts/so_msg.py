"""Contracts on SyncObj.__onMessageReceived, one unit per message type (DESIGN §3.2, §3.3, appendix A)."""
import ast
import z3
from pyvc.values import *   # noqa
from pyvc.harness import unit, mutate_function, replace_compare
from pyvc.loops import LoopSpec, loop_table, Sel

MATCH_LOOP = Sel('while', header=('matched',))
ROLLBACK_LOOP = Sel('for', body=('__doChangeCluster', 'reverse=True'))
APPEND_LOOP = Sel('for', body=('__raftLog.add',))
APPLY_CHANGES_LOOP = Sel('for', body=('__doChangeCluster',), not_body=('__raftLog.add', 'reverse=True'))
from pyvc.ctx import Undecided
from pyvc.interp import PyExc
from .so_common import *    # noqa
from .so_common import F, _clen, _ctype
from .so_tick import LEADER, CAND, FOLL

HANDLER = 'SyncObj.__onMessageReceived'
INL = {'SyncObj.__onBecomeLeader', 'SyncObj.__onLeaderChanged'}


def mk_msg(ctx, d):
    return ctx.alloc(PDict(d))


def sent(ctx):
    return [x for x in ctx.glist('outbox')]


def peer(ctx, so, name='node'):
    n = node_in_universe(ctx, name, so.U)
    ctx.track(name, n)
    return n


def common_frame(ctx, old, so, names, tag):
    for n, b in field_unchanged(old, so, names):
        ctx.prove(b, '%s.frame.%s' % (tag, n))


# ----------------------------------------------------------------------------------------- request_vote
@unit(name='msg.request_vote', relpath=MOD, qual=[HANDLER], props=['C03', 'C18', 'C07'],
      doc='R1, R2 (A3): vote granted only for the current term after step-up, to an up-to-date candidate, once per term',
      assumptions=['A-CLOCK', 'universe'], trusted=['T-TRANSPORT'],
      canaries=[
          ('drop-voted-check', lambda mod: mutate_function(mod, HANDLER, _mut_drop_voted_check), ['R2.single-vote-per-term']),
          ('drop-index-check', lambda mod: mutate_function(mod, HANDLER, _mut_drop_index_check), ['R2.candidate-log-up-to-date']),
          ('drop-selfnode-guard', lambda mod: mutate_function(mod, HANDLER, _mut_drop_selfnode_guard), ['O18.1.readonly-never-votes']),
      ])
def msg_request_vote(ctx):
    so = SO(ctx, UNIVERSE())
    so.assume_inv()
    node = peer(ctx, so)
    mt, lli, llt = FreshInt('msgTerm'), FreshInt('msgLastIdx'), FreshInt('msgLastTerm')
    for k, v in (('msg.term', mt), ('msg.last_log_index', lli), ('msg.last_log_term', llt)):
        ctx.track(k, v)
    ctx.assume(mt >= 0)
    msg = mk_msg(ctx, {'type': 'request_vote', 'term': mt, 'last_log_index': lli, 'last_log_term': llt})
    old = so.snapshot()
    I = make_interp(ctx, so, registry=SUMMARIES, inline=INL)
    kind, v = run_method(I, so, HANDLER, [node, msg])
    ctx.prove(kind == 'ok', 'C03:request_vote.no-exception', info=getattr(v, 'typ', None))
    t0, t1 = old.get('raftCurrentTerm'), so.get('raftCurrentTerm')
    vf0, vf1 = old.get('votedForNodeId'), so.get('votedForNodeId')
    r0, r1 = old.get('raftState'), so.get('raftState')
    sn = so.get('selfNode')
    readonly = sn.isnone
    out = sent(ctx)
    log = so.log()
    # C18: a node without own address ignores vote requests completely
    if ctx.decide(readonly, 'readonly'):
        ctx.prove(len(out) == 0, 'C18:O18.1.readonly-never-votes')
        common_frame(ctx, old, so, ['raftCurrentTerm', 'votedForNodeId', 'raftState', 'raftLog', 'raftCommitIndex'], 'C18:O18.1.readonly')
        return
    stepped = mt > t0
    ctx.prove(t1 == Max(t0, mt), 'C03+C07:R1.term-is-max')
    ctx.prove(Implies(stepped, r1 == FOLL), 'C03:R1.stepdown-on-higher-term')
    ctx.prove(Implies(Not(stepped), r1 == r0), 'C03:R1.role-kept-without-higher-term')
    granted = len(out) > 0
    ctx.prove(len(out) <= 1, 'C03:R2.at-most-one-reply')
    if granted:
        to, m = out[0]
        ctx.prove(And(Eq(to, node), m.items.get('type') == 'response_vote'), 'C03:R2.reply-goes-to-requester')
        ctx.prove(Eq(m.items['term'], mt), 'C03:R2.reply-carries-request-term')
        ctx.prove(mt == t1, 'C03+C07:R2.vote-only-for-current-term')
        ctx.prove(Eq(vf1, NodeId(node.idx)), 'C03+C07:R2.vote-recorded')
        ctx.prove(Implies(Not(stepped), Eq(vf0, None)), 'C03+C07+C01+C04:R2.single-vote-per-term')
        lt, li = log.term_at(log.last_idx()), log.last_idx()
        ctx.prove(Or(llt > lt, And(llt == lt, lli >= li)), 'C03+C01+C04:R2.candidate-log-up-to-date')
        ctx.prove(r1 != LEADER, 'C03:R2.leader-does-not-vote')
    else:
        ctx.prove(Implies(Not(stepped), Eq(vf1, vf0)), 'C03+C07:R1.vote-unchanged-without-grant')
        ctx.prove(Implies(stepped, Eq(vf1, None)), 'C03+C07:R1.vote-cleared-on-higher-term')
    ctx.prove(Or(Eq(vf1, vf0), stepped, Eq(vf0, None)), 'C03+C07:R1.vote-changes-only-from-none-or-new-term')
    common_frame(ctx, old, so, ['raftLog', 'raftCommitIndex', 'raftLastApplied', 'otherNodes', 'raftMatchIndex', 'votesCount'],
                 'C03+C04:request_vote')
    so.prove_inv('*:request_vote')


def _mut_drop_voted_check(fn):
    cnt = 0
    for n in ast.walk(fn):
        if isinstance(n, ast.If) and isinstance(n.test, ast.Compare) and isinstance(n.test.left, ast.Attribute) \
                and n.test.left.attr == '__votedForNodeId' and isinstance(n.test.ops[0], ast.IsNot):
            n.test = ast.Constant(value=False)
            cnt += 1
    return cnt


def _mut_drop_index_check(fn):
    cnt = 0
    for n in ast.walk(fn):
        if isinstance(n, ast.If) and isinstance(n.test, ast.BoolOp) and any(
                isinstance(x, ast.Name) and x.id == 'lastLogIdx' for x in ast.walk(n.test)):
            n.test = ast.Constant(value=False)
            cnt += 1
    return cnt


def _mut_drop_selfnode_guard(fn):
    cnt = 0
    for n in ast.walk(fn):
        if isinstance(n, ast.If) and isinstance(n.test, ast.BoolOp) and isinstance(n.test.op, ast.And) and \
                any(isinstance(x, ast.Constant) and x.value == 'request_vote' for x in ast.walk(n.test)):
            n.test = n.test.values[0]
            cnt += 1
    return cnt


# ----------------------------------------------------------------------------------------- response_vote
@unit(name='msg.response_vote', relpath=MOD, qual=[HANDLER, 'SyncObj.__onBecomeLeader'], props=['C03', 'C18'],
      doc='R3 (A5), R4 (A7): votes counted only as candidate of that term; leader iff votes > (n+1)/2; on election '
          'nextIndex/matchIndex reset and a no-op of the own term appended',
      assumptions=['A-CLOCK', 'universe'], trusted=['T-TRANSPORT'],
      canaries=[
          ('majority-ge', lambda mod: mutate_function(mod, HANDLER, lambda fn: replace_compare(
              fn, lambda n: isinstance(n.left, ast.Attribute) and n.left.attr == '__votesCount', ast.Gt, ast.GtE, 0)),
           ['R3.leader-only-with-majority']),
          ('count-any-term', lambda mod: mutate_function(mod, HANDLER, _mut_count_any_term), ['R3.stale-vote-ignored']),
      ])
def msg_response_vote(ctx):
    so = SO(ctx, UNIVERSE())
    so.assume_inv()
    node = peer(ctx, so)
    mt = FreshInt('msgTerm')
    ctx.track('msg.term', mt)
    msg = mk_msg(ctx, {'type': 'response_vote', 'term': mt})
    old = so.snapshot()
    I = make_interp(ctx, so, registry=SUMMARIES, inline=INL)
    kind, v = run_method(I, so, HANDLER, [node, msg])
    ctx.prove(kind == 'ok', 'C03:response_vote.no-exception', info=getattr(v, 'typ', None))
    r0, r1 = old.get('raftState'), so.get('raftState')
    t0, t1 = old.get('raftCurrentTerm'), so.get('raftCurrentTerm')
    v0, v1 = old.get('votesCount'), so.get('votesCount')
    nv = so.nvoters(old)
    counted = And(r0 == CAND, mt == t0)
    ctx.prove(t1 == t0, 'C03+C07:R1.term-unchanged')
    ctx.prove(Eq(so.get('votedForNodeId'), old.get('votedForNodeId')), 'C03+C07:R1.vote-unchanged')
    ctx.prove(Implies(counted, v1 == v0 + 1), 'C03+C01+C04:R3.vote-counted-once')
    ctx.prove(Implies(Not(counted), And(v1 == v0, r1 == r0)), 'C03+C20+C01+C04:R3.stale-vote-ignored')
    ctx.prove(Implies(And(r1 == LEADER, r0 != LEADER), And(counted, majority(v1, nv))), 'C03+C01+C04:R3.leader-only-with-majority')
    ctx.prove(Implies(And(counted, Not(majority(v0 + 1, nv))), r1 == CAND), 'C03+C01+C04:R3.stays-candidate-below-majority')
    ctx.prove(Implies(so.get('selfNode').isnone, r1 == FOLL), 'C18:O18.1.readonly-stays-follower')
    log, olog = so.log(), old.get('raftLog')
    became = And(r1 == LEADER, r0 != LEADER)
    if ctx.decide(became, 'became-leader'):
        # R4 on the real __onBecomeLeader (inlined): log' = log ++ [(NO_OP, last+1, term)]
        ctx.prove(And(log.n == olog.n + 1, Eq(log.first, olog.first)), 'C03:R4.noop-appended')
        ctx.prove(And(log.termf(to_z3(olog.n)) == t0, _ctype(log.cmdf(to_z3(olog.n))) == 1), 'C03:R4.noop-has-own-term')
        j = FreshInt('j')
        ctx.assume(And(j >= 0, j < olog.n))
        ctx.prove(And(log.termf(j) == olog.termf(j), log.cmdf(j) == olog.cmdf(j)), 'C03:R5.leader-keeps-existing-entries')
        ctx.prove(Eq(so.get('noopIDx'), olog.last_idx() + 1), 'C10+C04+C01:R4.noop-index-recorded')
        ctx.prove(Eq(so.get('raftLeader'), NodeV(so.U)), 'C03:R4.leader-is-self')
        mt_, voters, obs = so.cell('raftMatchIndex'), so.cell('otherNodes').bits, so.cell('readonlyNodes').bits
        ctx.prove(And(*[Implies(Or(voters[i], obs[i]), And(mt_.pres[i], Eq(mt_.vals[i], 0))) for i in range(so.U)]),
                  'C03+C04+C01:R4.matchIndex-reset')
        lr = so.cell('lastResponseTime')
        ctx.prove(And(*[Implies(voters[i], lr.pres[i]) for i in range(so.U)]), 'C20:R4.lastResponse-initialised')
    else:
        ctx.prove(log_same(olog, log), 'C03+C04:response_vote.log-unchanged')
        # O20.2: the response times the fallback check reads are refreshed by a vote only at the moment the node becomes leader
        for n_, b_ in field_unchanged(old, so, ['lastResponseTime', 'raftMatchIndex', 'raftNextIndex']):
            ctx.prove(b_, 'C20+C04:O20.2.vote-without-election-leaves-leader-maps.%s' % n_)
    common_frame(ctx, old, so, ['raftCommitIndex', 'raftLastApplied', 'otherNodes'], 'C03+C04:response_vote')
    so.prove_inv('*:response_vote')


def _mut_count_any_term(fn):
    cnt = 0
    for n in ast.walk(fn):
        if isinstance(n, ast.If) and isinstance(n.test, ast.BoolOp) and any(
                isinstance(x, ast.Constant) and x.value == 'response_vote' for x in ast.walk(n.test)):
            n.test = n.test.values[0]
            cnt += 1
    return cnt


# ----------------------------------------------------------------------------------------- next_node_idx
@unit(name='msg.next_node_idx', relpath=MOD, qual=[HANDLER], props=['C04', 'C20', 'C01'],
      doc='R10 (A6): matchIndex only grows and only from a success reply; lastResponseTime refreshed on any reply',
      assumptions=['A-CLOCK', 'universe'],
      cases=[{'U': None}],
      canaries=[
          ('match-without-success', lambda mod: mutate_function(mod, HANDLER, _mut_match_without_success), ['R10.match-only-from-success']),
      ])
def msg_next_node_idx(ctx, U=None):
    so = SO(ctx, UNIVERSE())
    so.assume_inv()
    node = peer(ctx, so)
    nni, reset, succ = FreshInt('msgNextIdx'), FreshBool('msgReset'), FreshBool('msgSuccess')
    for k, v in (('msg.next_node_idx', nni), ('msg.reset', reset), ('msg.success', succ)):
        ctx.track(k, v)
    msg = mk_msg(ctx, {'type': 'next_node_idx', 'next_node_idx': nni, 'reset': reset, 'success': succ})
    # the sender is a node the leader tracks (voter or observer): otherwise matchIndex[node] raises KeyError
    known = Or(*[And(Eq(node.idx, i), Or(so.cell('otherNodes').bits[i], so.cell('readonlyNodes').bits[i])) for i in range(so.U)])
    old = so.snapshot()
    I = make_interp(ctx, so, registry=SUMMARIES, inline=INL)
    kind, v = run_method(I, so, HANDLER, [node, msg])
    ctx.prove(Implies(known, kind == 'ok'), 'C04:next_node_idx.no-exception-for-tracked-sender', info=getattr(v, 'typ', None))
    if kind != 'ok':
        return
    r0 = old.get('raftState')
    m0, m1 = old.get('raftMatchIndex'), so.cell('raftMatchIndex')
    n0, n1 = old.get('raftNextIndex'), so.cell('raftNextIndex')
    l0, l1 = old.get('lastResponseTime'), so.cell('lastResponseTime')
    isl = r0 == LEADER
    for i in range(so.U):
        me = Eq(node.idx, i)
        ctx.prove(Implies(And(isl, me, m0.pres[i]), m1.vals[i] == Max(m0.vals[i], Ite(succ, nni - 1, m0.vals[i]))),
                  'C04+C01:R10.match-is-max-of-old-and-acked')
        ctx.prove(Implies(And(m0.pres[i], m1.vals[i] != m0.vals[i]), And(isl, me, succ, m1.vals[i] == nni - 1, m1.vals[i] > m0.vals[i])),
                  'C04+C01:R10.match-only-from-success')
        ctx.prove(Implies(Not(And(isl, me)), And(Iff(m1.pres[i], m0.pres[i]), Iff(n1.pres[i], n0.pres[i]),
                                                 Implies(n0.pres[i], n1.vals[i] == n0.vals[i]),
                                                 Iff(l1.pres[i], l0.pres[i]), Implies(l0.pres[i], l1.vals[i] == l0.vals[i]))),
                  'C04+C20+C01:R10.other-nodes-untouched')
        ctx.prove(Implies(And(isl, me, reset, Not(And(succ, m0.vals[i] < nni - 1))), n1.vals[i] == nni), 'C01:R10.reset-sets-nextIndex')
        ctx.prove(Implies(And(isl, me), And(l1.pres[i], l1.vals[i] >= so.now)), 'C20:O20.2.lastResponse-refreshed-on-reply')
    common_frame(ctx, old, so, ['raftCommitIndex', 'raftLastApplied', 'raftCurrentTerm', 'votedForNodeId', 'raftState', 'raftLog',
                                'otherNodes'], 'C04+C03:next_node_idx')


def _mut_match_without_success(fn):
    cnt = 0
    for n in ast.walk(fn):
        if isinstance(n, ast.If) and isinstance(n.test, ast.Name) and n.test.id == 'success':
            n.test = ast.Constant(value=True)
            cnt += 1
    return cnt


# ----------------------------------------------------------------------------------------- append_entries
def log_equals(ctx, a, b, tag):
    """extensional equality of two journals as a goal (fresh index = skolem constant)"""
    j = FreshInt('j')
    return And(Eq(a.first, b.first), Eq(a.n, b.n),
               Implies(And(j >= 0, j < to_z3(a.n)), And(a.termf(j) == b.termf(j), a.cmdf(j) == b.cmdf(j))))


def _match_loop_spec(so, old, E, p):
    """loop #0: `while matched < len(newEntries) and ... prevEntries[matched+1][2] == newEntries[matched][2]: matched += 1`
    invariant: 0 <= matched <= len(E), p+matched <= last, and the first `matched` entries of the message have the
    terms of the journal entries at the same indices"""
    olog = old.get('raftLog')
    base = to_z3(p) - to_z3(olog.first) + 1

    def inv(I, fr, it):
        mt = fr.locals['matched']
        j = z3.Int('jm')
        agree = z3.ForAll([j], z3.Implies(z3.And(j >= 0, j < to_z3(mt)), olog.termf(base + j) == E.tf(j)))
        return [('range', And(mt >= 0, mt <= to_z3(E.n), to_z3(p) + mt <= olog.last_idx())),
                ('matched-prefix-has-equal-terms', agree if is_sym(mt) else True)]
    return LoopSpec('C01+C04:R7.match-loop', inv, quant=True)


def _append_loop_spec(so, old, E, p):
    """loop #2: `for entry in newEntries[matched:]: self.__raftLog.add(*entry)`.
    Constructive invariant: after k iterations the journal is (journal at loop entry) ++ E[matched : matched+k]."""
    st = {}

    def form(I, fr, k):
        ent = st['entry']
        mt = to_z3(fr.locals['matched'])
        n0 = to_z3(ent.n)
        k = to_z3(k)
        return LogCell(ent.first, n0 + k,
                       (lambda i: z3.If(i < n0, ent.cmdf(i), E.cf(mt + i - n0))),
                       (lambda i: z3.If(i < n0, ent.termf(i), E.tf(mt + i - n0))), ent.meta_commit)

    def inv(I, fr, it):
        if not is_sym(it['k']) and it['k'] == 0 and 'entry' not in st:
            st['entry'] = so.log()
        return []

    def construct(I, fr, it):
        I.ctx.setcell(so.get('raftLog'), form(I, fr, it['k']))

    def check(I, fr, it):
        if 'entry' not in st:
            return []
        return [('journal-is-entry-state-plus-new-entries', log_equals(I.ctx, so.log(), form(I, fr, it['k']), 'x'))]

    return LoopSpec('C01+C04:R7.append-loop', inv, construct=construct, check=check)


def ae_message(ctx, so, kind):
    mt, lc = FreshInt('msgTerm'), FreshInt('msgCommit')
    ctx.track('msg.term', mt)
    ctx.track('msg.commit_index', lc)
    ctx.assume(And(mt >= 0))
    d = {'type': 'append_entries', 'term': mt, 'commit_index': lc}
    extra = {}
    if kind in ('regular', 'start', 'process', 'finish'):
        p, pt = FreshInt('prevLogIdx'), FreshInt('prevLogTerm')
        ctx.track('msg.prevLogIdx', p)
        ctx.track('msg.prevLogTerm', pt)
        d['prevLogIdx'], d['prevLogTerm'] = p, pt
        extra.update(p=p, pt=pt)
        if kind == 'regular':
            E = fresh_entries(ctx, 'entries', p + 1)
            ctx.track('msg.entries_len', E.n)
            ctx.track('msg.entries_terms_0_3', [E.tf(z3.IntVal(i)) for i in range(4)])
            d['entries'] = ctx.alloc(E)
            extra['E'] = E
        else:
            d['transmission'] = kind
            n = FreshInt('chunkLen')
            ctx.assume(n >= 0)
            d['data'] = ChunkData(n, kind)
    elif kind == 'snapshot':
        d['serialized'] = Opt(FreshBool('noChunk'), SnapChunk())
    return ctx.alloc(PDict(d)), mt, lc, extra


class SnapChunk(object):
    kinds = ('tuple',)


def loadDump_summary(I, selfv, args, kwargs):
    """effect of __loadDumpFile(clearJournal=True) used at the install-snapshot call site (O1.5): journal becomes the
    dump's two entries (contiguous, A-DUMP), lastApplied = index of the second; membership / code-version
    effects are proved on the real body in unit `loadDumpFile`.  May also fail and leave everything as it
    was (the body catches every exception)."""
    ctx = I.ctx
    so = I.hooks['so']
    clear = kwargs.get('clearJournal', args[0] if args else None)
    if ctx.decide(FreshBool('dumpLoadFails'), 'dump-load-fails'):
        return False
    prev_idx = FreshInt('dumpPrevIdx')
    ctx.assume(prev_idx >= 1)
    cf = z3.Function(fresh_name('dump_cmd'), z3.IntSort(), z3.IntSort())
    tf = z3.Function(fresh_name('dump_term'), z3.IntSort(), z3.IntSort())
    old = so.log()
    ctx.setcell(so.get('raftLog'), LogCell(prev_idx, 2, (lambda i: cf(i)), (lambda i: tf(i)), old.meta_commit))
    c = ctx.cell(so.selfref)
    ctx.setcell(so.selfref, c.with_field(F('raftLastApplied'), prev_idx + 1))
    ctx.ghost['dump_loaded'] = ctx.glist('dump_loaded') + [prev_idx + 1]
    if I.hooks.get('dump_changes_members', True):
        # with dynamic membership the member set and its maps are replaced by the dump's
        dyn = so.conf('dynamicMembershipChange')
        for nm in ('otherNodes',):
            cell = so.cell(nm)
            ctx.setcell(so.get(nm), NSet([Ite(dyn, FreshBool('dumpVoter'), b) if i < so.U else False for i, b in enumerate(cell.bits)]))
    return True


def setTransmissionData_ext(I, selfv, args, kwargs):
    """Serializer.setTransmissionData (contract proved in unit serializer.setTransmissionData): returns True exactly
    when this chunk completed a dump; None input gives False"""
    ch = args[0]
    if ch is None:
        return False
    done = FreshBool('snapshotComplete')
    if isinstance(ch, Opt):
        I.ctx.assume(Implies(ch.isnone, Not(done)))
    I.ctx.ghost['snap_done'] = I.ctx.glist('snap_done') + [done]
    return done


def loads_recvbuf(I, buf):
    """T-PICKLE + G_chunk: the re-assembled bytes are dumps(entry) of one entry with index prevLogIdx+1"""
    I.ctx.ghost['unpickled_buf'] = I.ctx.glist('unpickled_buf') + [buf]
    p = I.hooks['ae_prev']
    cid, t = FreshInt('chunkedCmd'), FreshInt('chunkedTerm')
    I.ctx.track('chunked.term', t)
    return (CmdV(cid), p + 1, t)


AE_CASES = [dict(kind=k) for k in ('regular', 'start', 'process', 'finish', 'snapshot', 'bare')]


@unit(name='msg.append_entries', relpath=MOD, qual=[HANDLER], props=['C01', 'C04', 'C03', 'C06', 'C02', 'C11'], cases=AE_CASES,
      doc='R1, R6, R7, R8 (A2) and O1.5 on the follower side of append_entries; dynamic membership off in this unit '
          '(membership effects: unit msg.append_entries.membership)',
      assumptions=['R_AE: entries of a message are contiguous from prevLogIdx+1 (G_AE of any sender)', 'A-CLOCK', 'universe',
                   'A-DUMP: the two entries of a dump are contiguous'],
      trusted=['T-TRANSPORT', 'T-PICKLE'],
      canaries=[
          ('drop-term-mismatch-reject', lambda mod: mutate_function(mod, HANDLER, _mut_drop_prevterm_check), ['R6.reject-leaves-log-and-commit', 'R6.accept-only-if-prev-matches']),
          ('commit-unbounded', lambda mod: mutate_function(mod, HANDLER, _mut_commit_unbounded), ['R8.commit-within-verified-prefix']),
          ('reply-before-append', lambda mod: mutate_function(mod, HANDLER, _mut_reply_before_append), ['O6.1.ack-after-append']),
      ])
def msg_append_entries(ctx, kind):
    so = SO(ctx, UNIVERSE())
    so.assume_inv()
    ctx.assume(Not(so.conf('dynamicMembershipChange')))
    node = peer(ctx, so)
    msg, mt, lc, ex = ae_message(ctx, so, kind)
    if kind in ('start', 'process', 'finish'):
        # the receive buffer may hold chunks of an earlier, possibly interrupted, transfer (any number of bytes, possibly none)
        n_e = FreshInt('earlierBytes')
        ctx.assume(n_e >= 0)
        ctx.track('bytes already buffered', n_e)
        earlier = ChunkData(n_e, 'earlier')
        c_ = ctx.cell(so.selfref)
        ctx.setcell(so.selfref, c_.with_field(F('recvTransmission'), recv_initial(ctx, so.mod, (earlier,))))
    old = so.snapshot()
    olog = old.get('raftLog')
    loops = {}
    hooks = {'loads_recvbuf': loads_recvbuf, 'ae_prev': ex.get('p'), 'dump_changes_members': False}
    if kind == 'regular':
        loops = {HANDLER: loop_table(so.mod, HANDLER, {MATCH_LOOP: _match_loop_spec(so, old, ex['E'], ex['p']),
                                                        APPEND_LOOP: _append_loop_spec(so, old, ex['E'], ex['p'])})}
    reg = dict(SUMMARIES)
    reg['SyncObj.__loadDumpFile'] = loadDump_summary
    reg['Serializer.setTransmissionData'] = setTransmissionData_ext
    I = make_interp(ctx, so, registry=reg, inline=INL, loops=loops, hooks=hooks)
    kindr, v = run_method(I, so, HANDLER, [node, msg])
    ctx.prove(kindr == 'ok', 'C01+C11:append_entries.no-exception', info=getattr(v, 'typ', None))
    if kindr != 'ok':
        return
    t0, t1 = old.get('raftCurrentTerm'), so.get('raftCurrentTerm')
    c0, c1 = old.get('raftCommitIndex'), so.get('raftCommitIndex')
    log = so.log()
    out = [x for x in sent(ctx)]
    if ctx.decide(mt < t0, 'stale-term'):
        ctx.prove(len(out) == 0, 'C03:R1.stale-leader-ignored.no-reply')
        common_frame(ctx, old, so, ['raftCurrentTerm', 'votedForNodeId', 'raftState', 'raftLog', 'raftCommitIndex', 'raftLeader',
                                    'raftLastApplied'], 'C03+C01:R1.stale-leader-ignored')
        return
    ctx.prove(t1 == Max(t0, mt), 'C03+C07:R1.term-is-max')
    ctx.prove(so.get('commandsLocalCounter') >= old.get('commandsLocalCounter'), 'C02:O2.3c.request-ids-never-reused.counter-monotone')
    ctx.prove(so.get('raftState') == FOLL, 'C03:R1.follower-after-append_entries')
    ctx.prove(Eq(so.get('raftLeader'), node), 'C03:leader-recorded')
    ctx.prove(Ite(mt > t0, Eq(so.get('votedForNodeId'), None), Eq(so.get('votedForNodeId'), old.get('votedForNodeId'))),
              'C03+C07:R1.vote-cleared-only-on-higher-term')
    ctx.prove(Eq(so.get('raftLastApplied'), old.get('raftLastApplied')) if kind != 'snapshot' else True, 'C04:append_entries.applied-unchanged')
    replies = [m for to, m in out if isinstance(m, PDict) and m.items.get('type') == 'next_node_idx']
    ctx.prove(And(*[Eq(to, node) for to, m in out]), 'C01:reply-target')
    if kind in ('start', 'process', 'finish'):
        # O11.4 reassembly: start resets the buffer to this chunk, process/finish append this chunk at the end, finish unpickles exactly
        # the accumulated bytes and empties the buffer
        p0, p1 = recv_parts(ctx, old.get('recvTransmission')), recv_parts(ctx, so.get('recvTransmission'))
        chunk = ctx.cell(msg).items['data']
        ctx.prove(p0 is not None and p1 is not None, 'C11:O11.4.receive-buffer-is-a-chunk-sequence', info=repr(so.get('recvTransmission')))
        if p0 is None or p1 is None:
            return
        if kind == 'start':
            ctx.prove(p1 == (chunk,), 'C11:O11.4.start-resets-the-buffer-to-this-chunk', info=repr(p1))
        elif kind == 'process':
            ctx.prove(p1 == p0 + (chunk,), 'C11:O11.4.process-appends-the-chunk-in-order', info=repr(p1))
        else:
            ub = ctx.glist('unpickled_buf')
            ctx.prove(len(ub) == 1 and recv_parts(ctx, ub[0]) == p0 + (chunk,), 'C11:O11.4.finish-unpickles-all-chunks-in-order')
            ctx.prove(p1 == (), 'C11:O11.4.finish-empties-the-buffer', info=repr(p1))
    if kind in ('start', 'process'):
        ctx.prove(log_same(olog, log), 'C01+C11:O11.4.partial-chunk-leaves-log')
        ctx.prove(c1 == c0, 'C01+C04+C02:R8.partial-chunk-leaves-commit')
        ctx.prove(And(len(replies) == 1, Eq(replies[0].items['success'], False), Eq(replies[0].items['reset'], False)),
                  'C11:O11.4.partial-chunk-reply')
        return
    if kind == 'bare':
        ctx.prove(log_same(olog, log), 'C01:R6.no-prev-no-snapshot-leaves-log')
        ctx.prove(c1 == c0, 'C01+C04+C02:R8.unverified-message-leaves-commit')
        return
    if kind == 'snapshot':
        done = ctx.glist('snap_done')
        loaded = ctx.glist('dump_loaded')
        if not loaded:
            ctx.prove(log_same(olog, log), 'C01+C09:O1.5.partial-snapshot-leaves-log')
            ctx.prove(c1 == c0, 'C01+C04+C02:R8.partial-snapshot-leaves-commit')
            ctx.prove(Eq(so.get('raftLastApplied'), old.get('raftLastApplied')), 'C01:O1.5.partial-snapshot-leaves-applied')
        else:
            v_idx = loaded[-1]
            ctx.prove(c1 <= Max(c0, Min(lc, v_idx)), 'C01+C04:R8.commit-within-verified-prefix')
            ctx.prove(And(len(replies) == 1, Eq(replies[0].items['success'], True), Eq(replies[0].items['next_node_idx'], v_idx + 1)),
                      'C01+C09:O1.5.snapshot-ack')
        ctx.prove(Implies(c1 != c0, Eq(log.meta_commit, c1)), 'C04+C06:commit-persisted')
        return
    # regular / finish
    p, pt = ex['p'], ex['pt']
    if kind == 'regular':
        E = ex['E']
        m = to_z3(E.n)
        eterm = lambda j: E.tf(j)
        ecmd = lambda j: E.cf(j)
    else:
        m = z3.IntVal(1)
        ent = [a for a in ctx.glist('log_ops') if a[0] == 'add']
        eterm = ecmd = None
    first0, last0 = to_z3(olog.first), olog.last_idx()
    inrange = And(p >= first0, p <= last0)
    accepted = And(inrange, olog.term_at(p) == pt)
    v_idx = p + m
    ctx.prove(len(replies) == 1, 'C01:exactly-one-reply')
    r = replies[0].items
    if ctx.decide(accepted, 'accepted'):
        ctx.prove(And(Eq(r['success'], True), Eq(r['next_node_idx'], v_idx + 1)), 'C01+C04:G.success-reply-names-verified-prefix')
        ctx.prove(Eq(log.first, olog.first), 'C01:R7.first-kept')
        ctx.prove(to_z3(log.n) >= p - first0 + 1 + m, 'C01+C04:R7.holds-all-message-entries')
        j = FreshInt('j')
        ctx.assume(And(j >= 0, j <= p - first0))
        ctx.prove(And(log.termf(j) == olog.termf(j), log.cmdf(j) == olog.cmdf(j)), 'C01+C04:R7.prefix-up-to-prev-kept')
        if kind == 'regular':
            q = FreshInt('q')
            ctx.assume(And(q >= 0, q < m))
            pos = p + 1 + q - first0
            ctx.prove(log.termf(pos) == eterm(q), 'C01+C04:R7.agrees-with-message-on-terms')
            ctx.prove(Or(log.cmdf(pos) == ecmd(q), And(p + 1 + q <= last0, olog.termf(pos) == eterm(q), log.cmdf(pos) == olog.cmdf(pos))),
                      'C01+C04:R7.entry-is-message-entry-or-kept-entry-of-same-term')
            # R7.a: an existing entry is removed only if it conflicts with an entry of the message
            w = FreshInt('w')
            ctx.assume(And(w > p, w <= last0))
            cq = FreshInt('cq')
            conflict_free = z3.ForAll([cq], z3.Implies(z3.And(cq >= 0, cq < m, p + 1 + cq <= last0),
                                                       olog.termf(p + 1 + cq - first0) == eterm(cq)))
            ctx.prove(Implies(conflict_free, And(log.has(w), log.term_at(w) == olog.term_at(w), log.cmdf(w - first0) == olog.cmdf(w - first0))),
                      'C04+C01:R7.no-deletion-without-conflict')
        ctx.prove(c1 <= Max(c0, Min(lc, v_idx)), 'C01+C04+C02:R8.commit-within-verified-prefix')
        ctx.prove(c1 >= c0, 'C04+C01:R8.commit-monotone')
        ctx.prove(Implies(And(lc > c0, v_idx > c0), c1 > c0), 'C01:R8.commit-advances-when-leader-ahead')
        ctx.prove(Implies(c1 != c0, Eq(log.meta_commit, c1)), 'C04+C06:commit-persisted')
        # O6.1: every journal append precedes the acknowledgement (checked on the ghost event order)
        ctx.prove(_acks_after_appends(ctx), 'C06:O6.1.ack-after-append')
    else:
        ctx.prove(log_same(olog, log), 'C01+C04:R6.reject-leaves-log-and-commit')
        ctx.prove(c1 == c0, 'C01+C04:R6.reject-leaves-commit')
        ctx.prove(And(Eq(r['success'], False), Eq(r['reset'], True)), 'C01:R6.reject-reply')
        ctx.prove(Eq(r['next_node_idx'], Ite(inrange, p, last0 + 1)), 'C01:R6.reject-reply-next')
    so.prove_inv('*:append_entries')


def _acks_after_appends(ctx):
    ev = ctx.glist('events')
    seen_ack = False
    for e in ev:
        if e == 'ack':
            seen_ack = True
        elif e == 'add' and seen_ack:
            return False
    return True


def _mut_drop_prevterm_check(fn):
    cnt = 0
    for n in ast.walk(fn):
        if isinstance(n, ast.If) and isinstance(n.test, ast.Compare) and any(
                isinstance(x, ast.Name) and x.id == 'prevLogTerm' for x in ast.walk(n.test)):
            n.test = ast.Constant(value=False)
            cnt += 1
    return cnt


def _mut_commit_unbounded(fn):
    cnt = 0
    for n in ast.walk(fn):
        if isinstance(n, ast.Call) and isinstance(n.func, ast.Name) and n.func.id == 'min' and any(
                isinstance(x, ast.Name) and x.id == 'leaderCommitIndex' for x in ast.walk(n)):
            n.func = ast.Name(id='max', ctx=ast.Load())
            cnt += 1
    return cnt


def _mut_reply_before_append(fn):
    """move the success reply in front of the append loop"""
    for n in ast.walk(fn):
        body = getattr(n, 'body', None)
        if not isinstance(body, list):
            continue
        idx_loop = [i for i, s in enumerate(body) if isinstance(s, ast.For) and 'raftLog.add' in ast.dump(s).replace("attr='__raftLog'", 'raftLog').replace("attr='add'", '.add') or
                    (isinstance(s, ast.For) and any(isinstance(x, ast.Attribute) and x.attr == 'add' for x in ast.walk(s)))]
        idx_reply = [i for i, s in enumerate(body) if isinstance(s, ast.Expr) and isinstance(s.value, ast.Call) and
                     isinstance(s.value.func, ast.Attribute) and s.value.func.attr == '__sendNextNodeIdx' and
                     any(k.arg == 'success' and isinstance(k.value, ast.Constant) and k.value.value is True for k in s.value.keywords)]
        if idx_loop and idx_reply and idx_reply[-1] > idx_loop[0]:
            st = body.pop(idx_reply[-1])
            st.value.keywords = [k for k in st.value.keywords if k.arg != 'nextNodeIdx']
            body.insert(idx_loop[0], st)
            return 1
    return 0


# ----------------------------------------------------------------------------------------- append_entries with dynamic membership (O10.3)
def _member_havoc(so):
    def havoc(I, fr):
        from pyvc.loops import havoc_like
        ctx = I.ctx
        for nm in ('otherNodes', 'raftNextIndex', 'raftMatchIndex', 'lastResponseTime'):
            havoc_like(ctx, so.get(nm), nm)
        v = so.cell('otherNodes')
        ctx.setcell(so.get('otherNodes'), NSet(v.bits[:so.U] + [False]))
        ctx.ghost['membership'] = []
    return havoc


def _rollback_loop_spec(so, old, E, p):
    """loop #1: `for entry in reversed(prevEntries[matched+1:])` - must visit exactly the entries about to be deleted, last first"""
    olog = old.get('raftLog')

    def inv(I, fr, it):
        out = []
        if not is_sym(it['k']) and it['k'] == 0:
            seq = it['seq']
            mt = to_z3(fr.locals['matched'])
            last0 = olog.last_idx()
            j = FreshInt('rj')
            out.append(('visits-exactly-the-deleted-entries', Eq(seq.n, last0 - to_z3(p) - mt)))
            e = seq.get(j)
            out.append(('visits-them-last-first', Implies(And(j >= 0, j < to_z3(seq.n)), And(Eq(e[1], last0 - j), Eq(e[2], olog.term_at(last0 - j)),
                                                                                           Eq(e[0].id, olog.cmd_at(last0 - j))))))
        return out

    def check(I, fr, it):
        ent = fr.locals.get('entry')
        if not isinstance(ent, tuple) or not is_sym(it['k']):
            return []
        mem = I.ctx.glist('membership')
        cid = to_z3(ent[0].id)
        ismem = _ctype(cid) == 2
        out = [('reverses-iff-membership-entry', Iff(ismem, True) if mem else Not(ismem)),
               ('at-most-one-change-per-entry', len(mem) <= 1)]
        for kind, node, rev in mem:
            out.append(('applied-in-reverse-direction', rev is True))
        return out
    return LoopSpec('C10:O10.3.rollback-loop', inv, havoc=_member_havoc(so), check=check)


def _apply_changes_loop_spec(so, old, E, p):
    """loop #3: `for entry in newEntries[matched:]` - must visit exactly the appended entries, in order"""
    def inv(I, fr, it):
        out = []
        if not is_sym(it['k']) and it['k'] == 0:
            seq = it['seq']
            mt = to_z3(fr.locals['matched'])
            j = FreshInt('aj')
            out.append(('visits-exactly-the-appended-entries', Eq(seq.n, to_z3(E.n) - mt)))
            e = seq.get(j)
            out.append(('visits-them-in-order', Implies(And(j >= 0, j < to_z3(seq.n)), And(Eq(e[1], to_z3(p) + 1 + mt + j), Eq(e[2], E.tf(mt + j)), Eq(e[0].id, E.cf(mt + j))))))
        return out

    def check(I, fr, it):
        ent = fr.locals.get('entry')
        if not isinstance(ent, tuple) or not is_sym(it['k']):
            return []
        mem = I.ctx.glist('membership')
        ismem = _ctype(to_z3(ent[0].id)) == 2
        out = [('applies-iff-membership-entry', Iff(ismem, True) if mem else Not(ismem)), ('at-most-one-change-per-entry', len(mem) <= 1)]
        for kind, node, rev in mem:
            out.append(('applied-in-forward-direction', rev is False))
        return out
    return LoopSpec('C10:O10.3.apply-loop', inv, havoc=_member_havoc(so), check=check)


@unit(name='msg.append_entries.membership', relpath=MOD, qual=[HANDLER], props=['C10'],
      doc='O10.3: with dynamic membership a follower reverses, last first, exactly the membership entries it is about to delete and applies, '
          'in order, exactly the membership entries it appends (the member set follows the log: effective when appended, reverted '
          'when truncated)',
      assumptions=['R_AE', 'A-CMD'], trusted=['T-TRANSPORT', 'T-PICKLE'],
      canaries=[('rollback-forward', lambda mod: mutate_function(mod, HANDLER, _mut_rollback_forward), ['O10.3.rollback-loop.init.visits-them-last-first'])])
def msg_append_entries_membership(ctx):
    from .so_apply import APPLY_REG
    so = SO(ctx, min(UNIVERSE(), 3))
    so.assume_inv()
    ctx.assume(so.conf('dynamicMembershipChange'))
    node = peer(ctx, so)
    msg, mt, lc, ex = ae_message(ctx, so, 'regular')
    old = so.snapshot()
    E, p = ex['E'], ex['p']
    loops = {HANDLER: loop_table(so.mod, HANDLER, {MATCH_LOOP: _match_loop_spec(so, old, E, p), ROLLBACK_LOOP: _rollback_loop_spec(so, old, E, p),
                                                    APPEND_LOOP: _append_loop_spec(so, old, E, p), APPLY_CHANGES_LOOP: _apply_changes_loop_spec(so, old, E, p)})}
    reg = dict(APPLY_REG)
    I = make_interp(ctx, so, registry=reg, inline=INL, loops=loops)
    kindr, v = run_method(I, so, HANDLER, [node, msg])
    ctx.prove(kindr == 'ok', 'C10:O10.3.no-exception', info=getattr(v, 'typ', None))


def _mut_rollback_forward(fn):
    cnt = 0
    for n in ast.walk(fn):
        if isinstance(n, ast.For) and isinstance(n.iter, ast.Call) and isinstance(n.iter.func, ast.Name) and n.iter.func.id == 'reversed':
            n.iter = n.iter.args[0]
            cnt += 1
    return cnt
