"""Contracts on the tick: leader block (R9 / C04, fallback / C20), election block (R1,R3 / C03, C18), hasQuorum."""
import ast
import z3
from pyvc.values import *   # noqa
from pyvc.harness import unit, mutate_function, replace_compare
from pyvc.loops import LoopSpec, loop_table, Sel
from pyvc.ctx import Undecided
from pyvc import source
from .so_common import *    # noqa
from .so_common import F, _clen, _ctype

LEADER, CAND, FOLL = 2, 1, 0
COMMIT_LOOP = Sel('while', header=('commitIdx',))


def _leader_block(mod):
    fn, ci = mod.find('SyncObj._onTick')
    if fn is None:
        raise Undecided('SyncObj._onTick not found')
    ss = [s for s in fn.body if isinstance(s, ast.If) and has_node(s, ast.While)
          and 'LEADER' in (mod.segment(s.test) or '')]
    if len(ss) != 1:
        raise Undecided('leader block of _onTick not located (found %d candidates)' % len(ss))
    return ss[0]


def _election_block(mod):
    fn, ci = mod.find('SyncObj._onTick')
    ss = [s for s in fn.body if isinstance(s, ast.If) and 'CANDIDATE' in (mod.segment(s.test) or '')
          and has_node(s, ast.Attribute, lambda n: n.attr == '__raftElectionDeadline')]
    if len(ss) != 1:
        raise Undecided('election block of _onTick not located (found %d candidates)' % len(ss))
    return ss[0]


def _commit_loop_spec(so, old):
    c0 = old.get('raftCommitIndex')

    def inv(I, fr, it):
        L = fr.locals
        cidx, nxt = L['commitIdx'], L['nextCommitIdx']
        log = so.log()
        last = log.last_idx()
        voters = so.cell('otherNodes').bits
        match = so.cell('raftMatchIndex').vals
        nv = so.nvoters()
        term = so.get('raftCurrentTerm')
        maj = majority(count_voters(voters, [m >= nxt for m in match]), nv)
        return [
            ('order', And(c0 <= nxt, nxt <= cidx)),
            ('bound', cidx <= Max(last, c0)),
            ('R9', Implies(nxt > c0, And(nxt <= last, maj, log.term_at(nxt) == term))),
        ]
    return LoopSpec('C04+C01+C18+C20:R9.loop', inv)


@unit(name='tick.leader', relpath=MOD, qual=['SyncObj._onTick', 'SyncObj.__getEntries'], props=['C04', 'C20', 'C01', 'C18'],
      kind='region of _onTick: the `if self.__raftState == LEADER:` block with the commit loop (X7)',
      assumptions=['A-CLOCK', 'A-REAL', 'universe'], trusted=['T-TRANSPORT'],
      doc='R9: commit index advances only to a majority-matched entry of the current term; fallback rule of C20',
      canaries=[
          ('drop-term-check', lambda mod: mutate_function(mod, 'SyncObj._onTick', _mut_drop_term_check), ['R9.majority-and-term', 'R9.loop.step.R9']),
          ('count-lt', lambda mod: mutate_function(mod, 'SyncObj._onTick', lambda fn: replace_compare(
              fn, lambda n: isinstance(n.left, ast.Name) and n.left.id == 'count', ast.LtE, ast.Lt, 0)), ['R9.loop.step.R9', 'R9.majority-and-term']),
          ('fallback-lt', lambda mod: mutate_function(mod, 'SyncObj._onTick', lambda fn: replace_compare(
              fn, lambda n: isinstance(n.left, ast.Name) and n.left.id == 'count', ast.LtE, ast.Lt, 1)), ['O20.1.leader-implies-majority-heard']),
          ('commit-count-observers', lambda mod: mutate_function(mod, 'SyncObj._onTick', _mut_count_observers), ['O18.2.commit-independent-of-observers', 'R9.loop.step.R9', 'R9.majority-and-term']),
      ])
def tick_leader(ctx):
    so = SO(ctx, UNIVERSE())
    so.assume_inv()
    ctx.assume(so.get('raftState') == LEADER)
    old = so.snapshot()
    blk = _leader_block(so.mod)
    loops = {'SyncObj._onTick': loop_table(so.mod, 'SyncObj._onTick', {COMMIT_LOOP: _commit_loop_spec(so, old)})}
    I = make_interp(ctx, so, registry=SUMMARIES, loops=loops)
    kind, v, fr = run_region(I, so, 'SyncObj._onTick', [blk])
    ctx.prove(kind == 'ok', 'C04+C20+C11:leader-block.no-exception', info='outcome %s %s' % (kind, getattr(v, 'typ', '')))
    c0, c1 = old.get('raftCommitIndex'), so.get('raftCommitIndex')
    log = so.log()
    oldlog = old.get('raftLog')
    voters = so.cell('otherNodes').bits
    match = so.cell('raftMatchIndex').vals
    nv = so.nvoters()
    term = so.get('raftCurrentTerm')
    ctx.prove(c1 >= c0, 'C04+C01:R9.commit-monotone')
    ctx.prove(Implies(c1 > c0, And(c1 <= log.last_idx(),
                                   majority(count_voters(voters, [m >= c1 for m in match]), nv),
                                   log.term_at(c1) == term)), 'C04+C01:R9.majority-and-term')
    ctx.prove(Implies(c1 != c0, Eq(log.meta_commit, c1)), 'C04+C06:R9.persisted-commit-is-memory-commit')
    # frame
    for n, b in field_unchanged(old, so, ['raftCurrentTerm', 'votedForNodeId', 'otherNodes', 'raftMatchIndex', 'raftNextIndex',
                                          'raftLastApplied', 'lastResponseTime']):
        ctx.prove(b, 'C04+C03+C20:leader-block.frame.%s' % n)
    ctx.prove(And(Eq(log.first, oldlog.first), Eq(log.n, oldlog.n), log.cmdf is oldlog.cmdf, log.termf is oldlog.termf),
              'C04+C03:R5.leader-never-rewrites-log')
    # C20 fallback
    role1 = so.get('raftState')
    now = ctx.ghost['clock'][-1]
    lr = so.cell('lastResponseTime').vals
    heard = count_voters(voters, [t > now - so.conf('leaderFallbackTimeout') for t in lr])
    ctx.prove(Implies(role1 == LEADER, majority(heard, nv)), 'C20:O20.1.leader-implies-majority-heard')
    ctx.prove(Implies(role1 != LEADER, And(role1 == FOLL, Eq(so.get('raftLeader'), None))), 'C20:O20.1.stepdown-to-follower')
    ctx.prove(Implies(majority(heard, nv), role1 == LEADER), 'C20:O20.1.no-spurious-stepdown')
    # C18: the outcome does not depend on observers' data: re-state with observers' match/lastResp values havoc'd
    obs = so.cell('readonlyNodes').bits
    match2 = [ite_val(o, FreshInt('obsmatch'), m) if o is not False else m for o, m in zip(obs, match)]
    lr2 = [ite_val(o, FreshReal('obsresp'), t) if o is not False else t for o, t in zip(obs, lr)]
    ctx.prove(Implies(c1 > c0, majority(count_voters(voters, [m >= c1 for m in match2]), nv)), 'C18:O18.2.commit-independent-of-observers')
    heard2 = count_voters(voters, [t > now - so.conf('leaderFallbackTimeout') for t in lr2])
    ctx.prove(Iff(role1 == LEADER, majority(heard2, nv)), 'C18:O18.2.fallback-independent-of-observers')
    so.prove_inv('*:leader-block')


def _mut_drop_term_check(fn):
    cnt = 0
    for n in ast.walk(fn):
        if isinstance(n, ast.If) and isinstance(n.test, ast.Compare) and isinstance(n.test.left, ast.Name) \
                and n.test.left.id == 'commitTerm':
            n.test = ast.Constant(value=False)
            cnt += 1
    return cnt


def _mut_count_observers(fn):
    cnt = 0
    for n in ast.walk(fn):
        if isinstance(n, ast.While):
            for f in ast.walk(n):
                if isinstance(f, ast.For) and isinstance(f.iter, ast.Attribute) and f.iter.attr == '__otherNodes':
                    f.iter = ast.BinOp(left=f.iter, op=ast.BitOr(),
                                       right=ast.Attribute(value=ast.Name(id='self', ctx=ast.Load()), attr='__readonlyNodes', ctx=ast.Load()))
                    cnt += 1
    return cnt


@unit(name='tick.not-leader', relpath=MOD, qual=['SyncObj._onTick'], props=['C04', 'C20'],
      kind='region of _onTick (leader block) entered as non-leader', doc='a non-leader never moves its commit index in the leader block')
def tick_not_leader(ctx):
    so = SO(ctx, UNIVERSE())
    so.assume_inv()
    ctx.assume(so.get('raftState') != LEADER)
    old = so.snapshot()
    blk = _leader_block(so.mod)
    I = make_interp(ctx, so, registry=SUMMARIES)
    kind, v, fr = run_region(I, so, 'SyncObj._onTick', [blk])
    ctx.prove(kind == 'ok', 'C04:leader-block.nonleader.no-exception')
    for n, b in field_unchanged(old, so, ['raftCommitIndex', 'raftState', 'raftCurrentTerm', 'raftLog']):
        ctx.prove(b, 'C04+C20:leader-block.nonleader.unchanged.%s' % n)


@unit(name='hasQuorum', relpath=MOD, qual=['SyncObj.hasQuorum'], props=['C20', 'C18'],
      doc='O20.3: hasQuorum <=> |voters ∩ connected| + s > (|voters| + s)/2',
      canaries=[('gt-to-ge', lambda mod: mutate_function(mod, 'SyncObj.hasQuorum', lambda fn: replace_compare(
          fn, lambda n: True, ast.Gt, ast.GtE, 0)), ['O20.3.hasQuorum-iff-majority-connected'])])
def has_quorum(ctx):
    so = SO(ctx, UNIVERSE())
    so.assume_inv()
    I = make_interp(ctx, so)
    old = so.snapshot()
    kind, v = run_method(I, so, 'SyncObj.hasQuorum')
    ctx.prove(kind == 'ok', 'C20:O20.3.no-exception')
    voters = so.cell('otherNodes').bits
    conn = so.cell('connectedNodes').bits
    sn = so.get('selfNode')
    s = B2I(Not(sn.isnone))
    cc = Sum([B2I(And(a, b)) for a, b in zip(voters, conn)]) + s
    nn = so.nvoters() + s
    ctx.prove(Iff(I.truth_expr(v), to_real(cc) > to_real(nn) / 2), 'C20:O20.3.hasQuorum-iff-majority-connected')
    obs = so.cell('readonlyNodes').bits
    conn2 = [ite_val(o, FreshBool('obsconn'), c) if o is not False else c for o, c in zip(obs, conn)]
    cc2 = Sum([B2I(And(a, b)) for a, b in zip(voters, conn2)]) + s
    ctx.prove(Iff(I.truth_expr(v), to_real(cc2) > to_real(nn) / 2), 'C18:O18.2.hasQuorum-independent-of-observers')
    for n, b in field_unchanged(old, so, ['otherNodes', 'connectedNodes', 'raftState']):
        ctx.prove(b, 'C20:O20.3.pure.%s' % n)


@unit(name='tick.election', relpath=MOD, qual=['SyncObj._onTick', 'SyncObj.__onBecomeLeader', 'SyncObj.__onLeaderChanged'],
      props=['C03', 'C18', 'C02', 'C07'],
      kind='region of _onTick: the election block `if self.__raftState in (FOLLOWER, CANDIDATE) and self.__selfNode is not None:`',
      doc='A4: candidacy increments the term once, votes for itself, asks every voter with its true last index/term; '
          'leader at once only with a majority of one; read-only nodes never start elections',
      assumptions=['A-CLOCK', 'universe'], trusted=['T-TRANSPORT'],
      cases=[dict(role=r, readonly=False) for r in (0, 1, 2)] + [dict(role=0, readonly=True)],   # I5: a node without address is always FOLLOWER
      canaries=[
          ('drop-selfnode-guard', lambda mod: mutate_function(mod, 'SyncObj._onTick', _mut_election_drop_selfnode), ['O18.1.readonly-never-candidate']),
          ('no-self-vote-reset', lambda mod: mutate_function(mod, 'SyncObj._onTick', _mut_votes_not_reset), ['A4.candidate-state']),
      ])
def tick_election(ctx, role, readonly):
    so = SO(ctx, UNIVERSE())
    so.assume_inv()
    ctx.assume(so.get('raftState') == role)
    ctx.assume(so.get('selfNode').isnone if readonly else Not(so.get('selfNode').isnone))
    old = so.snapshot()
    blk = _election_block(so.mod)
    I = make_interp(ctx, so, registry=SUMMARIES, inline={'SyncObj.__onBecomeLeader', 'SyncObj.__onLeaderChanged'})
    kind, v, fr = run_region(I, so, 'SyncObj._onTick', [blk])
    ctx.prove(kind == 'ok', 'C03:election.no-exception', info=getattr(v, 'typ', None))
    if kind != 'ok':
        return
    t0, t1 = old.get('raftCurrentTerm'), so.get('raftCurrentTerm')
    r0, r1 = old.get('raftState'), so.get('raftState')
    vf0, vf1 = old.get('votedForNodeId'), so.get('votedForNodeId')
    readonly = so.get('selfNode').isnone
    olog = old.get('raftLog')
    nv = so.nvoters(old)
    out = [(to, m) for to, m in ctx.glist('outbox') if isinstance(m, PDict)]
    rv = [(to, m) for to, m in out if m.items.get('type') == 'request_vote']
    started = t1 != t0
    ctx.prove(Or(t1 == t0, t1 == t0 + 1), 'C03+C07:R1.term-increments-by-one-at-most')
    ctx.prove(Implies(readonly, And(t1 == t0, r1 == r0, Eq(vf1, vf0))), 'C18:O18.1.readonly-never-candidate')
    ctx.prove(Implies(readonly, len(rv) == 0), 'C18:O18.1.readonly-sends-no-vote-request')
    ctx.prove(Implies(r0 == LEADER, And(t1 == t0, r1 == r0, Eq(vf1, vf0))), 'C03:A4.leader-does-not-start-election')
    if ctx.decide(started, 'election-started'):
        ctx.prove(And(Eq(vf1, NodeId(so.U)), Or(r1 == CAND, r1 == LEADER)), 'C03+C07:A4.candidate-state')
        ctx.prove(Implies(r1 == CAND, so.get('votesCount') == 1), 'C03+C07:A4.votes-reset-to-self-vote')
        ctx.prove(Implies(r1 == LEADER, majority(1, nv)), 'C03+C01+C04:R3.leader-at-once-only-with-majority-of-one')
        voters = old.get('otherNodes').bits
        for i in range(so.U):
            n_i = sum(1 for to, m in rv if to.idx == i)
            ctx.prove(Implies(voters[i], n_i == 1) if n_i != 1 else True, 'C03:A4.request-sent-to-every-voter')
            ctx.prove(Implies(Not(voters[i]), n_i == 0) if n_i != 0 else True, 'C03+C18:A4.request-only-to-voters')
        for to, m in rv:
            ctx.prove(And(Eq(m.items['term'], t1), Eq(m.items['last_log_index'], olog.last_idx()),
                          Eq(m.items['last_log_term'], olog.term_at(olog.last_idx()))), 'C03:G.request_vote-carries-true-log-position')
        # O2.6: every forwarded command waiting for the old leader's reply is told LEADER_CHANGED exactly once
        slots = old.get('commandsWaitingReply').entries
        cbs = ctx.glist('cb')
        for j, (p, rid, cb) in enumerate(slots):
            cnt = sum(1 for f, a in cbs if f.tag == cb.tag)
            if ctx.decide(p, 'pending-reply-%d' % j) if is_sym(p) else p:
                ctx.prove(cnt == 1, 'C02:O2.6.pending-forwarded-callback-fired-once')
                for f, a in cbs:
                    if f.tag == cb.tag:
                        ctx.prove(And(a[0] is None, Eq(a[1], 5)), 'C02:O2.6.reason-is-LEADER_CHANGED')
            else:
                ctx.prove(cnt == 0, 'C02:O2.6.absent-callback-not-fired')
        ctx.prove(I.truth_expr(so.get('commandsWaitingReply')) is False or Not(I.truth_expr(so.get('commandsWaitingReply'))),
                  'C02:O2.6.map-emptied')
    else:
        ctx.prove(And(r1 == r0, Eq(vf1, vf0), so.get('votesCount') == old.get('votesCount')), 'C03:A4.no-election-no-change')
        ctx.prove(len(rv) == 0, 'C03:A4.no-election-no-vote-request')
    if ctx.decide(And(r1 == LEADER, r0 != LEADER), 'became-leader'):
        log = so.log()
        ctx.prove(And(log.n == olog.n + 1, log.termf(to_z3(olog.n)) == t1), 'C03:R4.noop-of-new-term-appended')
    else:
        ctx.prove(log_same(olog, so.log()), 'C03+C04:election.log-unchanged')
    for n, b in field_unchanged(old, so, ['raftCommitIndex', 'raftLastApplied', 'otherNodes']):
        ctx.prove(b, 'C03+C04:election.frame.%s' % n)
    ctx.prove(so.get('commandsLocalCounter') >= old.get('commandsLocalCounter'), 'C02:O2.3c.request-ids-never-reused.counter-monotone')
    so.prove_inv('*:election')


def _mut_election_drop_selfnode(fn):
    cnt = 0
    for n in ast.walk(fn):
        if isinstance(n, ast.If) and isinstance(n.test, ast.BoolOp) and any(
                isinstance(x, ast.Attribute) and x.attr == 'CANDIDATE' for x in ast.walk(n.test)) and len(n.test.values) == 2:
            n.test = n.test.values[0]
            cnt += 1
    return cnt


def _mut_votes_not_reset(fn):
    cnt = 0
    for n in ast.walk(fn):
        body = getattr(n, 'body', None)
        if isinstance(body, list):
            for s in list(body):
                if isinstance(s, ast.Assign) and isinstance(s.targets[0], ast.Attribute) and s.targets[0].attr == '__votedForNodeId' \
                        and not (isinstance(s.value, ast.Constant) and s.value.value is None) and n.__class__.__name__ == 'If' \
                        and any(isinstance(x, ast.Attribute) and x.attr == '__raftElectionDeadline' for x in ast.walk(n.test)):
                    body.remove(s)
                    cnt += 1
    return cnt


# ------------------------------------------------------------------------------------------------ __getEntries against its summary
def _batch_loop_spec(ctx, st):
    """loop of __getEntries over enumerate(result): totalSize accumulates command lengths; it stops at the first entry at which the
    running total reaches maxSizeBytes.  Invariant: i is the index of the last visited entry, and no earlier prefix reached the limit."""
    def inv(I, fr, it):
        k = it['k']
        L = fr.locals
        out = [('total-nonneg', L['totalSize'] >= 0)]
        if is_sym(k):
            from pyvc.loops import UNINIT
            iv = L.get('i', UNINIT)
            out.append(('index-is-last-visited', Implies(k >= 1, Eq(iv, k - 1) if iv is not UNINIT and iv is not None else False)))
            out.append(('limit-not-reached-before', Implies(k >= 1, L['totalSize'] < L['maxSizeBytes'])))
            out.append(('first-entry-counted', Implies(k >= 1, L['totalSize'] >= st['first_len'])))
        return out
    return LoopSpec('C11+C01:O11.2.batch-loop', inv)


@unit(name='getEntries', relpath=MOD, qual=['SyncObj.__getEntries'], props=['C01', 'C11', 'C04'],
      cases=[dict(count=c, maxsize=m) for c in (False, True) for m in (False, True)],
      doc='O1.1/O11.2: __getEntries(from, count, maxSize) is log[from-first : from-first+count] (clamped), [] when from is None or below the '
          'first index; with maxSize a non-empty prefix of it (at least one entry even if that alone exceeds the limit) that is a single '
          'entry when the first command alone reaches the limit - the contract every caller uses (summary getEntries_summary)',
      assumptions=['A-CMD'],
      canaries=[('off-by-one', lambda mod: mutate_function(mod, 'SyncObj.__getEntries', _mut_diff_plus_one), ['O1.1.elements']),
                ('drop-last', lambda mod: mutate_function(mod, 'SyncObj.__getEntries', _mut_return_i), ['O11.2.batch-non-empty'])])
def get_entries(ctx, count, maxsize):
    so = SO(ctx, 2)
    so.assume_inv()
    frm = FreshInt('fromIDx')
    ctx.track('fromIDx', frm)
    cnt = FreshInt('count') if count else None
    mx = FreshInt('maxSizeBytes') if maxsize else None
    if cnt is not None:
        ctx.assume(cnt >= 0)
        ctx.track('count', cnt)
    if mx is not None:
        ctx.track('maxSizeBytes', mx)
    log = so.log()
    first, n = to_z3(log.first), to_z3(log.n)
    d = frm - first
    st = {'first_len': _clen(log.cmdf(d))}
    # command lengths are non-negative
    q = z3.Int('q')
    ctx.assume(z3.ForAll([q], _clen(log.cmdf(q)) >= 0), quant=True)
    loops = {'SyncObj.__getEntries': loop_table(so.mod, 'SyncObj.__getEntries', {Sel('for', header=('enumerate',)): _batch_loop_spec(ctx, st)})}
    I = make_interp(ctx, so, loops=loops)
    kind, v = run_method(I, so, 'SyncObj.__getEntries', [frm, cnt, mx])
    ctx.prove(kind == 'ok', 'C01+C11:O1.1.no-exception', info=getattr(v, 'typ', None))
    if kind != 'ok':
        return
    res = as_slist(ctx.cell(v))
    avail = z3.If(d >= n, 0, n - d)
    if cnt is not None:
        avail = z3.If(avail > cnt, cnt, avail)
    full = z3.If(frm < first, 0, avail)
    rn = to_z3(res.n)
    if mx is None:
        ctx.prove(rn == full, 'C01+C04:O1.1.length')
    else:
        ctx.prove(And(rn <= full, Implies(full > 0, rn >= 1)), 'C11+C01:O11.2.batch-non-empty')
        ctx.prove(Implies(And(full > 0, _clen(log.cmdf(d)) >= mx), rn == 1), 'C11:O11.2.single-entry-when-first-reaches-limit')
    if not is_sym(res.n) and res.n == 0:
        return
    j = FreshInt('j')
    ctx.assume(And(j >= 0, j < rn))
    e = res.get(j)
    ctx.prove(And(e[1] == frm + j, e[2] == log.term_at(frm + j), Eq(e[0].id, log.cmd_at(frm + j)), frm + j <= log.last_idx(), frm >= first),
              'C01+C04+C11:O1.1.elements')


def _mut_diff_plus_one(fn):
    cnt = 0
    for n in ast.walk(fn):
        if isinstance(n, ast.Assign) and isinstance(n.targets[0], ast.Name) and n.targets[0].id == 'diff':
            n.value = ast.BinOp(left=n.value, op=ast.Add(), right=ast.Constant(value=1))
            cnt += 1
    return cnt


def _mut_return_i(fn):
    cnt = 0
    for n in ast.walk(fn):
        if isinstance(n, ast.Return) and isinstance(n.value, ast.Subscript) and isinstance(n.value.slice, ast.Slice) and isinstance(n.value.slice.upper, ast.BinOp):
            n.value.slice.upper = n.value.slice.upper.left
            cnt += 1
    return cnt


# ------------------------------------------------------------------------------------------------ connection notifications
@unit(name='node-notifications', relpath=MOD, qual=['SyncObj.__onReadonlyNodeConnected', 'SyncObj.__onReadonlyNodeDisconnected',
                                                    'SyncObj.__onNodeConnected', 'SyncObj.__onNodeDisconnected'], props=['C18', 'C04', 'C20'],
      doc='O18.3: observers joining or leaving change only the observer set, the connected set and their own nextIndex/matchIndex entries '
          '(I4 kept for a leader); voters, term, role, commit index and every voter\'s matchIndex are untouched; member (dis)connects '
          'change only the connected set')
def node_notifications(ctx):
    so = SO(ctx, UNIVERSE())
    so.assume_inv()
    idx = FreshInt('node')
    ctx.assume(And(idx >= 0, idx < so.U))
    node = NodeV(idx)
    # an observer is never a voter (observers carry counter ids, O14.1)
    which = FreshInt('which')
    for k, (meth, observer) in enumerate((('__onReadonlyNodeConnected', True), ('__onReadonlyNodeDisconnected', True),
                                          ('__onNodeConnected', False), ('__onNodeDisconnected', False))):
        if not ctx.decide(which == k, 'notification-%d' % k):
            continue
        if observer:
            ctx.assume(And(*[Not(And(idx == i, so.cell('otherNodes').bits[i])) for i in range(so.U)]))
        old = so.snapshot()
        I = make_interp(ctx, so)
        kind, v = run_method(I, so, 'SyncObj.' + meth, [node])
        ctx.prove(kind == 'ok', 'C18:O18.3.no-exception', info=getattr(v, 'typ', None))
        for n, b in field_unchanged(old, so, ['otherNodes', 'raftCurrentTerm', 'raftState', 'raftCommitIndex', 'votedForNodeId', 'raftLog',
                                              'lastResponseTime', 'raftLastApplied']):
            ctx.prove(b, 'C18+C04+C20+C03+C07:O18.3.frame.%s' % n)
        m0, m1 = old.get('raftMatchIndex'), so.cell('raftMatchIndex')
        v0 = old.get('otherNodes').bits
        for i in range(so.U):
            ctx.prove(Implies(v0[i], And(Iff(m1.pres[i], m0.pres[i]), Implies(m0.pres[i], Eq(m1.vals[i], m0.vals[i])))), 'C18+C04:O18.3.voter-matchIndex-untouched')
        if k == 0:
            # I4 for a leader: a joining observer gets nextIndex = last+1 and matchIndex = 0, and is marked connected
            n1, cn = so.cell('raftNextIndex'), so.cell('connectedNodes').bits
            for i in range(so.U):
                ctx.prove(Implies(idx == i, And(n1.pres[i], m1.pres[i], Eq(n1.vals[i], so.log().last_idx() + 1), Eq(m1.vals[i], 0),
                                               so.cell('readonlyNodes').bits[i], cn[i])), 'C18+C04:O18.3.joining-observer-initialised')
        if k == 1:
            n1 = so.cell('raftNextIndex')
            for i in range(so.U):
                ctx.prove(Implies(idx == i, And(Not(n1.pres[i]), Not(m1.pres[i]), Not(so.cell('readonlyNodes').bits[i]))), 'C18:O18.3.leaving-observer-forgotten')
        if not observer:
            for n, b in field_unchanged(old, so, ['readonlyNodes', 'raftMatchIndex', 'raftNextIndex']):
                ctx.prove(b, 'C18:O18.3.member-notification-touches-only-connected.%s' % n)
        c0, c1 = old.get('connectedNodes').bits, so.cell('connectedNodes').bits
        if k in (0, 2):
            ctx.prove(And(*[Iff(c1[i], Or(c0[i], idx == i)) for i in range(so.U)]), 'C18+C09:O18.3.connect-adds-exactly-that-node')
        else:
            ctx.prove(And(*[Iff(c1[i], And(c0[i], idx != i)) for i in range(so.U)]), 'C18+C09:O18.3.disconnect-removes-exactly-that-node')
        canc = ctx.glist('cancelled')
        if k == 3:
            # O9.7 (I10): a member whose connection is gone has no snapshot transfer state left on this node, so a transfer interrupted
            # by a disconnect restarts with its first chunk however quickly the connection comes back (chunks in flight are lost)
            ctx.prove(len(canc) == 1 and isinstance(canc[0], NodeV) and Eq(canc[0].idx, idx), 'C09:O9.7.disconnect-cancels-transfer')
        else:
            ctx.prove(len(canc) == 0 or all(isinstance(x, NodeV) and x.idx is idx for x in canc), 'C09:O9.7.only-own-transfer-cancelled')
        so.prove_inv('*:node-notifications')
        return
    raise_ = None


# ------------------------------------------------------------------------------------------------ the tick as a whole: orchestration
@unit(name='tick.orchestration', relpath=MOD, qual=['SyncObj._onTick'], props=['C06', 'C01', 'C09', 'C02'],
      cases=[dict(role=0), dict(role=2)],
      doc='_onTick as a sequence of calls (callee contracts as summaries that record the call): a dump file is loaded at most once, on the '
          'first ready tick, with clearJournal=False and before anything is applied (O6.3); committed entries are applied on every tick; '
          'append_entries are sent only by a leader; submissions are dispatched and compaction is tried once per tick; the journal\'s '
          'one-second timer is driven',
      assumptions=['X8: cut before self._poller.poll', 'the clock stands still within the tick (timing-dependent blocks: units tick.election, tick.leader)', 'universe of 2 other nodes'],
      canaries=[('load-clears-journal', lambda mod: mutate_function(mod, 'SyncObj._onTick', _mut_load_clears), ['O6.3.start-up-load-keeps-the-journal'])])
def tick_orchestration(ctx, role):
    so = SO(ctx, 2)
    so.assume_inv()
    ctx.assume(so.get('raftState') == role)
    if role == 0:
        # no election due in this tick (the election block is unit tick.election)
        ctx.assume(so.get('raftElectionDeadline') > so.now + 1000000)
    c = ctx.cell(so.selfref)
    need = FreshBool('needLoadDumpFile')
    ctx.setcell(so.selfref, c.with_field(F('needLoadDumpFile'), need).with_field(F('onTickCallbacks'), ctx.alloc(PList([])))
                .with_field(F('onTickCallbacksLock'), ctx.alloc(PObj('Lock', {}))))
    ev = []
    isfile = FreshBool('dumpFileExists')

    def rec(name, ret=None):
        def f(I, selfv, a, k):
            ev.append((name, tuple(a), dict(k)))
            return ret(I) if callable(ret) else ret
        return f
    reg = dict(SUMMARIES)
    reg.update({'SyncObj.__loadDumpFile': rec('loadDumpFile', True), 'SyncObj.__applyLogEntries': rec('applyLogEntries', lambda I: FreshBool('needSend')),
                'SyncObj.__sendAppendEntries': (lambda I, s_, a, k: ev.append(('sendAppendEntries', (so.get('raftState'),), {}))),
                'SyncObj._checkCommandsToApply': rec('checkCommandsToApply'),
                'SyncObj.__tryLogCompaction': rec('tryLogCompaction'), 'Poller.poll': rec('poll'), 'Transport.tryGetReady': rec('tryGetReady')})
    old = so.snapshot()
    loops = {'SyncObj._onTick': loop_table(so.mod, 'SyncObj._onTick', {COMMIT_LOOP: _commit_loop_spec(so, old)})}
    # the clock stands still during this tick: the timing-dependent blocks (election, fallback) have their own units
    frozen = lambda I_, a, k: so.now
    I = make_interp(ctx, so, registry=reg, loops=loops, inline={'SyncObj.__onBecomeLeader', 'SyncObj.__onLeaderChanged'},
                    externals={'os.path.isfile': lambda I_, a, k: isfile, 'monotonicTime': frozen, 'monotonic.monotonic': frozen})
    kind, v = run_method(I, so, 'SyncObj._onTick', [0.0])
    ctx.prove(kind == 'ok', 'C01+C06:tick.no-exception', info=getattr(v, 'typ', None))
    if kind != 'ok':
        return
    names = [e[0] for e in ev]
    loads = [e for e in ev if e[0] == 'loadDumpFile']
    has_dump = Not(so.conf('fullDumpFile').isnone)
    want_load = And(need, has_dump, isfile)
    ctx.prove(len(loads) <= 1, 'C06:O6.3.dump-loaded-at-most-once-per-tick')
    if loads:
        ctx.prove(want_load, 'C06+C09:O6.3.dump-loaded-only-on-the-first-ready-tick')
        ctx.prove(loads[0][2].get('clearJournal', loads[0][1][0] if loads[0][1] else None) is False, 'C06:O6.3.start-up-load-keeps-the-journal')
        ctx.prove(names.index('loadDumpFile') < names.index('applyLogEntries') if 'applyLogEntries' in names else False, 'C06+C01:O6.3.dump-loaded-before-anything-is-applied')
    else:
        ctx.prove(Not(want_load), 'C06+C09:O6.3.existing-dump-is-loaded-on-the-first-ready-tick')
    ctx.prove(Eq(so.get('needLoadDumpFile'), False), 'C06:O6.3.load-flag-cleared')
    ctx.prove(names.count('applyLogEntries') == 1, 'C01+C02:tick.committed-entries-applied-every-tick')
    ctx.prove(names.count('checkCommandsToApply') == 1 and names.count('tryLogCompaction') == 1, 'C02+C09:tick.submissions-and-compaction-once-per-tick')
    sends = [e for e in ev if e[0] == 'sendAppendEntries']
    for e in sends:
        ctx.prove(e[1][0] == 2, 'C01+C18:tick.only-a-leader-sends-append_entries')
    timer = [op for op in ctx.glist('log_ops') if op[0] == 'timer']
    ctx.prove(len(timer) <= 1, 'C04:tick.timer-at-most-once')


def _mut_load_clears(fn):
    cnt = 0
    for n in ast.walk(fn):
        if isinstance(n, ast.Call) and isinstance(n.func, ast.Attribute) and n.func.attr == '__loadDumpFile':
            for k in n.keywords:
                if k.arg == 'clearJournal':
                    k.value = ast.Constant(value=True)
                    cnt += 1
    return cnt
