"""C13: contracts on TcpConnection (send, __processSend, __processRead, __processParseMessage, read loop, disconnect).

Buffers are windows (array, lo, n) into byte arrays; frame payload validity and the decoded message are uninterpreted functions of
the payload window (T-ZLIB, T-PICKLE); the length field is the little-endian signed 32-bit value of the first four bytes
(T-STRUCT, little-endian platform)."""
import ast
import z3
from pyvc.values import *   # noqa
from pyvc.harness import unit, mutate_function, replace_compare
from pyvc.loops import LoopSpec, loop_table, Sel
from pyvc.ctx import Undecided
from pyvc.interp import Interp, PyExc, Frame, _Return
from pyvc import source
from pyvc.bytesmodel import ByteStr, to_bytestr, struct_pack, struct_unpack, struct_Struct, struct_axioms, struct_unpack_from, LE32, U32, TWO32, I_

TMOD = 'pysyncobj/tcp_connection.py'
TC = lambda n: '_TcpConnection__' + n
DISCONNECTED, CONNECTING, CONNECTED = 0, 1, 2
ARR = z3.ArraySort(I_, I_)
ZVALID = z3.Function('payload_zlib_valid', ARR, I_, I_, z3.BoolSort())       # zlib.decompress succeeds
PVALID = z3.Function('payload_pickle_valid', ARR, I_, I_, z3.BoolSort())     # pickle.loads of the decompressed bytes succeeds


def VALID(A, lo, n):
    return z3.And(ZVALID(A, lo, n), PVALID(A, lo, n))

MSGOF = z3.Function('payload_message', ARR, I_, I_, I_)              # the message they yield
ZARR = z3.Function('frame_payload_bytes', I_, ARR)                    # zlib.compress(pickle.dumps(m), 3)
ZLEN = z3.Function('frame_payload_len', I_, I_)


class Win(ByteStr):
    """bytes = window [lo, lo+n) of a z3 array"""

    def __init__(self, A, lo, n):
        self.A, self.lo = A, lo
        ByteStr.__init__(self, n, (lambda i, A=A, lo=lo: z3.Select(A, to_z3(lo) + to_z3(i))))

    def get_slice(self, I, lo, hi):
        n = self.n
        a = I.norm_index(0 if lo is None else lo, n)
        b = I.norm_index(n if hi is None else hi, n)
        b = Max(a, b)
        ln = b - a
        ln = z3.simplify(ln) if is_sym(ln) else ln
        nlo = to_z3(self.lo) + to_z3(a)
        return Win(self.A, z3.simplify(nlo), ln)

    def binop(self, I, op, other, swapped, inplace):
        if not isinstance(op, ast.Add):
            return NotImplemented
        o = to_bytestr(other)
        if o is None:
            return NotImplemented
        a, b = (o, self) if swapped else (self, o)
        return cat(a, b)

    def call_method(self, I, name, args, kw):
        # sep.join(list of bytes) with an empty separator: the concatenation of the items in order
        if name == 'join' and len(args) == 1 and not is_sym(self.n) and self.n == 0:
            c = I.ctx.cell(args[0]) if isinstance(args[0], Ref) else args[0]
            items = list(c.items) if isinstance(c, PList) else (list(c) if isinstance(c, tuple) else None)
            if items is None or any(to_bytestr(x) is None for x in items):
                return NotImplemented
            r = Win(z3.K(I_, z3.IntVal(0)), 0, 0)
            for x in items:
                r = cat(r, to_bytestr(x))
            return r
        return NotImplemented


def cat(a, b):
    k = z3.Int('ck')
    na = to_z3(a.n)
    A = z3.Lambda([k], z3.If(k < na, a.at(k), b.at(k - na)))
    w = Win(A, 0, a.n + b.n)
    w.parts = (a, b)
    return w


def fresh_win(ctx, base, minlen=0):
    A = z3.Const(fresh_name(base), ARR)
    n = FreshInt(base + '_len')
    ctx.assume(n >= minlen)
    return Win(A, 0, n)


def same_bytes(ctx, x, y):
    """x and y are the same byte string (goal form: lengths equal and bytes equal at a fresh index)"""
    j = FreshInt('bj')
    return And(Eq(x.n, y.n), Implies(And(j >= 0, j < to_z3(x.n)), x.at(j) == y.at(j)))


MSG_TRUTHY = z3.Function('msg_truthy', I_, z3.BoolSort())


class MsgV(Opaque):
    """a message value: any picklable object except None - it may well be falsy ('' , b'', 0, {}, [] are legal messages)"""

    def __init__(self, mid):
        Opaque.__init__(self, 'msg', mid)

    def truth(self, I):
        return MSG_TRUTHY(to_z3(self.id))


class PickleOf(object):
    def __init__(self, m):
        self.m = m


class Decompressed(object):
    def __init__(self, w):
        self.w = w


def ext_dumps(I, a, k):
    return PickleOf(a[0])


def ext_compress(I, a, k):
    p = a[0]
    if not isinstance(p, PickleOf) or not isinstance(p.m, MsgV):
        raise Undecided('zlib.compress of %r' % (p,))
    mid = to_z3(p.m.id)
    I.ctx.assume(ZLEN(mid) >= 1)
    I.ctx.assume(ZLEN(mid) < 2 ** 31)          # A-RANGE
    return Win(ZARR(mid), 0, ZLEN(mid))


def ext_decompress(I, a, k):
    w = a[0]
    if not isinstance(w, Win):
        raise Undecided('zlib.decompress of %r' % (w,))
    ok = ZVALID(w.A, to_z3(w.lo), to_z3(w.n))
    if not I.ctx.decide(ok, 'payload-zlib-valid'):
        I.raise_('ZlibError')
    return Decompressed(w)


def ext_loads(I, a, k):
    d = a[0]
    if not isinstance(d, Decompressed):
        raise Undecided('pickle.loads of %r' % (d,))
    w = d.w
    # T-PICKLE: unpickling bytes that are not a pickle of an importable value may raise *any* exception type
    # (UnpicklingError, EOFError, IndexError, KeyError, ImportError, AttributeError, ...)
    if not I.ctx.decide(PVALID(w.A, to_z3(w.lo), to_z3(w.n)), 'payload-pickle-valid'):
        from pyvc.interp import EXC_PARENT
        EXC_PARENT.setdefault('ArbitraryUnpickleError', 'Exception')
        I.raise_('ArbitraryUnpickleError')
    return MsgV(MSGOF(w.A, to_z3(w.lo), to_z3(w.n)))


def mk_conn(ctx, state=None):
    rbuf = fresh_win(ctx, 'rbuf')
    wbuf = fresh_win(ctx, 'wbuf')
    st = FreshInt('connState')
    ctx.assume(And(st >= 0, st <= 2))
    if state is not None:
        ctx.assume(st == state)
    sock = ctx.alloc(PObj('Socket', {}))
    poller = ctx.alloc(PObj('Poller', {}))
    f = {TC('socket'): Opt(FreshBool('noSocket'), sock), TC('readBuffer'): rbuf, TC('writeBuffer'): wbuf, TC('state'): st,
         TC('fileno'): Opt(FreshBool('noFileno'), FreshInt('fileno')), TC('poller'): poller, TC('lastReadTime'): FreshReal('lastRead'),
         TC('timeout'): FreshReal('timeout'), TC('recvBufferSize'): FreshInt('recvBufSize'), TC('sendBufferSize'): FreshInt('sendBufSize'),
         TC('onMessageReceived'): Opt(FreshBool('noMsgCb'), Callable_('cb:onMessageReceived')),
         TC('onDisconnected'): Opt(FreshBool('noDiscCb'), Callable_('cb:onDisconnected')),
         TC('onConnected'): Opt(FreshBool('noConnCb'), Callable_('cb:onConnected')),
         'sendRandKey': None, 'recvRandKey': None, 'recvLastTimestamp': 0, 'encryptor': None}
    # created by the real constructor (whatever it establishes beyond the fields below is in place), then put into the contract's symbolic state
    conn = None
    try:
        mod_ = source.load(TMOD)
        fn_, ci_ = mod_.find('TcpConnection.__init__')
        conn = ctx.alloc(PObj('TcpConnection', {}))
        I_c = Interp(ctx, registry=dict(REG), externals=dict(EXT), hooks={})
        I_c.cur_mod = mod_
        I_c.call_funcdef(fn_, mod_, 'TcpConnection', conn, [poller], {}, None, 'TcpConnection.__init__')
        c_ = ctx.cell(conn)
        for k_, v_ in f.items():
            c_ = c_.with_field(k_, v_)
        ctx.setcell(conn, c_)
    except (Undecided, PyExc, KeyError, AttributeError, TypeError, NameError):
        conn = ctx.alloc(PObj('TcpConnection', f))
    ctx.assume(f[TC('recvBufferSize')] >= 1)
    ctx.assume(f[TC('timeout')] > 0)
    ctx.track('len(readBuffer)', rbuf.n)
    ctx.track('len(writeBuffer)', wbuf.n)
    ctx.track('state', st)
    ctx.track('readBuffer[0:8]', [rbuf.at(z3.IntVal(k)) for k in range(8)])
    # connected => it has a socket and a descriptor
    ctx.assume(Implies(st != DISCONNECTED, And(Not(f[TC('socket')].isnone), Not(f[TC('fileno')].isnone))))
    return conn, rbuf, wbuf, st, sock


def fld(ctx, conn, n):
    return ctx.cell(conn).fields[TC(n)]


def disconnect_summary(I, selfv, args, kw):
    """contract of TcpConnection.disconnect (proved in unit tcp.disconnect): state DISCONNECTED, both buffers empty, socket and
    descriptor dropped, onDisconnected called once iff it is set and the connection was not already disconnected"""
    ctx = I.ctx
    c = ctx.cell(selfv)
    was = c.fields[TC('state')]
    cb = c.fields[TC('onDisconnected')]
    fire = And(Not(cb.isnone) if isinstance(cb, Opt) else (cb is not None), was != DISCONNECTED)
    ctx.ghost['disconnects'] = ctx.glist('disconnects') + [fire]
    empty = Win(z3.K(I_, z3.IntVal(0)), 0, 0)
    c = c.with_field(TC('state'), DISCONNECTED).with_field(TC('writeBuffer'), empty).with_field(TC('readBuffer'), empty)
    c = c.with_field(TC('socket'), None).with_field(TC('fileno'), None)
    ctx.setcell(selfv, c)
    return None


def cb_hook(I, f, args, kw):
    I.ctx.ghost['cb'] = I.ctx.glist('cb') + [(f.tag, tuple(args))]
    return None


def sock_send(I, selfv, args, kw):
    """T-SOCKET: send returns 0 <= r <= len(buf) (r bytes of the prefix went out) or raises socket.error with some errno"""
    ctx = I.ctx
    buf = args[0]
    if ctx.decide(FreshBool('sendRaises'), 'socket-send-raises'):
        again = FreshBool('errnoIsEAGAIN')
        ctx.ghost['send_errno_again'] = [again]
        I.raise_('OSError', errno=Ite(again, 11, 104))
    r = FreshInt('sent')
    ctx.assume(And(r >= 0, r <= to_z3(buf.n)))
    ctx.ghost['wire_out'] = ctx.glist('wire_out') + [(buf, r)]
    return r


def sock_recv(I, selfv, args, kw):
    ctx = I.ctx
    if ctx.decide(FreshBool('recvRaises'), 'socket-recv-raises'):
        again = FreshBool('errnoIsEAGAIN')
        ctx.ghost['recv_errno_again'] = [again]
        I.raise_('OSError', errno=Ite(again, 11, 104))
    w = fresh_win(ctx, 'incoming')
    ctx.assume(to_z3(w.n) <= to_z3(args[0]))
    ctx.ghost['wire_in'] = ctx.glist('wire_in') + [w]
    return w


def sock_getsockopt(I, selfv, args, kw):
    return FreshInt('soError')


REG = {'TcpConnection.disconnect': disconnect_summary, 'Socket.send': sock_send, 'Socket.recv': sock_recv, 'Socket.getsockopt': sock_getsockopt,
       'Socket.close': lambda I, s, a, k: None, 'Poller.unsubscribe': lambda I, s, a, k: I.ctx.glist('unsub').append(a[0]),
       'Poller.subscribe': lambda I, s, a, k: None}
EXT = {'struct.pack': struct_pack, 'struct.unpack': struct_unpack, 'struct.unpack_from': struct_unpack_from, 'struct.Struct': struct_Struct, 'zlib.compress': ext_compress, 'zlib.decompress': ext_decompress,
       'pickle.dumps': ext_dumps, 'pickle.loads': ext_loads,
       'monotonicTime': None, 'bytes': lambda I, a, k: Win(z3.K(I_, z3.IntVal(0)), 0, 0)}


def clock_ext(I, a, k):
    return FreshReal('now')


EXT['monotonicTime'] = clock_ext
EXT['monotonic.monotonic'] = clock_ext


def run_tc(ctx, conn, meth, args, registry=None, loops=None, inline=()):
    mod = source.load(TMOD)
    fn, ci = mod.find('TcpConnection.%s' % meth)
    if fn is None:
        raise Undecided('TcpConnection.%s not found' % meth)
    reg = dict(REG)
    reg.update(registry or {})
    I = Interp(ctx, registry=reg, externals=EXT, inline=set(inline), loop_invariants=loops or {}, hooks={'call:cb': cb_hook})
    try:
        return 'ok', I.call_funcdef(fn, mod, 'TcpConnection', conn, list(args), {}, None, 'TcpConnection.%s' % meth), I
    except PyExc as e:
        return e.typ, e, I


def s32(b0, b1, b2, b3):
    v = U32(b0, b1, b2, b3)
    return z3.If(v >= 2 ** 31, v - TWO32, v)


# ------------------------------------------------------------------------------------------------ parse
@unit(name='tcp.parse', relpath=TMOD, qual=['TcpConnection.__processParseMessage'], props=['C13'],
      doc='O13.4 (from the statement): fewer than 4 bytes, or a non-negative length field with an incomplete payload: None and the '
          'buffer is unchanged; complete valid frame: the message is returned and exactly 4+l bytes are consumed; negative length '
          'field or invalid payload: the connection is disconnected, nothing is returned, no exception escapes',
      assumptions=['no-crypto: encryptor is None', 'little-endian platform for the native "i" format', 'A-RANGE'],
      trusted=['T-STRUCT', 'T-ZLIB, T-PICKLE: validity and decoded message are functions of the payload bytes'],
      canaries=[('accept-negative-length', lambda mod: mutate_function(mod, 'TcpConnection.__processParseMessage', _mut_drop_negative_check), ['O13.4.negative-length-disconnects']),
                ('incomplete-le', lambda mod: mutate_function(mod, 'TcpConnection.__processParseMessage', lambda fn: replace_compare(
                    fn, lambda n: isinstance(n.left, ast.BinOp), ast.Lt, ast.LtE, 0)), ['O13.4.complete-valid-frame-delivered']),
                ('consume-wrong', lambda mod: mutate_function(mod, 'TcpConnection.__processParseMessage', _mut_consume_l), ['O13.4.consumes-exactly-the-frame'])])
def tcp_parse(ctx):
    conn, rbuf, wbuf, st, sock = mk_conn(ctx)
    outcome, r, I = run_tc(ctx, conn, '__processParseMessage', [])
    ctx.prove(outcome == 'ok', 'C13+C11:O13.4.no-exception-escapes', info=outcome)
    if outcome != 'ok':
        return
    n = to_z3(rbuf.n)
    l = s32(*[rbuf.at(z3.IntVal(k)) for k in range(4)])
    ctx.track('length_field', l)
    rb1 = fld(ctx, conn, 'readBuffer')
    disc = ctx.glist('disconnects')
    delivered = r is not None
    short = n < 4
    incomplete = And(n >= 4, l >= 0, n - 4 < l)
    complete = And(n >= 4, l >= 0, n - 4 >= l)
    valid = VALID(rbuf.A, to_z3(rbuf.lo) + 4, l)
    if delivered:
        ctx.prove(And(complete, valid), 'C13+C11:O13.4.delivers-only-complete-valid-frames')
        ctx.prove(isinstance(r, MsgV) and Eq(r.id, MSGOF(rbuf.A, to_z3(rbuf.lo) + 4, l)), 'C13+C11:O13.4.message-is-decoded-payload')
        ctx.prove(isinstance(rb1, Win) and rb1.A is rbuf.A and And(Eq(rb1.lo, to_z3(rbuf.lo) + 4 + l), Eq(rb1.n, n - 4 - l)), 'C13+C11:O13.4.consumes-exactly-the-frame')
        ctx.prove(len(disc) == 0, 'C13+C11:O13.4.no-disconnect-on-valid-frame')
    else:
        ctx.prove(Not(And(complete, valid)), 'C13+C11:O13.4.complete-valid-frame-delivered')
        if disc:
            ctx.prove(And(n >= 4, Or(l < 0, And(complete, Not(valid)))), 'C13+C11:O13.4.disconnects-only-on-invalid-frame')
        else:
            ctx.prove(Or(short, incomplete), 'C13+C11:O13.4.negative-length-disconnects' if True else '')
            ctx.prove(isinstance(rb1, Win) and rb1.A is rbuf.A and And(Eq(rb1.lo, rbuf.lo), Eq(rb1.n, rbuf.n)), 'C13+C11:O13.4.incomplete-frame-left-alone')


def _mut_drop_negative_check(fn):
    cnt = 0
    for s in list(fn.body):
        if isinstance(s, ast.If) and isinstance(s.test, ast.Compare) and isinstance(s.test.left, ast.Name) and s.test.left.id == 'l' \
                and isinstance(s.test.ops[0], ast.Lt):
            fn.body.remove(s)
            cnt += 1
    return cnt


def _mut_consume_l(fn):
    cnt = 0
    for n in ast.walk(fn):
        if isinstance(n, ast.Assign) and isinstance(n.targets[0], ast.Attribute) and n.targets[0].attr == '__readBuffer' and \
                isinstance(n.value, ast.Subscript) and isinstance(n.value.slice, ast.Slice) and n.value.slice.upper is None:
            n.value.slice.lower = ast.Name(id='l', ctx=ast.Load())
            cnt += 1
    return cnt


# ------------------------------------------------------------------------------------------------ send side
def trySend_summary(I, selfv, args, kw):
    I.ctx.ghost['trysend'] = I.ctx.glist('trysend') + [I.ctx.cell(selfv).fields[TC('writeBuffer')]]
    return None


@unit(name='tcp.send', relpath=TMOD, qual=['TcpConnection.send'], props=['C13'],
      doc='O13.1: send(m) appends exactly frame(m) = pack("i", len(z)) ++ z, z = compress(dumps(m)), to the write buffer, then tries to flush',
      canaries=[('length-of-message', lambda mod: mutate_function(mod, 'TcpConnection.send', _mut_len_plus_one), ['O13.1.appends-exactly-the-frame'])])
def tcp_send(ctx):
    conn, rbuf, wbuf, st, sock = mk_conn(ctx)
    mid = FreshInt('msg')
    outcome, r, I = run_tc(ctx, conn, 'send', [MsgV(mid)], registry={'TcpConnection.__trySendBuffer': trySend_summary})
    ctx.prove(outcome == 'ok', 'C13+C11:O13.1.no-exception', info=outcome)
    if outcome != 'ok':
        return
    ts = ctx.glist('trysend')
    ctx.prove(len(ts) == 1, 'C13+C11:O13.1.flush-attempted-once')
    wb1 = ts[0] if ts else fld(ctx, conn, 'writeBuffer')
    zl = ZLEN(mid)
    j = FreshInt('j')
    n0 = to_z3(wbuf.n)
    ctx.prove(Eq(wb1.n, n0 + 4 + zl), 'C13+C11:O13.1.appends-exactly-the-frame')
    ctx.prove(Implies(And(j >= 0, j < n0), wb1.at(j) == wbuf.at(j)), 'C13+C11:O13.1.pending-bytes-kept-in-front')
    want = [LE32[k](zl) for k in range(4)]
    for k in range(4):
        ctx.prove(wb1.at(n0 + k) == want[k], 'C13+C11:O13.1.length-field-is-payload-length')
    ctx.prove(Implies(And(j >= 0, j < zl), wb1.at(n0 + 4 + j) == z3.Select(ZARR(mid), j)), 'C13+C11:O13.1.payload-is-compressed-pickle')
    ctx.prove(Eq(fld(ctx, conn, 'readBuffer').n, rbuf.n), 'C13+C11:O13.1.read-side-untouched')


def _mut_len_plus_one(fn):
    cnt = 0
    for n in ast.walk(fn):
        if isinstance(n, ast.Call) and isinstance(n.func, ast.Attribute) and n.func.attr == 'pack':
            n.args[-1] = ast.BinOp(left=n.args[-1], op=ast.Add(), right=ast.Constant(value=1))
            cnt += 1
    return cnt


@unit(name='tcp.processSend', relpath=TMOD, qual=['TcpConnection.__processSend'], props=['C13'],
      doc='O13.2: for any socket result the bytes handed to the socket plus the remaining write buffer are the old write buffer, in '
          'order and none twice; returns True iff progress was made; a hard error disconnects, EAGAIN does not',
      trusted=['T-SOCKET'],
      canaries=[('skip-a-byte', lambda mod: mutate_function(mod, 'TcpConnection.__processSend', _mut_skip_byte), ['O13.2.remaining-is-unsent-suffix'])])
def tcp_process_send(ctx):
    conn, rbuf, wbuf, st, sock = mk_conn(ctx, CONNECTED)
    outcome, r, I = run_tc(ctx, conn, '__processSend', [])
    ctx.prove(outcome == 'ok', 'C13+C11:O13.2.no-exception-escapes', info=outcome)
    if outcome != 'ok':
        return
    wire = ctx.glist('wire_out')
    disc = ctx.glist('disconnects')
    wb1 = fld(ctx, conn, 'writeBuffer')
    n0 = to_z3(wbuf.n)
    res = I.truth_expr(r)
    if not wire:
        again = ctx.glist('send_errno_again')
        if again:
            ctx.prove(Iff(len(disc) == 1, Not(again[0])) if len(disc) <= 1 else False, 'C13+C11:O13.2.hard-error-disconnects-EAGAIN-does-not')
            if not disc:
                ctx.prove(wb1.A is wbuf.A and And(Eq(wb1.lo, wbuf.lo), Eq(wb1.n, wbuf.n)), 'C13+C11:O13.2.EAGAIN-keeps-buffer')
        else:
            ctx.prove(Eq(n0, 0) if not disc else False, 'C13+C11:O13.2.no-socket-call-only-when-buffer-empty')
        ctx.prove(Not(res), 'C13+C11:O13.2.no-progress-reported-false')
        return
    buf, sent = wire[0]
    ctx.prove(len(wire) == 1 and buf.A is wbuf.A and And(Eq(buf.lo, wbuf.lo), Eq(buf.n, wbuf.n)), 'C13+C11:O13.2.whole-buffer-offered-once')
    ctx.prove(len(disc) == 0, 'C13+C11:O13.2.no-disconnect-on-success')
    ctx.prove(isinstance(wb1, Win) and wb1.A is wbuf.A and And(Eq(wb1.lo, to_z3(wbuf.lo) + sent), Eq(wb1.n, n0 - sent)), 'C13+C11:O13.2.remaining-is-unsent-suffix')
    ctx.prove(Iff(res, sent > 0), 'C13+C11:O13.2.returns-true-iff-progress')


def _mut_skip_byte(fn):
    cnt = 0
    for n in ast.walk(fn):
        if isinstance(n, ast.Subscript) and isinstance(n.slice, ast.Slice) and isinstance(n.slice.lower, ast.Name) and n.slice.lower.id == 'res':
            n.slice.lower = ast.BinOp(left=n.slice.lower, op=ast.Add(), right=ast.Constant(value=1))
            cnt += 1
    return cnt


@unit(name='tcp.processRead', relpath=TMOD, qual=['TcpConnection.__processRead'], props=['C13'],
      doc='O13.3: readBuffer\' == readBuffer ++ incoming; EOF or a hard error disconnects; EAGAIN does nothing',
      trusted=['T-SOCKET'],
      canaries=[('prepend', lambda mod: mutate_function(mod, 'TcpConnection.__processRead', _mut_prepend), ['O13.3.appended-at-the-end'])])
def tcp_process_read(ctx):
    conn, rbuf, wbuf, st, sock = mk_conn(ctx, CONNECTED)
    outcome, r, I = run_tc(ctx, conn, '__processRead', [])
    ctx.prove(outcome == 'ok', 'C13+C11:O13.3.no-exception-escapes', info=outcome)
    if outcome != 'ok':
        return
    win = ctx.glist('wire_in')
    disc = ctx.glist('disconnects')
    rb1 = fld(ctx, conn, 'readBuffer')
    res = I.truth_expr(r)
    n0 = to_z3(rbuf.n)
    j = FreshInt('j')
    if not win:
        again = ctx.glist('recv_errno_again')
        ctx.prove(len(again) == 1 and Iff(len(disc) == 1, Not(again[0])), 'C13+C11:O13.3.hard-error-disconnects-EAGAIN-does-not')
        ctx.prove(Not(res), 'C13+C11:O13.3.no-data-reported-false')
        if not disc:
            ctx.prove(rb1.A is rbuf.A and And(Eq(rb1.lo, rbuf.lo), Eq(rb1.n, rbuf.n)), 'C13+C11:O13.3.EAGAIN-keeps-buffer')
        return
    inc = win[0]
    if disc:
        ctx.prove(Not(res), 'C13+C11:O13.3.disconnect-reported-false')
        return
    ctx.prove(to_z3(inc.n) > 0, 'C13+C11:O13.3.EOF-disconnects')
    ctx.prove(Eq(rb1.n, n0 + to_z3(inc.n)), 'C13+C11:O13.3.appended-at-the-end')
    ctx.prove(Implies(And(j >= 0, j < n0), rb1.at(j) == rbuf.at(j)), 'C13+C11:O13.3.old-bytes-kept-in-front')
    ctx.prove(Implies(And(j >= 0, j < to_z3(inc.n)), rb1.at(n0 + j) == inc.at(j)), 'C13+C11:O13.3.appended-at-the-end')
    ctx.prove(res, 'C13+C11:O13.3.data-reported-true')


def _mut_prepend(fn):
    cnt = 0
    for k, s in enumerate(fn.body):
        if isinstance(s, ast.AugAssign) and isinstance(s.target, ast.Attribute) and s.target.attr == '__readBuffer':
            fn.body[k] = ast.parse('self.__readBuffer = incoming + self.__readBuffer').body[0]
            cnt += 1
    return cnt


# ------------------------------------------------------------------------------------------------ disconnect
@unit(name='tcp.disconnect', relpath=TMOD, qual=['TcpConnection.disconnect'], props=['C13', 'C14'],
      doc='disconnect: state DISCONNECTED, buffers emptied, socket closed and unsubscribed, onDisconnected exactly once iff set and not '
          'already disconnected')
def tcp_disconnect(ctx):
    conn, rbuf, wbuf, st, sock = mk_conn(ctx)
    outcome, r, I = run_tc(ctx, conn, 'disconnect', [], registry={'TcpConnection.disconnect': None})
    ctx.prove(outcome == 'ok', 'C13+C14:disconnect.no-exception', info=outcome)
    if outcome != 'ok':
        return
    c = ctx.cell(conn)
    ctx.prove(Eq(c.fields[TC('state')], DISCONNECTED), 'C13+C14:disconnect.state')
    ctx.prove(And(Eq(c.fields[TC('readBuffer')].n, 0), Eq(c.fields[TC('writeBuffer')].n, 0)), 'C13:disconnect.buffers-emptied')
    ctx.prove(And(Eq(c.fields[TC('socket')], None), Eq(c.fields[TC('fileno')], None)), 'C13+C14:disconnect.socket-dropped')
    cbs = [x for x in ctx.glist('cb') if x[0] == 'cb:onDisconnected']
    cb = ctx.cell(conn).fields[TC('onDisconnected')]
    want = And(Not(cb.isnone), st != DISCONNECTED)
    ctx.prove(len(cbs) <= 1 and (Iff(len(cbs) == 1, want)), 'C13+C14:disconnect.callback-exactly-once-iff-was-connected')


# ------------------------------------------------------------------------------------------------ read loop of __processConnection
def parse_summary_factory(st):
    def parse(I, selfv, args, kw):
        """contract of __processParseMessage (unit tcp.parse)"""
        ctx = I.ctx
        c = ctx.cell(selfv)
        rb = c.fields[TC('readBuffer')]
        n = to_z3(rb.n)
        l = s32(*[rb.at(z3.IntVal(k)) for k in range(4)])
        complete = And(n >= 4, l >= 0, n - 4 >= l)
        valid = VALID(rb.A, to_z3(rb.lo) + 4, l)
        if ctx.decide(And(complete, valid), 'frame-ready'):
            m = MsgV(MSGOF(rb.A, to_z3(rb.lo) + 4, l))
            ctx.setcell(selfv, c.with_field(TC('readBuffer'), Win(rb.A, z3.simplify(to_z3(rb.lo) + 4 + l), z3.simplify(n - 4 - l))))
            st['parsed'].append((rb, l, m))
            return m
        bad = And(n >= 4, Or(l < 0, And(complete, Not(valid))))
        if ctx.decide(bad, 'frame-bad'):
            disconnect_summary(I, selfv, [], {})
        return None
    return parse


@unit(name='tcp.readloop', relpath=TMOD, qual=['TcpConnection.__processConnection'], props=['C13'],
      kind='region of __processConnection: the `while True:` parse-and-deliver loop of the READ branch, one arbitrary iteration',
      doc='O13.5: each parsed message is handed to onMessageReceived exactly once, immediately, in buffer order; the loop stops at the '
          'first incomplete frame or when the connection got disconnected',
      canaries=[('deliver-twice', lambda mod: mutate_function(mod, 'TcpConnection.__processConnection', _mut_deliver_twice), ['O13.5.each-message-delivered-once'])])
def tcp_readloop(ctx):
    conn, rbuf, wbuf, st, sock = mk_conn(ctx, CONNECTED)
    mod = source.load(TMOD)
    fn, ci = mod.find('TcpConnection.__processConnection')
    loops = [n for n in ast.walk(fn) if isinstance(n, ast.While)]
    if len(loops) != 1:
        raise Undecided('read loop of __processConnection not located')
    stt = {'parsed': []}
    reg = dict(REG)
    reg['TcpConnection.__processParseMessage'] = parse_summary_factory(stt)
    I = Interp(ctx, registry=reg, externals=EXT, hooks={'call:cb': cb_hook})
    fr = Frame(mod, 'TcpConnection', 'TcpConnection.__processConnection')
    fr.locals['self'] = conn
    from pyvc.interp import _Break, _Continue
    ended = 'next-iteration'
    try:
        I.exec_block(loops[0].body, fr)
    except _Break:
        ended = 'break'
    except _Return:
        ended = 'return'
    except PyExc as e:
        ended = 'raise:' + e.typ
    ctx.prove(not ended.startswith('raise'), 'C13+C11:O13.5.no-exception-escapes', info=ended)
    cbs = [x for x in ctx.glist('cb') if x[0] == 'cb:onMessageReceived']
    hascb = Not(ctx.cell(conn).fields[TC('onMessageReceived')].isnone)
    if stt['parsed']:
        rb, l, m = stt['parsed'][0]
        ctx.prove(Implies(hascb, len(cbs) == 1) if len(cbs) != 1 else True, 'C13+C11:O13.5.each-message-delivered-once')
        for tag, a in cbs:
            ctx.prove(isinstance(a[0], MsgV) and Eq(a[0].id, m.id), 'C13+C11:O13.5.delivered-message-is-the-parsed-one')
        ctx.prove(ended in ('next-iteration', 'return'), 'C13+C11:O13.5.loop-continues-after-a-message')
    else:
        ctx.prove(len(cbs) == 0, 'C13+C11:O13.5.nothing-delivered-without-a-frame')
        ctx.prove(ended == 'break', 'C13+C11:O13.5.loop-stops-at-incomplete-frame')


def _mut_deliver_twice(fn):
    cnt = 0
    for n in ast.walk(fn):
        if isinstance(n, ast.If) and isinstance(n.test, ast.Compare) and isinstance(n.test.left, ast.Attribute) and \
                n.test.left.attr == '__onMessageReceived' and isinstance(n.test.ops[0], ast.IsNot):
            n.body = n.body + n.body
            cnt += 1
    return cnt


# ------------------------------------------------------------------------------------------------ L-STREAM (L2)
def lemma_stream():
    """L-STREAM over the contracts above (T-ZLIB/T-PICKLE round trip as hypothesis): if the read buffer starts with frame(m) as
    tcp.send builds it, tcp.parse returns m and leaves exactly the bytes after the frame; so by induction on the number of
    frames `delivered` is a prefix of `sent`, whatever the fragmentation (processSend / processRead only move bytes, in order)."""
    import time
    out = []
    t0 = time.time()
    s = z3.Solver()
    s.set('timeout', 20000)
    A = z3.Const('rbufA', ARR)
    lo, n, mid = z3.Int('lo'), z3.Int('n'), z3.Int('mid')
    zl = ZLEN(mid)
    j = z3.Int('j')
    for ax in struct_axioms():
        s.add(ax)
    s.add(zl >= 1, zl < 2 ** 31, n >= 4 + zl)
    # buffer starts with the frame of mid
    for k in range(4):
        s.add(z3.Select(A, lo + k) == LE32[k](zl))
    s.add(z3.ForAll([j], z3.Implies(z3.And(j >= 0, j < zl), z3.Select(A, lo + 4 + j) == z3.Select(ZARR(mid), j))))
    # T-ZLIB/T-PICKLE: a window holding exactly compress(dumps(m)) is valid and decodes to m
    B = z3.Const('B', ARR)
    b0, bn, bm = z3.Int('b0'), z3.Int('bn'), z3.Int('bm')
    s.add(z3.ForAll([B, b0, bm], z3.Implies(z3.ForAll([j], z3.Implies(z3.And(j >= 0, j < ZLEN(bm)), z3.Select(B, b0 + j) == z3.Select(ZARR(bm), j))),
                                           z3.And(VALID(B, b0, ZLEN(bm)), MSGOF(B, b0, ZLEN(bm)) == bm))))
    l = s32(*[z3.Select(A, lo + k) for k in range(4)])
    goal = z3.And(l == zl, VALID(A, lo + 4, l), MSGOF(A, lo + 4, l) == mid)
    s.add(z3.Not(goal))
    r = s.check()
    out.append(dict(id='C13:L-STREAM.frame-at-buffer-head-parses-to-its-message', unit='lemma.L-STREAM', path='lemma',
                    status='discharged' if r == z3.unsat else ('failed' if r == z3.sat else 'unknown'), solver='z3py-%s' % z3.get_version_string(),
                    secs=time.time() - t0, model=None, info=None, line=None))
    return out


# ------------------------------------------------------------------------------------------------ read timeout (safety form)
@unit(name='tcp.connectionTimeout', relpath=TMOD, qual=['TcpConnection.__processConnectionTimeout'], props=['C14', 'C13'],
      doc='a connection from which nothing was read for longer than the timeout is disconnected by the check, otherwise left alone',
      canaries=[('never-expires', lambda mod: mutate_function(mod, 'TcpConnection.__processConnectionTimeout', lambda fn: replace_compare(fn, lambda n: True, ast.Gt, ast.Lt, 0)),
                 ['timeout.disconnects-iff-silent-too-long'])])
def tcp_connection_timeout(ctx):
    conn, rbuf, wbuf, st, sock = mk_conn(ctx)
    now = FreshReal('now')
    ext = {'monotonicTime': lambda I, a, k: now, 'monotonic.monotonic': lambda I, a, k: now}
    mod = source.load(TMOD)
    fn, ci = mod.find('TcpConnection.__processConnectionTimeout')
    e2 = dict(EXT)
    e2.update(ext)
    I = Interp(ctx, registry=REG, externals=e2, hooks={'call:cb': cb_hook})
    I.call_funcdef(fn, mod, 'TcpConnection', conn, [], {}, None, 'TcpConnection.__processConnectionTimeout')
    disc = ctx.glist('disconnects')
    c = ctx.cell(conn)
    ctx.prove(len(disc) <= 1, 'C14:timeout.at-most-one-disconnect')
    lrt = PRE_LAST['v']
    ctx.prove(Iff(len(disc) == 1, now - lrt > c.fields[TC('timeout')]), 'C14+C13:timeout.disconnects-iff-silent-too-long')


PRE_LAST = {}
_mk_conn_orig = mk_conn


def mk_conn(ctx, state=None):      # noqa: F811  (records the pre-state lastReadTime for the timeout units)
    r = _mk_conn_orig(ctx, state)
    PRE_LAST['v'] = ctx.cell(r[0]).fields[TC('lastReadTime')]
    return r


def timeout_summary(I, selfv, args, kw):
    """contract of __processConnectionTimeout (unit tcp.connectionTimeout)"""
    ctx = I.ctx
    c = ctx.cell(selfv)
    now = clock_ext(I, [], {})
    ctx.ghost['events'] = ctx.glist('events') + ['timeout-check']
    expired = now - c.fields[TC('lastReadTime')] > c.fields[TC('timeout')]
    ctx.ghost['expired'] = ctx.glist('expired') + [expired]
    if ctx.decide(expired, 'read-timeout-expired'):
        disconnect_summary(I, selfv, [], {})
    return None


def process_send_summary(I, selfv, args, kw):
    """contract of __processSend (unit tcp.processSend): hands the write buffer to the socket once; True iff progress"""
    ctx = I.ctx
    ctx.ghost['events'] = ctx.glist('events') + ['socket-send']
    return FreshBool('sendProgress')


@unit(name='tcp.trySendBuffer', relpath=TMOD, qual=['TcpConnection.__trySendBuffer'], props=['C14', 'C13'],
      doc='every attempt to flush first evaluates the read timeout, so a peer that went silent is noticed on the next send even though a '
          'silent socket raises no poll event; nothing is handed to the socket of a connection found dead',
      canaries=[('no-timeout-check', lambda mod: mutate_function(mod, 'TcpConnection.__trySendBuffer', _mut_drop_timeout_call), ['trySend.timeout-evaluated-before-sending'])])
def tcp_try_send_buffer(ctx):
    from pyvc.loops import LoopSpec, loop_table, Sel
    conn, rbuf, wbuf, st, sock = mk_conn(ctx, CONNECTED)
    mod = source.load(TMOD)
    fn, ci = mod.find('TcpConnection.__trySendBuffer')
    reg = dict(REG)
    reg['TcpConnection.__processConnectionTimeout'] = timeout_summary
    reg['TcpConnection.__processSend'] = process_send_summary
    loops = {}
    if any(isinstance(n, ast.While) for n in ast.walk(fn)):
        spec = LoopSpec('C13:trySend.flush-loop', lambda I, fr, it: [], havoc=lambda I, fr: None)
        loops = {'TcpConnection.__trySendBuffer': loop_table(mod, 'TcpConnection.__trySendBuffer', {Sel('while', header=('__processSend',)): spec})}
    I = Interp(ctx, registry=reg, externals=EXT, loop_invariants=loops, hooks={'call:cb': cb_hook})
    try:
        I.call_funcdef(fn, mod, 'TcpConnection', conn, [], {}, None, 'TcpConnection.__trySendBuffer')
        outcome = 'ok'
    except PyExc as e:
        outcome = e.typ
    ctx.prove(outcome == 'ok', 'C13+C14:trySend.no-exception', info=outcome)
    ev = ctx.glist('events')
    ctx.prove(len(ev) >= 1 and ev[0] == 'timeout-check', 'C14+C20:trySend.timeout-evaluated-before-sending', info=repr(ev[:3]))
    exp = ctx.glist('expired')
    if exp and len(ev) > 1:
        ctx.prove(Not(exp[0]), 'C14+C13:trySend.nothing-sent-on-a-dead-connection')


def _mut_drop_timeout_call(fn):
    cnt = 0
    for s in list(fn.body):
        if isinstance(s, ast.Expr) and isinstance(s.value, ast.Call) and isinstance(s.value.func, ast.Attribute) and s.value.func.attr == '__processConnectionTimeout':
            fn.body.remove(s)
            cnt += 1
    return cnt


# ------------------------------------------------------------------------------------------------ connect (C14: a failed dial can be retried)
@unit(name='tcp.connect', relpath=TMOD, qual=['TcpConnection.connect'], props=['C14'],
      doc='O14.6: connect() either fails - returns False and leaves the connection DISCONNECTED without a descriptor and without a poller '
          'subscription, so the transport dials again (its reconnect logic skips connections that are not DISCONNECTED) - or starts a dial - '
          'returns True, state CONNECTING, the descriptor of the new socket subscribed exactly once for READ|WRITE|ERROR with the connection\'s own '
          'handler; buffers are emptied; in every outcome state != DISCONNECTED implies the descriptor is subscribed',
      trusted=['T-SOCKET: socket.connect on a non-blocking socket returns, or raises socket.error with some errno (EINPROGRESS/EWOULDBLOCK = dial in progress)'])
def tcp_connect(ctx):
    conn, rbuf, wbuf, st, sock0 = mk_conn(ctx)
    subs = []
    new_sock = ctx.alloc(PObj('Socket', {}))
    fileno = FreshInt('newFileno')
    err = FreshInt('connectErrno')
    ctx.track('errno of socket.connect', err)

    def sock_connect(I, s, a, k):
        if ctx.decide(FreshBool('connectRaises'), 'socket-connect-raises'):
            I.raise_('OSError', errno=err)
        return None
    reg = {'Socket.connect': sock_connect, 'Socket.setsockopt': lambda I, s, a, k: None, 'Socket.setblocking': lambda I, s, a, k: None,
           'Socket.fileno': lambda I, s, a, k: fileno, 'TcpConnection.setSockoptKeepalive': lambda I, s, a, k: None,
           'Poller.subscribe': lambda I, s, a, k: subs.append(tuple(a))}
    mod = source.load(TMOD)
    fn, ci = mod.find('TcpConnection.connect')
    r0 = dict(REG)
    r0.update(reg)
    r0['_getAddrType'] = lambda I, s, a, k: 2       # address family of the host string (AF_INET / AF_INET6): not relevant to the state machine
    ext = dict(EXT)
    ext.update({'socket.socket': lambda I, a, k: new_sock})
    I = Interp(ctx, registry=r0, externals=ext, hooks={'call:cb': cb_hook})
    host_none = FreshBool('hostIsNone')
    host = Opt(host_none, Opaque('host', FreshInt('host')))
    try:
        r = I.call_funcdef(fn, mod, 'TcpConnection', conn, [host, FreshInt('port')], {}, None, 'TcpConnection.connect')
        outcome = 'ok'
    except PyExc as e:
        outcome, r = e.typ, None
    ctx.prove(outcome == 'ok', 'C14:O14.6.connect.no-exception', info=outcome)
    if outcome != 'ok':
        return
    c = ctx.cell(conn).fields
    st1, fn1 = c[TC('state')], c[TC('fileno')]
    ok = I.truth_expr(r)
    fn_none = fn1.isnone if isinstance(fn1, Opt) else (fn1 is None)
    if ctx.decide(host_none, 'host-is-none'):
        ctx.prove(Not(ok), 'C14:O14.6.connect.no-host-no-dial')
        ctx.prove(len(subs) == 0, 'C14:O14.6.connect.no-host-no-subscription')
        return
    if ctx.decide(ok, 'dial-started'):
        ctx.prove(st1 == CONNECTING, 'C14:O14.6.connect.dial-started-means-CONNECTING')
        ctx.prove(len(subs) == 1, 'C14:O14.6.connect.subscribed-exactly-once')
        if len(subs) == 1:
            d, h, ev = subs[0][0], subs[0][1], subs[0][2]
            ctx.prove(And(Not(fn_none), Eq(fn1.val if isinstance(fn1, Opt) else fn1, fileno), Eq(d, fileno)), 'C14:O14.6.connect.subscribed-descriptor-is-the-new-socket')
            ctx.prove(Eq(ev, 1 | 2 | 4), 'C14:O14.6.connect.subscribed-for-read-write-error', info=repr(ev))
            from pyvc.interp import BoundMethod
            ctx.prove(isinstance(h, BoundMethod) and h.name.endswith('__processConnection'), 'C14:O14.6.connect.handler-is-processConnection', info=repr(h))
        ctx.prove(And(Eq(c[TC('readBuffer')].n, 0), Eq(c[TC('writeBuffer')].n, 0)), 'C14+C13:O14.6.connect.buffers-emptied')
    else:
        # the dial failed at once: the connection must be left in a state from which the transport dials again
        ctx.prove(st1 == DISCONNECTED, 'C14:O14.6.connect.failed-dial-leaves-DISCONNECTED')
        ctx.prove(len(subs) == 0, 'C14:O14.6.connect.failed-dial-leaves-nothing-subscribed')
        ctx.prove(fn_none, 'C14:O14.6.connect.failed-dial-leaves-no-descriptor')
        ctx.prove(Not(Or(err == 115, err == 11)), 'C14:O14.6.connect.in-progress-is-not-a-failure')


# ------------------------------------------------------------------------------------------------ TcpServer (C14: the node stays reachable)
SMODT = 'pysyncobj/tcp_server.py'
TS = lambda n: '_TcpServer__' + n


@unit(name='tcpserver.accept', relpath=SMODT, qual=['TcpServer.__onNewConnection', 'TcpServer.unbind'], props=['C14'],
      cases=[dict(event=e) for e in (1, 2, 4, 5)],
      doc='O14.7 (listening side): a READ event accepts at most one connection and hands it to the transport exactly once; EAGAIN/EWOULDBLOCK '
          'changes nothing; after any other outcome the server is either still bound and subscribed, or it is UNBINDED, unsubscribed and says so '
          '(state) - so that the transport can bind it again (unit transport.maybeBind); no exception escapes the event loop',
      trusted=['T-SOCKET: accept returns a socket or raises socket.error with some errno'])
def tcpserver_accept(ctx, event):
    mod = source.load(SMODT)
    fn, ci = mod.find('TcpServer.__onNewConnection')
    lsock = ctx.alloc(PObj('Socket', {}))
    poller = ctx.alloc(PObj('Poller', {}))
    fileno = FreshInt('listenFileno')
    consts = mod.classes['SERVER_STATE'].consts if 'SERVER_STATE' in mod.classes else {}
    srv = ctx.alloc(PObj('TcpServer', {TS('socket'): lsock, TS('poller'): poller, TS('fileno'): fileno, TS('state'): 1,
                                       TS('sendBufferSize'): 8192, TS('recvBufferSize'): 8192, TS('connectionTimeout'): FreshReal('timeout'),
                                       TS('keepalive'): None, TS('onNewConnectionCallback'): Callable_('cb:onNewConnection')}))
    err = FreshInt('socketErrno')        # errno of whichever socket call fails on this path (accept, or setsockopt on the accepted socket)
    ctx.track('errno of the failing socket call', err)
    newsock = ctx.alloc(PObj('Socket', {}))
    unsub, closed, made = [], [], []

    def sock_accept(I, s, a, k):
        if ctx.decide(FreshBool('acceptRaises'), 'accept-raises'):
            I.raise_('OSError', errno=err)
        return (newsock, ('peer', 1))

    def sock_setsockopt(I, s, a, k):
        # the accepted socket may already have been reset by the peer
        if s is not lsock and ctx.decide(FreshBool('setsockoptRaises'), 'setsockopt-raises'):
            I.raise_('OSError', errno=err)
        return None

    def new_conn(I, a, k):
        c = ctx.alloc(PObj('TcpConnection', {'socket': k.get('socket')}))
        made.append(c)
        return c
    reg = {'Socket.accept': sock_accept, 'Socket.setsockopt': sock_setsockopt, 'Socket.setblocking': lambda I, s, a, k: None,
           'Socket.close': lambda I, s, a, k: closed.append(s), 'Poller.unsubscribe': lambda I, s, a, k: unsub.append(a[0]),
           'Poller.subscribe': lambda I, s, a, k: None}
    I = Interp(ctx, registry=reg, externals=dict(EXT), inline={'TcpServer.unbind'}, hooks={'call:cb': cb_hook, 'new:TcpConnection': new_conn})
    I.cur_mod = mod
    try:
        I.call_funcdef(fn, mod, 'TcpServer', srv, [fileno, event], {}, None, 'TcpServer.__onNewConnection')
        outcome = 'ok'
    except PyExc as e:
        outcome = e.typ
    ctx.prove(outcome == 'ok', 'C14+C13:O14.7.accept.no-exception-escapes-the-event-loop', info=outcome)
    if outcome != 'ok':
        return
    f = ctx.cell(srv).fields
    st1 = f[TS('state')]
    handed = [a for t, a in ctx.glist('cb') if t == 'cb:onNewConnection']
    ctx.prove(len(handed) <= 1 and len(made) <= 1, 'C14:O14.7.accept.at-most-one-connection-per-event')
    for a in handed:
        ctx.prove(len(made) == 1 and a[0] is made[0] and ctx.cell(made[0]).fields['socket'] is newsock, 'C14:O14.7.accept.connection-wraps-the-accepted-socket')
    if not (event & 1):
        ctx.prove(len(handed) == 0, 'C14:O14.7.accept.only-on-read-events')
    still_bound = st1 == 1
    if still_bound:
        ctx.prove(len(unsub) == 0 and len(closed) == 0 and f[TS('fileno')] is fileno, 'C14:O14.7.accept.bound-server-stays-subscribed')
        ctx.prove(not (event & 4), 'C14:O14.7.accept.error-event-unbinds')
    else:
        ctx.prove(st1 != 1 and unsub == [fileno] and f[TS('fileno')] is None and closed == [lsock], 'C14:O14.7.accept.unbound-server-is-unsubscribed-closed-and-says-so',
                  info='state %r unsub %r' % (st1, unsub))
    # EAGAIN / EWOULDBLOCK on accept is not an error
    if (event & 1) and not (event & 4) and not handed and still_bound and not made:
        pass
    if (event & 1) and not (event & 4) and not still_bound:
        ctx.prove(Not(Or(err == 11)), 'C14:O14.7.accept.EAGAIN-keeps-the-server-bound')


@unit(name='tcpserver.bind', relpath=SMODT, qual=['TcpServer.bind', 'TcpServer.unbind'], props=['C14'],
      doc='O14.7 (bind): a successful bind leaves the server BINDED with the listening descriptor subscribed exactly once for READ|ERROR with its '
          'accept handler; a failing bind (address in use, ...) raises to the transport and leaves it not BINDED and not subscribed, so the '
          'transport retries; unbind of a bound server unsubscribes and closes, and is harmless on an unbound one',
      trusted=['T-SOCKET: bind/listen may raise socket.error'])
def tcpserver_bind(ctx):
    mod = source.load(SMODT)
    subs, unsub, closed = [], [], []
    lsock = ctx.alloc(PObj('Socket', {}))
    fileno = FreshInt('listenFileno')
    poller = ctx.alloc(PObj('Poller', {}))
    unb = mod.classes['SERVER_STATE'].consts.get('UNBINDED') if hasattr(mod.classes.get('SERVER_STATE'), 'consts') else None
    srv = ctx.alloc(PObj('TcpServer', {TS('socket'): None, TS('poller'): poller, TS('fileno'): None, TS('state'): (0,), TS('host'): 'h', TS('port'): 1,
                                       TS('hostAddrType'): 2, TS('sendBufferSize'): 8192, TS('recvBufferSize'): 8192}))

    def may_fail(tag):
        def f(I, s, a, k):
            if ctx.decide(FreshBool(tag + 'Raises'), tag + '-raises'):
                I.raise_('OSError', errno=98)
            return None
        return f
    reg = {'Socket.setsockopt': lambda I, s, a, k: None, 'Socket.setblocking': lambda I, s, a, k: None, 'Socket.bind': may_fail('bind'),
           'Socket.listen': may_fail('listen'), 'Socket.fileno': lambda I, s, a, k: fileno, 'Socket.close': lambda I, s, a, k: closed.append(s),
           'Poller.subscribe': lambda I, s, a, k: subs.append(tuple(a)), 'Poller.unsubscribe': lambda I, s, a, k: unsub.append(a[0])}
    ext = dict(EXT)
    ext['socket.socket'] = lambda I, a, k: lsock
    I = Interp(ctx, registry=reg, externals=ext, hooks={'call:cb': cb_hook})
    I.cur_mod = mod

    def run(meth):
        fn, ci = mod.find('TcpServer.%s' % meth)
        try:
            I.call_funcdef(fn, mod, 'TcpServer', srv, [], {}, None, 'TcpServer.%s' % meth)
            return 'ok'
        except PyExc as e:
            return e.typ
    out = run('bind')
    f = ctx.cell(srv).fields
    if out == 'ok':
        ctx.prove(f[TS('state')] == 1, 'C14:O14.7.bind.success-means-BINDED', info=repr(f[TS('state')]))
        ctx.prove(len(subs) == 1, 'C14:O14.7.bind.subscribed-exactly-once')
        if len(subs) == 1:
            from pyvc.interp import BoundMethod
            d, h, ev = subs[0]
            ctx.prove(Eq(d, fileno) and f[TS('fileno')] is fileno, 'C14:O14.7.bind.subscribed-descriptor-is-the-listening-socket')
            ctx.prove(isinstance(h, BoundMethod) and h.name.endswith('__onNewConnection'), 'C14:O14.7.bind.handler-is-the-accept-handler', info=repr(h))
            ctx.prove(Eq(ev, 1 | 4), 'C14:O14.7.bind.subscribed-for-read-and-error', info=repr(ev))
        out2 = run('unbind')
        f = ctx.cell(srv).fields
        ctx.prove(out2 == 'ok' and f[TS('state')] != 1 and unsub == [fileno] and closed == [lsock] and f[TS('fileno')] is None, 'C14:O14.7.unbind.unsubscribes-and-closes')
        out3 = run('unbind')
        ctx.prove(out3 == 'ok' and unsub == [fileno], 'C14:O14.7.unbind.idempotent')
    else:
        ctx.prove(out == 'OSError', 'C14:O14.7.bind.only-socket-errors-escape', info=out)
        ctx.prove(f[TS('state')] != 1 and len(subs) == 0, 'C14:O14.7.bind.failed-bind-leaves-the-server-unbound-and-unsubscribed')


# ------------------------------------------------------------------------------------------------ the read loop as a whole
def _read_loop_spec(ctx, conn):
    """`while self.__processRead(...)`: at every loop head the connection has not been disconnected by this loop; one more round either
    appends exactly the received bytes (in order) to the logical read buffer or ends the loop"""
    st = {}

    def head_state():
        return fld(ctx, conn, 'readBuffer')

    def inv(I, fr, it):
        c = ctx.cell(conn).fields
        return [('not-disconnected-so-far', And(c[TC('state')] == CONNECTED, len(ctx.glist('disconnects')) == 0))]

    def havoc(I, fr):
        c = ctx.cell(conn)
        rb = fresh_win(ctx, 'rbufAtLoopHead')
        ctx.setcell(conn, c.with_field(TC('readBuffer'), rb))
        st['head'] = rb
        st['wire0'] = len(ctx.glist('wire_in'))
        ctx.ghost['read_loop'] = st

    def check(I, fr, it):
        if 'head' not in st:
            return []
        win = ctx.glist('wire_in')[st['wire0']:]
        if len(win) != 1:
            return []
        inc, rb0, rb1 = win[0], st['head'], head_state()
        j = FreshInt('j')
        n0 = to_z3(rb0.n)
        if not isinstance(rb1, Win):
            return [('O13.3.read-buffer-is-bytes', False)]
        return [('O13.3.round-appends-exactly-the-received-bytes', And(Eq(rb1.n, n0 + to_z3(inc.n)),
                                                                      Implies(And(j >= 0, j < n0), rb1.at(j) == rb0.at(j)),
                                                                      Implies(And(j >= 0, j < to_z3(inc.n)), rb1.at(n0 + j) == inc.at(j))))]
    return LoopSpec('C13+C11:O13.3.read-loop', inv, havoc=havoc, check=check, keep=('self',)), st


@unit(name='tcp.tryReadBuffer', relpath=TMOD, qual=['TcpConnection.__tryReadBuffer', 'TcpConnection.__processRead'], props=['C13', 'C14'],
      doc='O13.3/O13.5 (read loop as a whole): every round appends exactly the bytes received in it to the read buffer, in order; the loop ends '
          'with the first read that yields nothing; when it ends because the connection died, the read buffer is empty afterwards - no byte of '
          'a dead connection is left for the parser (nor for a connection re-established from the disconnect callback); the last-read time is '
          'refreshed; no exception escapes',
      trusted=['T-SOCKET'])
def tcp_try_read_buffer(ctx):
    conn, rbuf, wbuf, st0, sock = mk_conn(ctx, CONNECTED)
    mod = source.load(TMOD)
    spec, st = _read_loop_spec(ctx, conn)
    loops = {'TcpConnection.__tryReadBuffer': loop_table(mod, 'TcpConnection.__tryReadBuffer', {Sel('while'): spec})}
    last0 = fld(ctx, conn, 'lastReadTime')
    outcome, r, I = run_tc(ctx, conn, '__tryReadBuffer', [], loops=loops)
    ctx.prove(outcome == 'ok', 'C13+C11:O13.3.read-loop.no-exception-escapes', info=outcome)
    if outcome != 'ok':
        return
    rb1 = fld(ctx, conn, 'readBuffer')
    disc = ctx.glist('disconnects')
    head = st.get('head')
    if disc:
        ctx.prove(isinstance(rb1, Win) and Eq(rb1.n, 0), 'C13+C14+C11:O13.5.a-dead-connection-leaves-no-bytes-in-the-read-buffer', info=repr(getattr(rb1, 'n', rb1)))
        ctx.prove(fld(ctx, conn, 'state') == DISCONNECTED, 'C13+C14+C11:O13.5.disconnected-state-after-a-failed-read')
    elif head is not None:
        j = FreshInt('j')
        ctx.prove(isinstance(rb1, Win) and And(Eq(rb1.n, head.n), Implies(And(j >= 0, j < to_z3(head.n)), rb1.at(j) == head.at(j))),
                  'C13+C11:O13.3.read-loop.nothing-added-after-the-last-successful-read')
    ctx.prove(fld(ctx, conn, 'lastReadTime') is not last0, 'C13+C14+C11:O13.3.read-loop.last-read-time-refreshed')


# ------------------------------------------------------------------------------------------------ constructors establish what the units assume
@unit(name='tcp.init', relpath=TMOD, qual=['TcpConnection.__init__'], props=['C13', 'C14'], cases=[dict(incoming=False), dict(incoming=True)],
      doc='the constructor establishes the representation the other tcp units start from: empty read and write buffers; an outgoing connection '
          'object starts DISCONNECTED without socket or descriptor; a connection wrapped around an accepted socket starts CONNECTED with the '
          'socket\'s descriptor subscribed exactly once for READ|WRITE|ERROR with its own handler; state != DISCONNECTED iff it has a descriptor')
def tcp_init(ctx, incoming):
    mod = source.load(TMOD)
    fn, ci = mod.find('TcpConnection.__init__')
    subs = []
    fileno = FreshInt('acceptedFileno')
    sock = ctx.alloc(PObj('Socket', {})) if incoming else None
    poller = ctx.alloc(PObj('Poller', {}))
    conn = ctx.alloc(PObj('TcpConnection', {}))
    reg = dict(REG)
    reg.update({'Socket.fileno': lambda I, s, a, k: fileno, 'Poller.subscribe': lambda I, s, a, k: subs.append(tuple(a)),
                'TcpConnection.setSockoptKeepalive': lambda I, s, a, k: None})
    I = Interp(ctx, registry=reg, externals=dict(EXT), hooks={'call:cb': cb_hook})
    I.cur_mod = mod
    try:
        I.call_funcdef(fn, mod, 'TcpConnection', conn, [poller], {'socket': sock, 'timeout': FreshReal('timeout')}, None, 'TcpConnection.__init__')
        outcome = 'ok'
    except PyExc as e:
        outcome = e.typ
    ctx.prove(outcome == 'ok', 'C13+C14:init.no-exception', info=outcome)
    if outcome != 'ok':
        return
    f = ctx.cell(conn).fields
    rb, wb = f.get(TC('readBuffer')), f.get(TC('writeBuffer'))
    ctx.prove(isinstance(rb, Win) and isinstance(wb, Win) and Eq(rb.n, 0) and Eq(wb.n, 0), 'C13:init.buffers-start-empty')
    if incoming:
        ctx.prove(f.get(TC('state')) == CONNECTED and f.get(TC('socket')) is sock and f.get(TC('fileno')) is fileno, 'C14:init.accepted-socket-starts-CONNECTED')
        from pyvc.interp import BoundMethod
        ctx.prove(len(subs) == 1 and subs[0][0] is fileno and isinstance(subs[0][1], BoundMethod) and subs[0][1].name.endswith('__processConnection')
                  and subs[0][2] == 7, 'C14+C13:init.accepted-socket-subscribed-once-for-read-write-error', info=repr(subs))
    else:
        ctx.prove(f.get(TC('state')) == DISCONNECTED and f.get(TC('socket')) is None and f.get(TC('fileno')) is None and not subs,
                  'C14:init.outgoing-connection-starts-DISCONNECTED-unsubscribed')
    ctx.prove(f.get(TC('onDisconnected')) is None and f.get(TC('onMessageReceived')) is None, 'C14:init.no-callbacks-until-set')


# ------------------------------------------------------------------------------------------------ the event handler as a state machine (C14)
@unit(name='tcp.processConnection', relpath=TMOD, qual=['TcpConnection.__processConnection'], props=['C14', 'C13'],
      cases=[dict(event=e, state=s) for e in (1, 2, 3, 4, 5, 6, 7) for s in (CONNECTING, CONNECTED)],
      doc='O14.8 (event handler, callee contracts as summaries): an event for a descriptor that is not the connection\'s current one only unsubscribes '
          'that descriptor; an ERROR event or a pending socket error disconnects without reporting a connection; a CONNECTING connection becomes '
          'CONNECTED on the first READ/WRITE event without socket error, reporting onConnected exactly once and refreshing the read timer, and '
          'handles no data in that event; a CONNECTED connection flushes on WRITE and re-subscribes for READ|ERROR plus WRITE exactly while bytes '
          'remain to be sent, reads on READ; nothing is done after a disconnect; no exception escapes the event loop',
      trusted=['T-SOCKET'])
def tcp_process_connection(ctx, event, state):
    conn, rbuf, wbuf, st, sock = mk_conn(ctx, state)
    c0 = ctx.cell(conn).fields
    fileno = c0[TC('fileno')].val
    stale = FreshBool('staleDescriptor')
    descr = FreshInt('descr')
    ctx.assume(Iff(stale, descr != fileno))
    subs, ev = [], []
    soerr = FreshInt('soError')

    def timeout_s(I, s, a, k):
        ev.append('timeout-check')
        if ctx.decide(FreshBool('readTimeoutExpired'), 'read-timeout-expired'):
            disconnect_summary(I, s, [], {})

    def trysend_s(I, s, a, k):
        ev.append('flush')
        if ctx.decide(FreshBool('flushKillsConnection'), 'flush-kills-connection'):
            disconnect_summary(I, s, [], {})
            return
        c = ctx.cell(s)
        w_ = fresh_win(ctx, 'wbufAfterFlush')
        ctx.ghost['wbuf_after_flush'] = [w_]
        ctx.setcell(s, c.with_field(TC('writeBuffer'), w_))

    def tryread_s(I, s, a, k):
        ev.append('read')
        if ctx.decide(FreshBool('readKillsConnection'), 'read-kills-connection'):
            disconnect_summary(I, s, [], {})

    def parse_s(I, s, a, k):
        ev.append('parse')
        return None
    reg = dict(REG)
    reg.update({'TcpConnection.__processConnectionTimeout': timeout_s, 'TcpConnection.__trySendBuffer': trysend_s, 'TcpConnection.__tryReadBuffer': tryread_s,
                'TcpConnection.__processParseMessage': parse_s, 'Socket.getsockopt': lambda I, s, a, k: soerr,
                'Poller.subscribe': lambda I, s, a, k: subs.append(tuple(a)), 'Poller.unsubscribe': lambda I, s, a, k: ctx.glist('unsub').append(a[0])})
    mod = source.load(TMOD)
    fn, ci = mod.find('TcpConnection.__processConnection')
    I = Interp(ctx, registry=reg, externals=EXT, hooks={'call:cb': cb_hook})
    I.cur_mod = mod
    try:
        I.call_funcdef(fn, mod, 'TcpConnection', conn, [descr, event], {}, None, 'TcpConnection.__processConnection')
        outcome = 'ok'
    except PyExc as e:
        outcome = e.typ
    ctx.prove(outcome == 'ok', 'C14+C13:O14.8.no-exception-escapes-the-event-loop', info=outcome)
    if outcome != 'ok':
        return
    f = ctx.cell(conn).fields
    st1 = f[TC('state')]
    disc = ctx.glist('disconnects')
    connected_cb = [a for t, a in ctx.glist('cb') if t == 'cb:onConnected']
    if ctx.decide(stale, 'stale-descriptor'):
        ctx.prove(ctx.glist('unsub') == [descr] and not disc and not ev and not subs and not connected_cb and st1 == state,
                  'C14+C13:O14.8.event-for-a-stale-descriptor-only-unsubscribes-it', info=repr((ctx.glist('unsub'), ev)))
        return
    if event & 4:
        ctx.prove(len(disc) == 1 and not connected_cb and not ev, 'C14:O14.8.error-event-disconnects-and-does-nothing-else', info=repr(ev))
        return
    ctx.prove(ev[:1] == ['timeout-check'], 'C14:O14.8.read-timeout-checked-first', info=repr(ev))
    if disc and len(ev) == 1:
        ctx.prove(not connected_cb and not subs, 'C14:O14.8.nothing-after-a-timeout-disconnect')
        return
    has_cb = Not(c0[TC('onConnected')].isnone)
    if ctx.decide(soerr != 0, 'socket-error-pending'):
        ctx.prove(len(disc) == 1 and not connected_cb and ev == ['timeout-check'], 'C14:O14.8.pending-socket-error-disconnects-without-reporting-a-connection', info=repr(ev))
        return
    if state == CONNECTING:
        ctx.prove(Implies(has_cb, len(connected_cb) == 1) if len(connected_cb) != 1 else True, 'C14:O14.8.connection-reported-exactly-once')
        ctx.prove(st1 == CONNECTED, 'C14:O14.8.connecting-becomes-connected-on-the-first-clean-event')
        ctx.prove(f[TC('lastReadTime')] is not c0[TC('lastReadTime')], 'C14:O14.8.read-timer-starts-when-connected')
        ctx.prove(ev == ['timeout-check'], 'C14+C13:O14.8.no-data-handled-in-the-connecting-event', info=repr(ev))
        return
    ctx.prove(not connected_cb, 'C14:O14.8.established-connection-not-reported-again')
    if event & 2:
        ctx.prove('flush' in ev, 'C13+C14:O14.8.write-event-flushes')
        if disc and 'read' not in ev:
            # the flush found the connection dead: nothing further happens in this event
            ctx.prove(not subs and 'parse' not in ev and ev[-1] == 'flush', 'C14+C13:O14.8.nothing-after-a-disconnect', info=repr(ev))
            return
        ctx.prove(len(subs) == 1, 'C14:O14.8.resubscribed-once-after-a-flush')
        if len(subs) == 1:
            d, h, m = subs[0]
            pending = to_z3(f[TC('writeBuffer')].n) > 0 if 'read' not in ev else None
            ctx.prove(Eq(d, fileno), 'C14:O14.8.resubscribed-descriptor-is-the-connection')
            wb_after_flush = (ctx.glist('wbuf_after_flush') or [None])[-1]
            if wb_after_flush is not None:
                ctx.prove(Eq(m, Ite(to_z3(wb_after_flush.n) > 0, 7, 5)), 'C14+C13:O14.8.subscribed-for-read-error-and-write-exactly-while-bytes-remain', info=repr(m))
    else:
        ctx.prove('flush' not in ev and not subs, 'C14:O14.8.no-flush-without-a-write-event')
    if event & 1:
        ctx.prove('read' in ev, 'C13+C14:O14.8.read-event-reads')
        if disc:
            ctx.prove(ev[-1] == 'read', 'C13+C14:O14.8.nothing-parsed-after-a-disconnect', info=repr(ev))
    else:
        ctx.prove('read' not in ev and 'parse' not in ev, 'C13:O14.8.no-read-without-a-read-event', info=repr(ev))
