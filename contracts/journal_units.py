"""C08 (and the storage half of C06): FileJournal refines the list MemoryJournal implements, and is kill-safe.

Abstraction (DESIGN §C08): the file image F (mmap bytes + size), H = u32le(F[36:40]); ghost offsets off(0..n), off(0) = 40,
off(n) = H; record i occupies [off(i), off(i+1)): size field, idx (u64), term (u64), command bytes, size field again.
Rep(F, J): the in-memory list equals the decoded view J and __currentOffset == H.  Every operation must re-establish Rep with the
view the same list operation gives on a plain list; after every primitive store of an operation the *file alone* must decode to a
view the crash condition allows."""
import ast
import z3
from pyvc.values import *   # noqa
from pyvc.harness import unit, mutate_function, replace_compare, Unit
from pyvc.loops import LoopSpec, loop_table, Sel
from pyvc.ctx import Undecided
from pyvc.interp import Interp, PyExc, Frame
from pyvc import source
from pyvc.bytesmodel import *   # noqa
from pyvc.bytesmodel import I_, LE32, LE64, U32, U64, TWO32, TWO64

JMOD = 'pysyncobj/journal.py'
FJ = lambda n: '_FileJournal__' + n
RF = lambda n: '_ResizableFile__' + n
HDR = 40
HOFF = 36

CLEN = z3.Function('jclen', I_, I_)
CBYTE = z3.Function('jcbyte', I_, I_, I_)


class JCmd(ByteStr):
    """command bytes of an abstract journal entry"""

    def __init__(self, cid):
        self.cid = cid
        ByteStr.__init__(self, CLEN(to_z3(cid)), (lambda j, cid=cid: CBYTE(to_z3(cid), to_z3(j))))


class View(object):
    """abstract journal: n entries (cmd id, idx, term) and the ghost record offsets"""

    def __init__(self, n, cmd, idx, term, off):
        self.n, self.cmd, self.idx, self.term, self.off = n, cmd, idx, term, off

    def sz(self, i):
        return 16 + CLEN(self.cmd(i))

    def entry(self, i):
        i = to_z3(i)
        return (JCmd(self.cmd(i)), self.idx(i), self.term(i))

    def as_slist(self):
        return SList(self.n, self.entry, 3)


def fresh_view(ctx, base='J'):
    n = FreshInt(base + '_n')
    fs = [z3.Function(fresh_name(base + nm), I_, I_) for nm in ('_cmd', '_idx', '_term', '_off')]
    ctx.assume(n >= 0)
    v = View(n, *[(lambda i, f=f: f(to_z3(i))) for f in fs])
    v.fs = fs
    return v


def rep_clauses(arr, size, H, v, skolem=False):
    """Rep of the file alone: list of (name, formula).  With skolem=True universally quantified clauses are instantiated at
    fresh constants (goal form); otherwise they are z3 quantifiers (hypothesis form)."""
    n = to_z3(v.n)
    out = []

    def forall(name, vars_, guard, body, pats=None):
        if skolem:
            sk = [FreshInt('sk_' + x.decl().name()) for x in vars_]
            f = z3.substitute(z3.Implies(guard, body), *zip(vars_, sk))
            out.append((name, f))
        else:
            out.append((name, z3.ForAll(vars_, z3.Implies(guard, body), patterns=pats) if pats else z3.ForAll(vars_, z3.Implies(guard, body))))
    i, j, a, b = z3.Int('ri'), z3.Int('rj'), z3.Int('ra'), z3.Int('rb')
    out.append(('off0', v.off(z3.IntVal(0)) == HDR))
    out.append(('header-is-end', z3.And(H == v.off(n), H <= to_z3(size), H < TWO32, H >= HDR)))
    for k in range(4):
        out.append(('header-bytes', arr(z3.IntVal(HOFF + k)) == LE32[k](H)))
    forall('chain', [i], z3.And(i >= 0, i < n), v.off(i + 1) == v.off(i) + v.sz(i) + 8)
    forall('ranges', [i], z3.And(i >= 0, i < n), z3.And(CLEN(v.cmd(i)) >= 0, v.sz(i) < TWO32, v.idx(i) >= 0, v.idx(i) < TWO64,
                                                       v.term(i) >= 0, v.term(i) < TWO64))
    for k in range(4):
        forall('size-fields', [i], z3.And(i >= 0, i < n), z3.And(arr(v.off(i) + k) == LE32[k](v.sz(i)),
                                                                 arr(v.off(i + 1) - 4 + k) == LE32[k](v.sz(i))))
    for k in range(8):
        forall('idx-term-fields', [i], z3.And(i >= 0, i < n), z3.And(arr(v.off(i) + 4 + k) == LE64[k](v.idx(i)),
                                                                     arr(v.off(i) + 12 + k) == LE64[k](v.term(i))))
    forall('command-bytes', [i, j], z3.And(i >= 0, i < n, j >= 0, j < CLEN(v.cmd(i))), arr(v.off(i) + 20 + j) == CBYTE(v.cmd(i), j))
    forall('monotone', [a, b], z3.And(a >= 0, a <= b, b <= n), v.off(a) <= v.off(b))
    return out


def assume_rep(ctx, arr, size, H, v):
    for name, f in rep_clauses(arr, size, H, v, skolem=False):
        ctx.assume(f, quant=z3.is_quantifier(f))
    for ax in struct_axioms():
        ctx.assume(ax, quant=True)


def prove_rep(ctx, arr, size, H, v, tag):
    for name, f in rep_clauses(arr, size, H, v, skolem=True):
        ctx.prove(f, '%s.Rep.%s' % (tag, name))


# ------------------------------------------------------------------------------------------------ ResizableFile
def mk_rfile(ctx):
    img, f, size = fresh_image('F')
    ctx.assume(size >= 1)
    mm = ctx.alloc(img)
    rf = ctx.alloc(PObj('ResizableFile', {RF('mm'): mm, RF('resizeFactor'): 2.0, RF('fileName'): 'journal.bin',
                                          RF('f'): ctx.alloc(PObj('File', {}))}))
    return rf, mm, img


def extand_trusted(I, selfv, args, kw):
    """T-MMAP for ResizableFile.__extand (close, append zero bytes, reopen): the mapping grows by bytesToAdd, old bytes kept"""
    ctx = I.ctx
    c = ctx.cell(selfv)
    mm = c.fields[RF('mm')]
    old = ctx.cell(mm)
    add = I.unwrap(args[0])
    ctx.setcell(mm, BImg((lambda i, old=old: z3.If(to_z3(i) < to_z3(old.size), old.arr(i), 0)), old.size + add))
    return None


def _grow_loop_spec(ctx, mm, img0):
    def inv(I, fr, it):
        cur = ctx.cell(mm)
        j = FreshInt('gj')
        return [('size-never-shrinks', to_z3(cur.size) >= to_z3(img0.size)),
                ('old-bytes-kept', Implies(And(j >= 0, j < to_z3(img0.size)), cur.arr(j) == img0.arr(j)))]

    def havoc(I, fr):
        ni, f, size = fresh_image('Fgrow')
        ctx.setcell(mm, ni)
        jq = z3.Int('gq')
        ctx.assume(z3.ForAll([jq], z3.Implies(z3.And(jq >= 0, jq < to_z3(img0.size)), ni.arr(jq) == img0.arr(jq))), quant=True)
    return LoopSpec('C08+C11:O8.1.grow-loop', inv, havoc=havoc)


@unit(name='ResizableFile.write', relpath=JMOD, qual=['ResizableFile.write'], props=['C08', 'C11', 'C06'],
      doc='O8.1 (A8): after write(offset, values) the mapping holds values at [offset, offset+len), every other byte below the old '
          'size is unchanged, the size did not shrink, and no exception is raised, for any record size',
      assumptions=['T-MMAP', 'resizeFactor == 2.0 (the constructor default; FileJournal never passes another)', 'termination of the grow loop not proved'],
      trusted=['T-MMAP: mmap slice read/write and resize semantics; ResizableFile.__extand (file append + re-map)'],
      canaries=[('grow-once', lambda mod: mutate_function(mod, 'ResizableFile.write', _mut_while_to_if), ['O8.1.no-exception'])])
def rfile_write(ctx):
    rf, mm, img0 = mk_rfile(ctx)
    off = FreshInt('offset')
    ctx.track('offset', off)
    ctx.track('file_size', img0.size)
    vf = z3.Function(fresh_name('values'), I_, I_)
    vn = FreshInt('values_len')
    ctx.track('len(values)', vn)
    ctx.assume(And(off >= 0, vn >= 0))
    vals = ByteStr(vn, (lambda i: vf(to_z3(i))))
    mod = source.load(JMOD)
    loops = {'ResizableFile.write': loop_table(mod, 'ResizableFile.write', {Sel('while', header=('size',)): _grow_loop_spec(ctx, mm, img0)})} if \
        any(isinstance(n, ast.While) for n in ast.walk(mod.find('ResizableFile.write')[0])) else {}
    I = Interp(ctx, registry={'ResizableFile.__extand': extand_trusted}, loop_invariants=loops)
    fn, ci = mod.find('ResizableFile.write')
    try:
        I.call_funcdef(fn, mod, 'ResizableFile', rf, [off, vals], {}, None, 'ResizableFile.write')
        outcome = 'ok'
    except PyExc as e:
        outcome = e.typ
    ctx.prove(outcome == 'ok', 'C08+C11+C06:O8.1.no-exception', info=outcome)
    if outcome != 'ok':
        return
    img1 = ctx.cell(mm)
    j = FreshInt('j')
    ctx.prove(to_z3(img1.size) >= off + vn, 'C08:O8.1.fits')
    ctx.prove(to_z3(img1.size) >= to_z3(img0.size), 'C08:O8.1.never-shrinks')
    ctx.prove(Implies(And(j >= off, j < off + vn), img1.arr(j) == vf(j - off)), 'C08+C11:O8.1.values-in-place')
    ctx.prove(Implies(And(j >= 0, j < to_z3(img0.size), Or(j < off, j >= off + vn)), img1.arr(j) == img0.arr(j)), 'C08+C06:O8.1.other-bytes-kept')


def _mut_while_to_if(fn):
    cnt = 0
    for n in ast.walk(fn):
        body = getattr(n, 'body', None)
        if isinstance(body, list):
            for k, s in enumerate(body):
                if isinstance(s, ast.While):
                    body[k] = ast.If(test=s.test, body=s.body, orelse=[])
                    cnt += 1
    return cnt


def write_summary(I, selfv, args, kw):
    """contract of ResizableFile.write used by the FileJournal units; records the primitive store for the crash conditions"""
    ctx = I.ctx
    off, vals = args
    vals = to_bytestr(vals)
    c = ctx.cell(selfv)
    mm = c.fields[RF('mm')]
    old = ctx.cell(mm)
    ctx.prove(to_z3(off) >= 0, '*:ResizableFile.write.pre.offset-nonneg')
    grow = FreshInt('grownSize')
    ctx.assume(z3.And(grow >= to_z3(old.size), grow >= to_z3(off) + to_z3(vals.n)))
    o, n_ = to_z3(off), to_z3(vals.n)
    new = BImg((lambda i, old=old, o=o, n_=n_, vals=vals: z3.If(z3.And(to_z3(i) >= o, to_z3(i) < o + n_), vals.at(to_z3(i) - o),
                                                                z3.If(to_z3(i) < to_z3(old.size), old.arr(i), 0))), grow)
    ctx.setcell(mm, new)
    ctx.ghost['stores'] = ctx.glist('stores') + [(off, vals, old, new)]
    return None


def read_summary(I, selfv, args, kw):
    off, size = args
    c = I.ctx.cell(selfv)
    mm = I.ctx.cell(c.fields[RF('mm')])
    return mm.get_slice(I, None, off, off + size)


JREG = {'ResizableFile.write': write_summary, 'ResizableFile.read': read_summary}
JEXT = {'struct.pack': struct_pack, 'struct.unpack': struct_unpack, 'to_bytes': lambda I, a, k: a[0], 'pickle.to_bytes': lambda I, a, k: a[0]}


@unit(name='ResizableFile.read', relpath=JMOD, qual=['ResizableFile.read'], props=['C08'],
      doc='read(offset, size) is the mapping slice [offset, offset+size)')
def rfile_read(ctx):
    rf, mm, img0 = mk_rfile(ctx)
    off, size = FreshInt('offset'), FreshInt('size')
    ctx.assume(And(off >= 0, size >= 0, off + size <= to_z3(img0.size)))
    mod = source.load(JMOD)
    I = Interp(ctx)
    fn, ci = mod.find('ResizableFile.read')
    r = I.call_funcdef(fn, mod, 'ResizableFile', rf, [off, size], {}, None, 'ResizableFile.read')
    j = FreshInt('j')
    ctx.prove(isinstance(r, ByteStr) and Eq(r.n, size), 'C08:read.length')
    ctx.prove(Implies(And(j >= 0, j < size), r.at(j) == img0.arr(off + j)), 'C08:read.bytes')


# ------------------------------------------------------------------------------------------------ FileJournal
def mk_journal(ctx, with_rep=True):
    rf, mm, img = mk_rfile(ctx)
    v = fresh_view(ctx)
    H = v.off(to_z3(v.n))
    if with_rep:
        assume_rep(ctx, img.arr, img.size, H, v)
    jl = ctx.alloc(v.as_slist())
    meta = ctx.alloc(KVDict([(FreshBool('hasCommit'), 'raftCommitIndex', FreshInt('storedCommit'))]))
    ms = ctx.alloc(PObj('MetaStorer', {'_MetaStorer__path': 'journal.bin.meta'}))
    fj = ctx.alloc(PObj('FileJournal', {FJ('journalFile'): rf, FJ('journal'): jl, FJ('metaStorer'): ms, FJ('meta'): meta,
                                        FJ('metaSaved'): FreshBool('metaSaved'), FJ('currentOffset'): H}))
    ctx.track('n_records', v.n)
    ctx.track('file_size', img.size)
    ctx.track('H', H)
    return fj, rf, mm, img, v, jl


def list_equals_view(ctx, sl, v, tag):
    """in-memory list == abstract view, extensionally (goal form)"""
    i, j = FreshInt('li'), FreshInt('lj')
    out = [(tag + '.length', Eq(sl.n, v.n))]
    if not is_sym(sl.n) and sl.n == 0:
        return out
    e = sl.get(i)
    cmd = to_bytestr(e[0])
    out.append((tag + '.idx-term', Implies(And(i >= 0, i < to_z3(v.n)), And(Eq(e[1], v.idx(i)), Eq(e[2], v.term(i))))))
    out.append((tag + '.command', Implies(And(i >= 0, i < to_z3(v.n)), And(Eq(cmd.n, CLEN(v.cmd(i))),
                                                                         Implies(And(j >= 0, j < CLEN(v.cmd(i))), cmd.at(j) == CBYTE(v.cmd(i), j))))))
    return out


def run_fj(ctx, fj, meth, args, registry=None, loops=None, inline=()):
    mod = source.load(JMOD)
    fn, ci = mod.find('FileJournal.%s' % meth)
    if fn is None:
        raise Undecided('FileJournal.%s not found' % meth)
    reg = dict(JREG)
    reg.update(registry or {})
    I = Interp(ctx, registry=reg, externals=JEXT, inline={'FileJournal.__setLastRecordOffset', 'FileJournal.__getLastRecordOffset'} | set(inline),
               loop_invariants=loops or {})
    try:
        return 'ok', I.call_funcdef(fn, mod, 'FileJournal', fj, list(args), {}, None, 'FileJournal.%s' % meth), I
    except PyExc as e:
        return e.typ, e, I


def view_append(v, cid, idx, term):
    n = to_z3(v.n)
    sz = 16 + CLEN(cid)
    return View(n + 1, (lambda i: z3.If(to_z3(i) == n, cid, v.cmd(i))), (lambda i: z3.If(to_z3(i) == n, to_z3(idx), v.idx(i))),
                (lambda i: z3.If(to_z3(i) == n, to_z3(term), v.term(i))),
                (lambda i: z3.If(to_z3(i) == n + 1, v.off(n) + sz + 8, v.off(i))))


def crash_states(ctx, img0):
    """file images a kill can leave: after each completed primitive store, and inside a multi-byte record store with an
    arbitrary part of it written (a 4-byte header store is atomic, A-HDR-ATOMIC)"""
    out = [('before-first-store', img0)]
    for k, (off, vals, old, new) in enumerate(ctx.glist('stores')):
        if not (not is_sym(vals.n) and vals.n == 4):
            part = z3.Function(fresh_name('partial'), I_, z3.BoolSort())
            o, n_ = to_z3(off), to_z3(vals.n)
            torn = BImg((lambda i, old=old, new=new, part=part, o=o, n_=n_: z3.If(z3.And(to_z3(i) >= o, to_z3(i) < o + n_, z3.Not(part(to_z3(i)))),
                                                                                  z3.If(to_z3(i) < to_z3(old.size), old.arr(i), 0), new.arr(i))), new.size)
            out.append(('inside-store-%d' % k, torn))
        out.append(('after-store-%d' % k, new))
    return out


@unit(name='FileJournal.add', relpath=JMOD, qual=['FileJournal.add', 'FileJournal.__setLastRecordOffset'], props=['C08', 'C06', 'C11'],
      doc='O8.3: view\' == view ++ [(cmd, idx, term)] (whole view), Rep re-established; crash condition: at every primitive store the '
          'file decodes to the old or the new view (all-or-nothing, the record is written above the published end before it moves)',
      assumptions=['A-RANGE: offsets < 2^32, idx/term < 2^64', 'A-HDR-ATOMIC'], trusted=['T-STRUCT', 'T-MMAP'],
      canaries=[('publish-before-write', lambda mod: mutate_function(mod, 'FileJournal.add', _mut_publish_first), ['O8.3.crash']),
                ('no-trailing-size', lambda mod: mutate_function(mod, 'FileJournal.add', _mut_no_trailer), ['O8.3.Rep'])])
def fj_add(ctx):
    fj, rf, mm, img0, v, jl = mk_journal(ctx)
    cid, idx, term = FreshInt('newcmd'), FreshInt('idx'), FreshInt('term')
    ctx.assume(And(CLEN(cid) >= 0, idx >= 0, idx < TWO64, term >= 0, term < TWO64))
    H0 = v.off(to_z3(v.n))
    ctx.assume(H0 + 16 + CLEN(cid) + 8 < TWO32)      # A-RANGE
    ctx.track('len(command)', CLEN(cid))
    outcome, r, I = run_fj(ctx, fj, 'add', [JCmd(cid), idx, term])
    ctx.prove(outcome == 'ok', 'C08+C11+C06:O8.3.no-exception', info=outcome)
    if outcome != 'ok':
        return
    v1 = view_append(v, cid, idx, term)
    img1 = ctx.cell(mm)
    c = ctx.cell(fj)
    H1 = v1.off(to_z3(v1.n))
    ctx.prove(Eq(c.fields[FJ('currentOffset')], H1), 'C08:O8.3.currentOffset-is-end')
    prove_rep(ctx, img1.arr, img1.size, H1, v1, 'C08+C06:O8.3')
    for name, f in list_equals_view(ctx, ctx.cell(c.fields[FJ('journal')]), v1, 'C08:O8.3.list-equals-view'):
        ctx.prove(f, name)
    # crash conditions: old view or new view, nothing else
    for label, img in crash_states(ctx, img0):
        Hc = U32(*[img.arr(z3.IntVal(HOFF + k)) for k in range(4)])
        if ctx.decide(Hc == H0, 'crash-%s-sees-old-end' % label):
            for name, f in rep_clauses(img.arr, img.size, H0, v, skolem=True):
                ctx.prove(f, 'C08+C06:O8.3.crash.%s.old-view.%s' % (label.split('-')[0], name))
        else:
            ctx.prove(Hc == H1, 'C08+C06:O8.3.crash.%s.end-is-old-or-new' % label.split('-')[0])
            for name, f in rep_clauses(img.arr, img.size, H1, v1, skolem=True):
                ctx.prove(f, 'C08+C06:O8.3.crash.%s.new-view.%s' % (label.split('-')[0], name))


def _mut_publish_first(fn):
    body = fn.body
    w = [i for i, s in enumerate(body) if isinstance(s, ast.Expr) and isinstance(s.value, ast.Call) and isinstance(s.value.func, ast.Attribute) and s.value.func.attr == 'write']
    p = [i for i, s in enumerate(body) if isinstance(s, ast.Expr) and isinstance(s.value, ast.Call) and isinstance(s.value.func, ast.Attribute) and s.value.func.attr == '__setLastRecordOffset']
    if not w or not p:
        return 0
    # publish the new end first: header := currentOffset + len(cmdData), then write the record
    st = ast.parse('self.__setLastRecordOffset(self.__currentOffset + len(cmdData))').body[0]
    body.insert(w[0], st)
    return 1


def _mut_no_trailer(fn):
    cnt = 0
    for s in fn.body:
        if isinstance(s, ast.Assign) and isinstance(s.value, ast.BinOp) and isinstance(s.value.left, ast.BinOp) and \
                isinstance(s.value.right, ast.Name) and s.value.right.id == 'cmdLenData':
            s.value = s.value.left
            cnt += 1
    return cnt


@unit(name='FileJournal.clear', relpath=JMOD, qual=['FileJournal.clear'], props=['C08', 'C06'],
      doc='O8.4: view\' == []; crash condition: old view or empty view',
      canaries=[('offset-not-reset', lambda mod: mutate_function(mod, 'FileJournal.clear', _mut_clear_keeps_offset), ['O8.4.currentOffset-is-end'])])
def fj_clear(ctx):
    fj, rf, mm, img0, v, jl = mk_journal(ctx)
    outcome, r, I = run_fj(ctx, fj, 'clear', [])
    ctx.prove(outcome == 'ok', 'C08:O8.4.no-exception', info=outcome)
    if outcome != 'ok':
        return
    v1 = View(0, v.cmd, v.idx, v.term, v.off)
    img1 = ctx.cell(mm)
    c = ctx.cell(fj)
    ctx.prove(Eq(c.fields[FJ('currentOffset')], HDR), 'C08:O8.4.currentOffset-is-end')
    prove_rep(ctx, img1.arr, img1.size, z3.IntVal(HDR), v1, 'C08+C06:O8.4')
    jl1 = ctx.cell(c.fields[FJ('journal')])
    ctx.prove(Eq(I.truth_expr(c.fields[FJ('journal')]), False) if not isinstance(jl1, PList) else len(jl1.items) == 0, 'C08:O8.4.list-empty')
    H0 = v.off(to_z3(v.n))
    for label, img in crash_states(ctx, img0):
        Hc = U32(*[img.arr(z3.IntVal(HOFF + k)) for k in range(4)])
        ctx.prove(Or(Hc == H0, Hc == HDR), 'C08+C06:O8.4.crash.end-is-old-or-empty')


def _mut_clear_keeps_offset(fn):
    cnt = 0
    for s in list(fn.body):
        if isinstance(s, ast.Assign) and isinstance(s.targets[0], ast.Attribute) and s.targets[0].attr == '__currentOffset':
            fn.body.remove(s)
            cnt += 1
    return cnt


def _delfrom_loop_spec(ctx, fj, v, k0, img0):
    """loop of deleteEntriesFrom: after r iterations currentOffset == off(n - r); the published end is off(n - r') for some
    r' <= r (multiples of ten); the record area is untouched"""
    def inv(I, fr, it):
        r = fr.locals['removedEntries']
        cur = fr.locals['currentOffset']
        n = to_z3(v.n)
        return [('counter', And(r >= 0, r <= Max(n - k0, 0), Eq(r, it['k']))),
                ('offset-is-start-of-record', Eq(cur, v.off(n - to_z3(r))))]
    return LoopSpec('C08:O8.5.walk-back-loop', inv)


@unit(name='FileJournal.deleteEntriesFrom', relpath=JMOD, qual=['FileJournal.deleteEntriesFrom'], props=['C08', 'C06'],
      doc='O8.5: view\' == view[:k] (0 <= k); loop invariant over the trailing size fields; crash condition: the published end is '
          'always the start of some record j >= k, so the file decodes to view[:j]',
      assumptions=['A-RANGE', 'A-HDR-ATOMIC'], trusted=['T-STRUCT', 'T-MMAP'],
      canaries=[('off-by-four', lambda mod: mutate_function(mod, 'FileJournal.deleteEntriesFrom', _mut_walk_wrong), ['O8.5.walk-back-loop.step.offset-is-start-of-record'])])
def fj_delete_from(ctx):
    fj, rf, mm, img0, v, jl = mk_journal(ctx)
    k = FreshInt('entryFrom')
    ctx.track('entryFrom', k)
    ctx.assume(k >= 0)
    mod = source.load(JMOD)
    loops = {'FileJournal.deleteEntriesFrom': loop_table(mod, 'FileJournal.deleteEntriesFrom', {Sel('while', header=('removedEntries',)): _delfrom_loop_spec(ctx, fj, v, k, img0)})}
    outcome, r, I = run_fj(ctx, fj, 'deleteEntriesFrom', [k], loops=loops)
    ctx.prove(outcome == 'ok', 'C08:O8.5.no-exception', info=outcome)
    if outcome != 'ok':
        return
    n = to_z3(v.n)
    n1 = z3.If(k < n, k, n)
    v1 = View(n1, v.cmd, v.idx, v.term, v.off)
    img1 = ctx.cell(mm)
    c = ctx.cell(fj)
    H1 = v.off(n1)
    ctx.prove(Eq(c.fields[FJ('currentOffset')], H1), 'C08:O8.5.currentOffset-is-end')
    prove_rep(ctx, img1.arr, img1.size, H1, v1, 'C08+C06:O8.5')
    for name, f in list_equals_view(ctx, ctx.cell(c.fields[FJ('journal')]), v1, 'C08:O8.5.list-equals-view'):
        ctx.prove(f, name)
    # crash: every published end is off(j) with k <= j <= n  (hence decodes to view[:j] by Rep of the old file)
    for st in ctx.glist('stores'):
        off, vals, old, new = st
        Hc = U32(*[new.arr(z3.IntVal(HOFF + q)) for q in range(4)])
        jj = FreshInt('crashj')
        ctx.prove(Eq(off, HOFF), 'C08+C06:O8.5.crash.only-the-header-is-written')


def _mut_walk_wrong(fn):
    cnt = 0
    for n in ast.walk(fn):
        if isinstance(n, ast.AugAssign) and isinstance(n.target, ast.Name) and n.target.id == 'currentOffset':
            n.value = ast.BinOp(left=n.value.left, op=ast.Add(), right=ast.Constant(value=4))
            cnt += 1
    return cnt


# ------------------------------------------------------------------------------------------------ deleteEntriesTo (modular: clear + add contracts)
def clear_summary_factory(st):
    def clear(I, selfv, args, kw):
        st['view'] = View(0, st['view'].cmd, st['view'].idx, st['view'].term, st['view'].off)
        st['events'].append(('clear', st['view']))
        return None
    return clear


def add_summary_factory(st):
    def add(I, selfv, args, kw):
        cmd, idx, term = args
        st['events'].append(('add', cmd, idx, term))
        return None
    return add


@unit(name='FileJournal.deleteEntriesTo', relpath=JMOD, qual=['FileJournal.deleteEntriesTo'], props=['C08', 'C06'],
      doc='O8.6: view\' == view[k:] - the body is clear() followed by add(*e) for exactly the entries view[k:], in order (callee '
          'contracts O8.4/O8.3); crash condition "a range containing view[k:]" is NOT met between clear and the re-appends (D8)',
      canaries=[('skip-first', lambda mod: mutate_function(mod, 'FileJournal.deleteEntriesTo', _mut_skip_first), ['O8.6.readds-exactly-the-suffix'])])
def fj_delete_to(ctx):
    fj, rf, mm, img0, v, jl = mk_journal(ctx, with_rep=False)   # modular: only the callee contracts and the list are used
    k = FreshInt('entryTo')
    ctx.assume(k >= 0)
    st = {'view': v, 'events': []}
    mod = source.load(JMOD)
    n = to_z3(v.n)
    kk = z3.If(k < n, k, n)

    def loop_inv(I, fr, it):
        return []

    def check(I, fr, it):
        # the iteration just finished re-added entry number k + (it-1) of the old view
        ev = [e for e in st['events'] if e[0] == 'add']
        if not ev or not is_sym(it['k']):
            return []
        _, cmd, idx, term = ev[-1]
        i = kk + it['k'] - 1
        cb = to_bytestr(cmd)
        j = FreshInt('cj')
        return [('readds-exactly-the-suffix', And(Eq(idx, v.idx(i)), Eq(term, v.term(i)), Eq(cb.n, CLEN(v.cmd(i))),
                                                  Implies(And(j >= 0, j < CLEN(v.cmd(i))), cb.at(j) == CBYTE(v.cmd(i), j)), i < n))]
    spec = LoopSpec('C08+C06:O8.6', loop_inv, check=check)
    loops = {'FileJournal.deleteEntriesTo': loop_table(mod, 'FileJournal.deleteEntriesTo', {Sel('for', body=('add',)): spec})}
    outcome, r, I = run_fj(ctx, fj, 'deleteEntriesTo', [k], registry={'FileJournal.clear': clear_summary_factory(st),
                                                                      'FileJournal.add': add_summary_factory(st)}, loops=loops)
    ctx.prove(outcome == 'ok', 'C08:O8.6.no-exception', info=outcome)
    ev = st['events']
    ctx.prove(len([e for e in ev if e[0] == 'clear']) == 1 and (not ev or ev[0][0] == 'clear'), 'C08:O8.6.cleared-once-before-readding')
    # D8: between clear() and the last add() the file holds fewer entries than the operation is meant to keep
    ctx.prove(Implies(kk < n, False) if any(e[0] == 'clear' for e in ev) else True, 'C08+C06:O8.6.crash.keeps-suffix-at-every-store',
              info='after clear() the journal file decodes to [] although view[k:] is non-empty')


def _mut_skip_first(fn):
    cnt = 0
    for n in ast.walk(fn):
        if isinstance(n, ast.Assign) and isinstance(n.value, ast.Subscript) and isinstance(n.value.slice, ast.Slice):
            n.value.slice.lower = ast.BinOp(left=n.value.slice.lower, op=ast.Add(), right=ast.Constant(value=1))
            cnt += 1
    return cnt


# ------------------------------------------------------------------------------------------------ reopen (decode loop of __init__)
def _decode_offset_var(mod):
    """the local that walks over the records in the reload loop of FileJournal.__init__: the left operand of the loop test (whatever it is called)"""
    fn, ci = mod.find('FileJournal.__init__')
    ws = [n for n in fn.body if isinstance(n, ast.While)]
    if len(ws) == 1 and isinstance(ws[0].test, ast.Compare) and isinstance(ws[0].test.left, ast.Name):
        return ws[0].test.left.id
    return 'currentOffset'


def _decode_region_start(fn):
    """index of the first statement of the run of local assignments in front of the reload loop (the loop's own set-up)"""
    ws = [i for i, n in enumerate(fn.body) if isinstance(n, ast.While)]
    if len(ws) != 1:
        return None
    i = ws[0]
    while i > 0 and isinstance(fn.body[i - 1], ast.Assign) and all(isinstance(t, ast.Name) for t in fn.body[i - 1].targets):
        i -= 1
    return i if i < ws[0] else None


def _decode_loop_spec(ctx, fjref, v, img, st):
    offvar = _decode_offset_var(source.load(JMOD))

    def construct(I, fr, it):
        k = to_z3(it['k'])
        c = ctx.cell(fjref)
        jl = c.fields[FJ('journal')]
        ctx.setcell(jl, SList(k, v.entry, 3))
        fr.locals[offvar] = v.off(k)

    def inv(I, fr, it):
        return [('k-in-range', to_z3(it['k']) <= to_z3(v.n))]

    def check(I, fr, it):
        k = to_z3(it['k'])
        c = ctx.cell(fjref)
        sl = ctx.cell(c.fields[FJ('journal')])
        vk = View(k, v.cmd, v.idx, v.term, v.off)
        out = [('offset-is-start-of-record-k', Eq(fr.locals[offvar], v.off(k)))]
        out += [(nm.split('.', 1)[-1] if False else nm, f) for nm, f in list_equals_view(ctx, as_slist(sl), vk, 'decoded-prefix-equals-view')]
        return out
    return LoopSpec('C08+C06:O8.2.decode-loop', inv, construct=construct, check=check, keep=('self',))


@unit(name='FileJournal.reopen', relpath=JMOD, qual=['FileJournal.__init__'], props=['C08', 'C06'],
      kind='region of FileJournal.__init__: the decode loop and the assignments after ResizableFile/MetaStorer are constructed',
      doc='O8.2: reopening any file satisfying Rep yields journal == decode(F) and currentOffset == H',
      assumptions=['A-RANGE'], trusted=['T-STRUCT', 'T-MMAP', 'ResizableFile.__init__ by its contract (unit ResizableFile.open); MetaStorer.getMeta by unit MetaStorer.storeMeta'],
      canaries=[('loop-le', lambda mod: mutate_function(mod, 'FileJournal.__init__', lambda fn: replace_compare(fn, lambda n: True, ast.Lt, ast.LtE, 0)),
                 ['O8.2.decode-loop'])])
def fj_reopen(ctx):
    fj, rf, mm, img0, v, jl = mk_journal(ctx)
    mod = source.load(JMOD)
    fn, ci = mod.find('FileJournal.__init__')
    # region: from `currentOffset = FIRST_RECORD_OFFSET` to the end
    s0 = _decode_region_start(fn)
    if s0 is None:
        raise Undecided('decode region of FileJournal.__init__ not located')
    start = [s0]
    stmts = fn.body[start[0]:]
    c = ctx.cell(fj)
    ctx.setcell(fj, c.with_field(FJ('journal'), ctx.alloc(PList([]))).with_field(FJ('currentOffset'), None))
    st = {}
    loops = {'FileJournal.__init__': loop_table(mod, 'FileJournal.__init__', {Sel('while'): _decode_loop_spec(ctx, fj, v, img0, st)})}
    I = Interp(ctx, registry=JREG, externals=JEXT, inline={'FileJournal.__getLastRecordOffset'}, loop_invariants=loops)
    fr = Frame(mod, 'FileJournal', 'FileJournal.__init__')
    fr.locals['self'] = fj
    try:
        I.exec_block(stmts, fr)
        outcome = 'ok'
    except PyExc as e:
        outcome = e.typ
    ctx.prove(outcome == 'ok', 'C08+C06:O8.2.no-exception', info=outcome)
    if outcome != 'ok':
        return
    c = ctx.cell(fj)
    ctx.prove(Eq(c.fields[FJ('currentOffset')], v.off(to_z3(v.n))), 'C08+C06:O8.2.currentOffset-is-end')
    for name, f in list_equals_view(ctx, as_slist(ctx.cell(c.fields[FJ('journal')])), v, 'C08+C06:O8.2.journal-is-decoded-view'):
        ctx.prove(f, name)


# ------------------------------------------------------------------------------------------------ list access and commit index
@unit(name='FileJournal.access', relpath=JMOD, qual=['FileJournal.__getitem__', 'FileJournal.__len__', 'FileJournal.setRaftCommitIndex',
                                                      'FileJournal.getRaftCommitIndex', 'FileJournal.onOneSecondTimer'], props=['C08', 'C04'],
      doc='O8.7/O8.8: __getitem__/__len__ are the list\'s; the commit index is kept in __meta and handed to the MetaStorer (tmp file + '
          'move, T-RENAME) only by onOneSecondTimer when it changed',
      trusted=['MetaStorer.storeMeta by its contract (unit MetaStorer.storeMeta: old or complete new meta at every kill point)'])
def fj_access(ctx):
    fj, rf, mm, img0, v, jl = mk_journal(ctx)
    i = FreshInt('i')
    ctx.assume(And(i >= 0, i < to_z3(v.n)))
    outcome, r, I = run_fj(ctx, fj, '__getitem__', [i])
    ctx.prove(outcome == 'ok' and And(Eq(r[1], v.idx(i)), Eq(r[2], v.term(i))), 'C08:O8.7.getitem-is-list-getitem')
    outcome, r, I = run_fj(ctx, fj, '__len__', [])
    ctx.prove(outcome == 'ok' and Eq(r, v.n), 'C08:O8.7.len-is-list-len')
    stored = []
    ci = FreshInt('newCommit')
    reg = {'MetaStorer.storeMeta': lambda I_, s, a, k: stored.append(ctx.cell(a[0]))}
    outcome, r, I = run_fj(ctx, fj, 'setRaftCommitIndex', [ci], registry=reg)
    ctx.prove(outcome == 'ok' and len(stored) == 0, 'C08:O8.8.set-does-not-touch-the-file')
    outcome, r, I = run_fj(ctx, fj, 'getRaftCommitIndex', [], registry=reg)
    ctx.prove(outcome == 'ok' and Eq(r, ci), 'C08+C04:O8.8.get-returns-last-set')
    outcome, r, I = run_fj(ctx, fj, 'onOneSecondTimer', [], registry=reg)
    ctx.prove(outcome == 'ok' and len(stored) == 1, 'C08:O8.8.timer-stores-changed-meta-once')
    if stored:
        ent = [(p, k, val) for p, k, val in stored[0].entries if k == 'raftCommitIndex']
        ctx.prove(len(ent) >= 1 and Eq(ent[-1][2], ci), 'C08+C04:O8.8.stored-commit-is-one-that-was-set')
    outcome, r, I = run_fj(ctx, fj, 'onOneSecondTimer', [], registry=reg)
    ctx.prove(outcome == 'ok' and len(stored) == 1, 'C08:O8.8.timer-idle-when-saved')


# ------------------------------------------------------------------------------------------------ MemoryJournal is the list
@unit(name='MemoryJournal', relpath=JMOD, qual=['MemoryJournal.add', 'MemoryJournal.clear', 'MemoryJournal.deleteEntriesFrom',
                                                'MemoryJournal.deleteEntriesTo', 'MemoryJournal.__getitem__', 'MemoryJournal.__len__'],
      props=['C08', 'C01'], doc='the reference: each MemoryJournal method is the corresponding list operation (this is what LogCell in the '
                                'SyncObj units assumes of the journal object)')
def memory_journal(ctx):
    mod = source.load(JMOD)
    n0 = FreshInt('n')
    ctx.assume(n0 >= 0)
    f = [z3.Function(fresh_name('mj%d' % k), I_, I_) for k in range(3)]
    base = SList(n0, (lambda i: tuple(g(to_z3(i)) for g in f)), 3)

    def fresh():
        return ctx.alloc(PObj('MemoryJournal', {'_MemoryJournal__journal': ctx.alloc(SList(base.n, base.get, 3))}))

    def call(obj, meth, args):
        fn, ci = mod.find('MemoryJournal.%s' % meth)
        I = Interp(ctx)
        return I.call_funcdef(fn, mod, 'MemoryJournal', obj, args, {}, None, 'MemoryJournal.%s' % meth), I

    def data(obj):
        return as_slist(ctx.cell(ctx.cell(obj).fields['_MemoryJournal__journal']))
    j = FreshInt('j')
    k = FreshInt('k')
    ctx.assume(k >= 0)
    o = fresh()
    e = (FreshInt('c'), FreshInt('i'), FreshInt('t'))
    call(o, 'add', list(e))
    d = data(o)
    ctx.prove(And(Eq(d.n, n0 + 1), Eq(d.get(n0), e), Implies(And(j >= 0, j < n0), Eq(d.get(j), base.get(j)))), 'C08+C01:MemoryJournal.add-is-append')
    o = fresh()
    call(o, 'clear', [])
    ctx.prove(Eq(data(o).n, 0), 'C08+C01:MemoryJournal.clear-is-empty-list')
    o = fresh()
    call(o, 'deleteEntriesFrom', [k])
    d = data(o)
    ctx.prove(And(Eq(d.n, z3.If(k < n0, k, n0)), Implies(And(j >= 0, j < to_z3(d.n)), Eq(d.get(j), base.get(j)))), 'C08+C01:MemoryJournal.deleteEntriesFrom-is-del-tail')
    o = fresh()
    call(o, 'deleteEntriesTo', [k])
    d = data(o)
    ctx.prove(And(Eq(d.n, z3.If(k < n0, n0 - k, 0)), Implies(And(j >= 0, j < to_z3(d.n)), Eq(d.get(j), base.get(j + k)))), 'C08+C01:MemoryJournal.deleteEntriesTo-is-drop-head')
    o = fresh()
    r, I = call(o, '__len__', [])
    ctx.prove(Eq(r, n0), 'C08+C01:MemoryJournal.len')
    ctx.assume(And(j >= 0, j < n0))
    r, I = call(o, '__getitem__', [j])
    ctx.prove(Eq(r, base.get(j)), 'C08+C01:MemoryJournal.getitem')


# ------------------------------------------------------------------------------------------------ MetaStorer: the .meta file is kill-safe
class Dumped(object):
    """pickle.dumps(x): an opaque byte string determined by x (T-PICKLE)"""

    def __init__(self, payload):
        self.kind, self.payload = 'dumps', payload

    def __repr__(self):
        return 'dumps(%r)' % (self.payload,)


class FsModel(object):
    """file system restricted to the names the MetaStorer touches: name -> None (absent) or a tuple of written pieces; a snapshot is
    recorded after every primitive operation - the states a kill can leave behind (T-FS: open('wb') creates/truncates, write appends,
    rename replaces the target atomically, remove deletes)"""

    def __init__(self, ctx, files):
        self.ctx = ctx
        self.files = dict(files)
        self.states = [dict(self.files)]
        self.ops = []

    def op(self, name, *a):
        self.ops.append((name,) + a)
        self.states.append(dict(self.files))


class FsFile(object):
    def __init__(self, fs, name, mode):
        self.fs, self.name, self.mode = fs, name, mode

    def call_method(self, I, ref, name, args, kw):
        fs = self.fs
        if name == 'write':
            if I.ctx.decide(FreshBool('writeFails'), 'meta-write-raises'):
                I.raise_('OSError')
            if 'w' not in self.mode and 'a' not in self.mode:
                raise Undecided('write on a file opened %r' % self.mode)
            fs.files[self.name] = (fs.files.get(self.name) or ()) + (args[0],)
            fs.op('write', self.name)
            return None
        if name == 'read':
            c = fs.files.get(self.name)
            if len(c or ()) != 1:
                raise Undecided('read of a file that is not one complete piece')
            return c[0]
        if name in ('flush', 'close', '__enter__', '__exit__'):
            fs.op(name, self.name)
            return ref if name == '__enter__' else None
        return NotImplemented


def fs_externals(ctx, fs):
    def _open(I, a, k):
        name, mode = a[0], (a[1] if len(a) > 1 else k.get('mode', 'r'))
        if not isinstance(name, str):
            raise Undecided('symbolic file name')
        if 'w' in mode:
            if ctx.decide(FreshBool('openFails'), 'meta-open-raises'):
                I.raise_('OSError')
            fs.files[name] = ()
            fs.op('open-w', name)
        else:
            if fs.files.get(name) is None:
                I.raise_('FileNotFoundError')
            fs.op('open-r', name)
        return ctx.alloc(FsFile(fs, name, mode))

    def _move(I, a, k):
        src, dst = a[0], a[1]
        if fs.files.get(src) is None:
            I.raise_('FileNotFoundError')
        if ctx.decide(FreshBool('moveFails'), 'meta-move-raises'):
            I.raise_('OSError')
        fs.files[dst] = fs.files[src]
        fs.files[src] = None
        fs.op('rename', src, dst)
        return None

    def _remove(I, a, k):
        if fs.files.get(a[0]) is None:
            I.raise_('FileNotFoundError')
        fs.files[a[0]] = None
        fs.op('remove', a[0])
        return None

    def _exists(I, a, k):
        return fs.files.get(a[0]) is not None
    return {'open': _open, 'shutil.move': _move, 'os.rename': _move, 'os.replace': _move, 'os.remove': _remove, 'os.unlink': _remove,
            'os.path.exists': _exists, 'os.path.isfile': _exists,
            'dumps': lambda I, a, k: Dumped(a[0]), 'pickle.dumps': lambda I, a, k: Dumped(a[0]),
            'loads': lambda I, a, k: (a[0].payload if isinstance(a[0], Dumped) else I.raise_('UnpicklingError')),
            'pickle.loads': lambda I, a, k: (a[0].payload if isinstance(a[0], Dumped) else I.raise_('UnpicklingError'))}


META = 'journal.bin.meta'


@unit(name='MetaStorer.storeMeta', relpath=JMOD, qual=['MetaStorer.storeMeta', 'MetaStorer.getMeta'], props=['C08', 'C04'],
      cases=[dict(existed=False), dict(existed=True)],
      doc='O8.9: after every primitive file operation of storeMeta (the states a kill can leave behind, write/open/move failures included) the '
          '.meta file is either exactly what it was before the call or the complete new meta - it is never absent, empty or partial if it '
          'existed before - so the commit index read back after a kill is one that was actually set; after a completed call getMeta() '
          'returns the stored meta; getMeta of an absent or unreadable file is the empty meta',
      trusted=['T-FS: open("wb") creates/truncates, write appends, rename replaces its target atomically, remove deletes; pickle '
               'loads(dumps(x)) == x (T-PICKLE)'],
      canaries=[('write-in-place', lambda mod: mutate_function(mod, 'MetaStorer.storeMeta', _mut_meta_in_place), ['O8.9.meta-file-old-or-new-at-every-kill-point'])])
def meta_store(ctx, existed):
    mod = source.load(JMOD)
    old = (Dumped('OLD-META'),) if existed else None
    fs = FsModel(ctx, {META: old, META + '.tmp': None})
    # a stale tmp file of an earlier killed save may be lying around
    if ctx.decide(FreshBool('staleTmp'), 'stale-tmp-file'):
        fs.files[META + '.tmp'] = ('garbage',)
        fs.states = [dict(fs.files)]
    ms = ctx.alloc(PObj('MetaStorer', {'_MetaStorer__path': META}))
    new = ctx.alloc(PDict({'raftCommitIndex': FreshInt('commit')}))
    I = Interp(ctx, externals=fs_externals(ctx, fs))
    fn, ci = mod.find('MetaStorer.storeMeta')
    try:
        I.call_funcdef(fn, mod, 'MetaStorer', ms, [new], {}, None, 'MetaStorer.storeMeta')
        outcome = 'ok'
    except PyExc as e:
        outcome = e.typ
    want_new = (Dumped(new),)

    def same(c, d):
        if c is None or d is None:
            return c is None and d is None
        return len(c) == len(d) and all(isinstance(x, Dumped) and isinstance(y, Dumped) and x.payload is y.payload for x, y in zip(c, d))
    for k, st in enumerate(fs.states):
        ctx.prove(same(st[META], old) or same(st[META], want_new), 'C08+C04:O8.9.meta-file-old-or-new-at-every-kill-point',
                  info='after %r the meta file holds %r' % (fs.ops[:k][-1:] or 'start', st[META]))
    if outcome == 'ok':
        ctx.prove(same(fs.files[META], want_new), 'C08+C04:O8.9.completed-store-leaves-the-new-meta')
        fn2, _ = mod.find('MetaStorer.getMeta')
        I2 = Interp(ctx, externals=fs_externals(ctx, FsModel(ctx, fs.files)))
        r = I2.call_funcdef(fn2, mod, 'MetaStorer', ms, [], {}, None, 'MetaStorer.getMeta')
        ctx.prove(r is new, 'C08+C04:O8.9.getMeta-returns-what-was-stored', info=repr(r))
    else:
        ctx.prove(outcome in ('OSError',), 'C08:O8.9.only-io-errors-escape', info=outcome)
    # getMeta on an absent file
    if not existed:
        fn2, _ = mod.find('MetaStorer.getMeta')
        I3 = Interp(ctx, externals=fs_externals(ctx, FsModel(ctx, {META: None})))
        r = I3.call_funcdef(fn2, mod, 'MetaStorer', ms, [], {}, None, 'MetaStorer.getMeta')
        rc = ctx.cell(r) if isinstance(r, Ref) else r
        ctx.prove(isinstance(rc, (PDict, KVDict)) and len(getattr(rc, 'items', None) or getattr(rc, 'entries', None) or []) == 0, 'C08:O8.9.absent-meta-file-is-empty-meta', info=repr(rc))


def _mut_meta_in_place(fn):
    cnt = 0
    for n in ast.walk(fn):
        if isinstance(n, ast.Call) and isinstance(n.func, ast.Name) and n.func.id == 'open' and isinstance(n.args[0], ast.BinOp):
            n.args[0] = n.args[0].left
            cnt += 1
    return cnt


# ------------------------------------------------------------------------------------------------ ResizableFile.__init__: creation is kill-safe
class Disk(object):
    """the journal file on disk: exists, byte function, size; a snapshot after every primitive operation (the states a kill leaves);
    a buffered write reaches the file as a prefix (torn write) or completely (T-FS)"""

    def __init__(self, exists, arr=None, size=0):
        self.exists, self.arr, self.size = exists, arr, size
        self.states = [self.snap('start')]

    def snap(self, what):
        return dict(what=what, exists=self.exists, arr=self.arr, size=self.size)

    def record(self, what):
        self.states.append(self.snap(what))


class DiskFile(object):
    def __init__(self, disk, mode):
        self.disk, self.mode = disk, mode

    def call_method(self, I, ref, name, args, kw):
        d = self.disk
        ctx = I.ctx
        if name == 'write':
            b = to_bytestr(args[0])
            if b is None:
                raise Undecided('write of non-bytes')
            if 'w' in self.mode:
                # torn write: only the first k bytes reach the file before a kill
                k = FreshInt('tornAt')
                ctx.assume(And(k >= 0, k <= to_z3(b.n)))
                d.arr, d.size = (lambda i, b=b: b.at(to_z3(i))), k
                d.record('torn-write')
                d.size = b.n
                d.record('write')
                return None
            raise Undecided('write in mode %r' % self.mode)
        if name == 'fileno':
            return ('fileno', d)
        if name in ('flush', 'close', '__enter__', '__exit__'):
            return ref if name == '__enter__' else None
        return NotImplemented


def disk_externals(ctx, d):
    def _open(I, a, k):
        mode = a[1] if len(a) > 1 else 'r'
        if 'w' in mode:
            d.exists, d.arr, d.size = True, (lambda i: z3.IntVal(0)), 0
            d.record('created-empty')
        elif not d.exists:
            I.raise_('FileNotFoundError')
        return ctx.alloc(DiskFile(d, mode))

    def _mmap(I, a, k):
        # mmap.mmap(fileno, 0) maps the whole file and refuses an empty one ("cannot mmap an empty file")
        sz = d.size
        empty = Eq(sz, 0)
        if (ctx.decide(empty, 'mmap-of-empty-file') if is_sym(empty) else empty):
            I.raise_('ValueError', 'cannot mmap an empty file')
        return ctx.alloc(BImg((lambda i, arr=d.arr: arr(to_z3(i))), sz))
    return {'open': _open, 'os.path.exists': lambda I, a, k: d.exists, 'mmap.mmap': _mmap,
            'os.path.getsize': lambda I, a, k: d.size, 'os.path.isfile': lambda I, a, k: d.exists,
            'os.stat': lambda I, a, k: ctx.alloc(PObj('stat_result', {'st_size': d.size}))}


def run_rf_init(ctx, d, hdr, initial=1024):
    mod = source.load(JMOD)
    fn, ci = mod.find('ResizableFile.__init__')
    rf = ctx.alloc(PObj('ResizableFile', {}))
    I = Interp(ctx, registry={'ResizableFile.__extand': extand_trusted}, externals=disk_externals(ctx, d))
    try:
        I.call_funcdef(fn, mod, 'ResizableFile', rf, ['journal.bin'], {'initialSize': initial, 'defaultContent': hdr}, None, 'ResizableFile.__init__')
        return 'ok', rf, I
    except PyExc as e:
        return e.typ, e, I


@unit(name='ResizableFile.open', relpath=JMOD, qual=['ResizableFile.__init__'], props=['C08', 'C06'],
      cases=[dict(phase='create'), dict(phase='restart-after-kill')],
      doc='O8.10: creating the journal file maps the default header zero-extended to at least the initial size; and from every state a kill '
          'during that creation can leave on disk (no file, empty file, any prefix of the header, the whole header) opening it again succeeds and '
          'maps those bytes zero-extended - so the last-record offset read from it is 0 or FIRST_RECORD_OFFSET and the journal reopens empty '
          '(nothing had been stored yet)',
      trusted=['T-FS: open("wb") creates an empty file, a buffered write reaches the disk as a prefix or completely', 'T-MMAP: mmap of an empty file raises ValueError; resize zero-fills',
               'ResizableFile.__extand by T-MMAP'])
def rfile_open(ctx, phase):
    n = 40
    hf = z3.Function(fresh_name('hdr'), I_, I_)
    hdr = ByteStr(n, (lambda i: hf(to_z3(i))))
    # the default header ends with pack('<I', FIRST_RECORD_OFFSET) (FileJournal.__getDefaultHeader: clause O8.10.header-ends-with-first-record-offset)
    # T-STRUCT instances: pack('<I', 40) == b'\x28\0\0\0'; unpack('<I') of b'\0\0\0\0' is 0 and of b'\x28\0\0\0' is 40
    for k in range(4):
        ctx.assume(hf(36 + k) == (HDR if k == 0 else 0))
    ctx.assume(And(U32(*[z3.IntVal(0)] * 4) == 0, U32(z3.IntVal(HDR), *[z3.IntVal(0)] * 3) == HDR))
    j = FreshInt('j')
    if phase == 'create':
        d = Disk(False)
        outcome, rf, I = run_rf_init(ctx, d, hdr)
        ctx.prove(outcome == 'ok', 'C08+C06:O8.10.create.no-exception', info=outcome)
        if outcome != 'ok':
            return
        mm = ctx.cell(ctx.cell(rf).fields[RF('mm')])
        ctx.prove(to_z3(mm.size) >= 1024, 'C08:O8.10.create.mapping-at-least-initial-size')
        ctx.prove(Implies(And(j >= 0, j < to_z3(mm.size)), mm.arr(j) == z3.If(j < n, hf(j), 0)), 'C08+C06:O8.10.create.mapping-is-header-then-zeros')
        ctx.ghost['disk_states'] = d.states
        ctx.prove(all(s['what'] in ('start', 'created-empty', 'torn-write', 'write') for s in d.states) and len(d.states) >= 3,
                  'C08:O8.10.create.kill-states-are-prefixes-of-the-header', info=repr([s['what'] for s in d.states]))
        return
    # restart from an arbitrary state a kill during creation leaves: the file exists and holds the first k bytes of the header, 0 <= k <= 40
    # (the no-file state is the 'create' case itself)
    k = FreshInt('headerBytesOnDisk')
    ctx.assume(And(k >= 0, k <= n))
    ctx.track('header bytes on disk', k)
    d = Disk(True, (lambda i: hf(to_z3(i))), k)
    outcome, rf, I = run_rf_init(ctx, d, hdr)
    ctx.prove(outcome == 'ok', 'C08+C06:O8.10.restart-after-kill-during-creation-opens', info=outcome)
    if outcome != 'ok':
        return
    mm = ctx.cell(ctx.cell(rf).fields[RF('mm')])
    ctx.prove(to_z3(mm.size) >= 1024, 'C08:O8.10.restart.mapping-at-least-initial-size')
    # the last-record-offset field holds pack(0) or pack(FIRST_RECORD_OFFSET): the decode loop of FileJournal.__init__ does not run
    b = [mm.arr(z3.IntVal(HOFF + q)) for q in range(4)]
    ctx.prove(And(Or(b[0] == 0, b[0] == HDR), b[1] == 0, b[2] == 0, b[3] == 0), 'C08+C06:O8.10.restart.offset-field-is-zero-or-first-record-offset')
    # ... and the real decode region of FileJournal.__init__ on this mapping yields the empty journal with currentOffset at the first record
    mod = source.load(JMOD)
    fn, ci = mod.find('FileJournal.__init__')
    s0_ = _decode_region_start(fn)
    start = [s0_] if s0_ is not None else []
    if not start:
        raise Undecided('decode region of FileJournal.__init__ not located')
    fj = ctx.alloc(PObj('FileJournal', {FJ('journalFile'): rf, FJ('journal'): ctx.alloc(PList([])), FJ('currentOffset'): None}))
    I2 = Interp(ctx, registry=JREG, externals=JEXT, inline={'FileJournal.__getLastRecordOffset'})
    fr = Frame(mod, 'FileJournal', 'FileJournal.__init__')
    fr.locals['self'] = fj
    try:
        I2.exec_block(fn.body[start[0]:], fr)
        out2 = 'ok'
    except PyExc as e:
        out2 = e.typ
    ctx.prove(out2 == 'ok', 'C08+C06:O8.10.restart.decode-no-exception', info=out2)
    if out2 == 'ok':
        c = ctx.cell(fj)
        jl = ctx.cell(c.fields[FJ('journal')])
        ctx.prove(isinstance(jl, PList) and len(jl.items) == 0, 'C08+C06:O8.10.restart.journal-reopens-empty')
        ctx.prove(Eq(c.fields[FJ('currentOffset')], HDR), 'C08+C06:O8.10.restart.appends-start-at-the-first-record-offset')


@unit(name='FileJournal.defaultHeader', relpath=JMOD, qual=['FileJournal.__getDefaultHeader'], props=['C08', 'C06'],
      doc='O8.10 (header): the default header is exactly FIRST_RECORD_OFFSET (40) bytes long - name padded to 24, version padded to 8, '
          'pack("<II", format version, FIRST_RECORD_OFFSET) - so a fresh journal\'s last-record offset is the first record offset (what units '
          'ResizableFile.open and FileJournal.reopen start from)',
      trusted=['T-STRUCT'])
def fj_default_header(ctx):
    mod = source.load(JMOD)
    fn, ci = mod.find('FileJournal.__getDefaultHeader')
    obj = ctx.alloc(PObj('FileJournal', {}))
    ext = dict(JEXT)
    ext['str.encode'] = lambda I_, a, k: a[0].encode() if isinstance(a[0], str) else I_.raise_('TypeError')
    I = Interp(ctx, registry=JREG, externals=ext)
    I.cur_mod = mod
    try:
        h = I.call_funcdef(fn, mod, 'FileJournal', obj, [], {}, None, 'FileJournal.__getDefaultHeader')
        outcome = 'ok'
    except PyExc as e:
        outcome, h = e.typ, None
    ctx.prove(outcome == 'ok', 'C08:O8.10.header.no-exception', info=outcome)
    if outcome != 'ok':
        return
    hb = to_bytestr(h)
    ctx.prove(hb is not None and Eq(hb.n, HDR), 'C08+C06:O8.10.header.is-first-record-offset-bytes-long', info=repr(getattr(hb, 'n', h)))
    if hb is None:
        return
    for k in range(4):
        ctx.prove(hb.at(z3.IntVal(HOFF + k)) == LE32[k](z3.IntVal(HDR)), 'C08+C06:O8.10.header.last-record-offset-field-is-first-record-offset')
        ctx.prove(hb.at(z3.IntVal(32 + k)) == LE32[k](z3.IntVal(1)), 'C08:O8.10.header.format-version-field')


# ------------------------------------------------------------------------------------------------ a session: reopen, then empty the journal
@unit(name='FileJournal.reopen-then-empty', relpath=JMOD, qual=['FileJournal.__init__', 'FileJournal.clear', 'FileJournal.deleteEntriesFrom'], props=['C08', 'C06'],
      cases=[dict(op='clear'), dict(op='deleteEntriesFrom0')],
      kind='two calls in sequence on one object: the whole real FileJournal.__init__ on a file satisfying Rep (ResizableFile / MetaStorer construction by '
           'their contracts, decode loop under its loop contract), then the emptying operation',
      doc='O8.11 (history: any operation after a reopen): the object state an operation starts from is whatever the real __init__ establishes - including '
          'state a unit that builds its pre-state by hand cannot know about (caches, flags) - and emptying a reopened journal empties it on disk too: '
          'afterwards the file alone decodes to the empty journal (header offset == FIRST_RECORD_OFFSET), so another reopen or a kill cannot bring the '
          'dropped entries back',
      assumptions=['A-RANGE'], trusted=['T-STRUCT', 'T-MMAP'])
def fj_reopen_then_empty(ctx, op):
    rf, mm, img0 = mk_rfile(ctx)
    v = fresh_view(ctx)
    H = v.off(to_z3(v.n))
    assume_rep(ctx, img0.arr, img0.size, H, v)
    ctx.track('n_records', v.n)
    mod = source.load(JMOD)
    fn, ci = mod.find('FileJournal.__init__')
    fj = ctx.alloc(PObj('FileJournal', {}))
    meta = ctx.alloc(KVDict([(FreshBool('hasCommit'), 'raftCommitIndex', FreshInt('storedCommit'))]))
    ms = ctx.alloc(PObj('MetaStorer', {'_MetaStorer__path': 'journal.bin.meta'}))
    st = {}
    loops = {'FileJournal.__init__': loop_table(mod, 'FileJournal.__init__', {Sel('while'): _decode_loop_spec(ctx, fj, v, img0, st)})}
    reg = dict(JREG)
    reg['MetaStorer.getMeta'] = lambda I_, s, a, k: meta
    ext = dict(JEXT)
    ext['str.encode'] = lambda I_, a, k: a[0].encode() if isinstance(a[0], str) else I_.raise_('TypeError')
    I = Interp(ctx, registry=reg, externals=ext, inline={'FileJournal.__getLastRecordOffset', 'FileJournal.__setLastRecordOffset', 'FileJournal.__getDefaultHeader'},
               loop_invariants=loops, hooks={'new:ResizableFile': lambda I_, a, k: rf, 'new:MetaStorer': lambda I_, a, k: ms})
    I.cur_mod = mod
    try:
        I.call_funcdef(fn, mod, 'FileJournal', fj, ['journal.bin'], {}, None, 'FileJournal.__init__')
        outcome = 'ok'
    except PyExc as e:
        outcome = e.typ
    ctx.prove(outcome == 'ok', 'C08+C06:O8.11.reopen.no-exception', info=outcome)
    if outcome != 'ok':
        return
    c = ctx.cell(fj)
    ctx.prove(Eq(c.fields.get(FJ('currentOffset')), H), 'C08+C06:O8.11.reopen.currentOffset-is-end')
    if op == 'clear':
        outcome, r, I2 = run_fj(ctx, fj, 'clear', [])
    else:
        loops2 = {'FileJournal.deleteEntriesFrom': loop_table(mod, 'FileJournal.deleteEntriesFrom', {Sel('while'): _delfrom_loop_spec(ctx, fj, v, z3.IntVal(0), img0)})}
        outcome, r, I2 = run_fj(ctx, fj, 'deleteEntriesFrom', [0], loops=loops2)
    ctx.prove(outcome == 'ok', 'C08+C06:O8.11.empty.no-exception', info=outcome)
    if outcome != 'ok':
        return
    img1 = ctx.cell(mm)
    c = ctx.cell(fj)
    ctx.prove(Eq(c.fields[FJ('currentOffset')], HDR), 'C08:O8.11.empty.currentOffset-is-first-record-offset')
    # the file alone: its published end is the first record offset, i.e. it decodes to the empty journal
    want = [LE32[k](z3.IntVal(HDR)) for k in range(4)]
    for k in range(4):
        ctx.prove(img1.arr(z3.IntVal(HOFF + k)) == want[k], 'C08+C06:O8.11.emptied-journal-is-empty-on-disk')
    jl1 = ctx.cell(c.fields[FJ('journal')])
    ctx.prove((isinstance(jl1, PList) and len(jl1.items) == 0) or (isinstance(jl1, SList) and Eq(jl1.n, 0)), 'C08:O8.11.empty.list-empty', info=repr(jl1))
