"""Contracts on snapshot load / compaction in SyncObj (C09 O9.1/O9.4, C06 O6.3/O6.4, C17 O17.4/O17.6)."""
import ast
import z3
from pyvc.values import *   # noqa
from pyvc.harness import unit, mutate_function, replace_compare
from pyvc.ctx import Undecided
from pyvc.interp import Interp
from .so_common import *    # noqa
from .so_common import F, _clen, _ctype
from .so_apply import APPLY_REG, onSetCodeVersion_summary
from .so_tick import LEADER

LOAD = 'SyncObj.__loadDumpFile'
COMPACT = 'SyncObj.__tryLogCompaction'


class ObjDictView(object):
    """self.__dict__ of a modelled object"""

    def __init__(self, ref):
        self.ref = ref

    def set_item(self, I, ref, k, v):
        c = I.ctx.cell(self.ref)
        I.ctx.setcell(self.ref, c.with_field(k, v))
        I.ctx.ghost['attr_set'] = I.ctx.glist('attr_set') + [(k, v)]

    def iter_items(self, I):
        return [(True, k) for k in I.ctx.cell(self.ref).fields]

    def call_method(self, I, ref, name, args, kw):
        if name in ('items', 'iteritems'):
            return I.ctx.alloc(PList([(k, v) for k, v in I.ctx.cell(self.ref).fields.items()]))
        return NotImplemented


def _get_attr_with_dict(self, obj, name, fr=None, orig=Interp.get_attr):
    if name == '__dict__' and isinstance(obj, Ref) and isinstance(self.ctx.cell(obj), PObj):
        return self.ctx.alloc(ObjDictView(obj))
    return orig(self, obj, name, fr)


Interp.get_attr = _get_attr_with_dict


def mk_dump(ctx, so, with_state=True):
    """a dump tuple (state, lastEntry, prevEntry, cluster) as Serializer.deserialize returns it (T-PICKLE/T-GZIP)"""
    pidx = FreshInt('dumpPrevIdx')
    ctx.track('dump.prevIdx', pidx)
    ctx.assume(pidx >= 1)
    prev = (CmdV(FreshInt('dumpPrevCmd')), pidx, FreshInt('dumpPrevTerm'))
    last = (CmdV(FreshInt('dumpLastCmd')), pidx + 1, FreshInt('dumpLastTerm'))
    ev = FreshInt('dumpEnabledVer')
    ctx.track('dump.enabledVer', ev)
    state = ctx.alloc(PDict({'_SyncObj__enabledCodeVersion': ev, 'userAttr': Opaque('uservalue', FreshInt('userAttr'))})) if with_state else None
    has_self = FreshBool('dumpHasSelf')
    # index U denotes this node only if it has an own address
    ctx.assume(Implies(so.get('selfNode').isnone, Not(has_self)))
    cluster = ctx.alloc(NSet([FreshBool('dumpMember%d' % i) for i in range(so.U)] + [has_self]))
    return (state, last, prev, cluster), dict(prev=prev, last=last, ev=ev, cluster=cluster, state=state)


@unit(name='loadDumpFile', relpath=MOD, qual=[LOAD, 'SyncObj.__updateClusterConfiguration'], props=['C09', 'C06', 'C17', 'C01', 'C10'],
      cases=[dict(clear=c, with_state=w) for c in (True, False) for w in (True, False)],
      doc='O9.4/O1.5: attributes restored, journal becomes the dump\'s two entries (or is kept if it already starts with them), '
          'lastApplied is the dump position, member set restored under dynamic membership, name table rebuilt for the restored '
          'enabled version (O17.6), returns True; any failure returns False; O6.3: journal entries after the dump position survive',
      assumptions=['A-DUMP: the two entries of a dump are contiguous', 'A-ATTRS', 'consumers: none in this unit (consumer '
                   '_serialize/_deserialize round trip is unit consumer.serialize)'],
      trusted=['T-PICKLE', 'T-GZIP (Serializer.deserialize returns the tuple given to serialize)'],
      canaries=[('table-for-v0', lambda mod: mutate_function(mod, LOAD, _mut_table_v0), ['O17.6.name-table-for-restored-version']),
                ('applied-prev', lambda mod: mutate_function(mod, LOAD, _mut_applied_prev), ['O9.4.applied-is-dump-position'])])
def load_dump_file(ctx, clear, with_state):
    so = SO(ctx, min(UNIVERSE(), 3))   # the member-set loops fork per node twice: universe capped at 3 other nodes in this unit
    so.assume_inv()
    dump, d = mk_dump(ctx, so, with_state)
    old = so.snapshot()
    olog = old.get('raftLog')
    ev = []
    reg = dict(APPLY_REG)
    fails = FreshBool('deserializeFails')

    def deserialize(I, selfv, args, kw):
        if I.ctx.decide(fails, 'deserialize-fails'):
            I.raise_('ArbitraryError')     # reading / unpickling a dump may fail with any exception type
        return dump
    reg['Serializer.deserialize'] = deserialize
    reg['Transport.addNode'] = lambda I, s, a, k: ev.append(('addNode', a[0]))
    reg['Transport.dropNode'] = lambda I, s, a, k: ev.append(('dropNode', a[0]))
    I = make_interp(ctx, so, registry=reg, inline={'SyncObj.__updateClusterConfiguration'})
    k, v = run_method(I, so, LOAD, [], {'clearJournal': clear})
    ctx.prove(k == 'ok', 'C09+C06+C01:O9.4.no-exception-escapes', info=getattr(v, 'typ', None))
    if k != 'ok':
        return
    if ctx.decide(fails, 'failed'):
        ctx.prove(v is False, 'C09+C01+C06:O9.4.failure-reported')
        for n, b in field_unchanged(old, so, ['raftLog', 'raftLastApplied', 'raftCommitIndex', 'otherNodes']):
            ctx.prove(b, 'C09+C06+C01:O9.4.failed-load-changes-nothing.%s' % n)
        return
    ctx.prove(v is True, 'C09+C01+C06:O9.4.success-reported')
    log = so.log()
    pidx = d['prev'][1]
    ctx.prove(so.get('raftLastApplied') == pidx + 1, 'C09+C01+C06:O9.4.applied-is-dump-position')
    ctx.prove(And(so.get('raftLastApplied') >= to_z3(log.first), so.get('raftLastApplied') <= log.last_idx()), 'C09+C01+C06:I2.applied-within-journal-after-a-dump-load')
    # the journal holds the dump's two entries at its head
    ctx.prove(And(to_z3(log.n) >= 2, Eq(log.first, pidx), log.termf(z3.IntVal(0)) == d['prev'][2], log.termf(z3.IntVal(1)) == d['last'][2],
                  log.cmdf(z3.IntVal(0)) == d['prev'][0].id, log.cmdf(z3.IntVal(1)) == d['last'][0].id), 'C09+C01+C06:O9.4.journal-starts-with-dump-entries')
    if clear:
        ctx.prove(to_z3(log.n) == 2, 'C09+C01+C06:O1.5.install-replaces-journal')
    else:
        # O6.3 (from the statement of C06): what the node had journaled beyond the dump position is still there
        w = FreshInt('w')
        had = And(olog.has(pidx), olog.has(pidx + 1), olog.term_at(pidx) == d['prev'][2], olog.term_at(pidx + 1) == d['last'][2],
                  olog.cmd_at(pidx) == d['prev'][0].id, olog.cmd_at(pidx + 1) == d['last'][0].id)
        ctx.prove(Implies(And(had, w > pidx + 1, w <= olog.last_idx()), And(log.has(w), log.term_at(w) == olog.term_at(w), log.cmd_at(w) == olog.cmd_at(w))),
                  'C06:O6.3.journal-entries-after-dump-position-survive-start-up')
    if with_state:
        ctx.prove(so.get('enabledCodeVersion') is d['ev'] or Eq(so.get('enabledCodeVersion'), d['ev']), 'C09+C17:O9.4.enabled-version-restored')
        ctx.prove(any(kk == 'userAttr' for kk, vv in ctx.glist('attr_set')), 'C09:O9.4.attributes-restored')
    sets = ctx.glist('setver')
    ctx.prove(len(sets) >= 1 and Eq(sets[-1], so.get('enabledCodeVersion')), 'C17+C09:O17.6.name-table-for-restored-version')
    dyn = so.conf('dynamicMembershipChange')
    v0, v1, cl = old.get('otherNodes').bits, so.cell('otherNodes').bits, ctx.cell(d['cluster']).bits
    for i in range(so.U):
        ctx.prove(Iff(v1[i], Ite(dyn, cl[i], v0[i])), 'C09+C10:O9.4.member-set-restored-under-dynamic-membership')
    ctx.prove(Not(v1[so.U]), 'C10:I3.self-not-in-voters')
    nx, mt = so.cell('raftNextIndex'), so.cell('raftMatchIndex')
    for i in range(so.U):
        ctx.prove(Implies(And(dyn, v1[i], Not(v0[i])), And(nx.pres[i], mt.pres[i])), 'C10+C04:O9.4.I4.maps-for-restored-members')
    ctx.prove(so.get('raftCommitIndex') == old.get('raftCommitIndex'), 'C04:O9.4.commit-untouched')
    # O2.4: a dump load settles no submission - a position covered by the snapshot may hold exactly the subscribed command (committed by a later
    # leader), so neither SUCCESS nor DISCARDED may be reported from here, and term / vote / request ids are not part of a dump
    mine = [a for f_, a in ctx.glist('cb') if getattr(f_, 'tag', '').startswith('user')]
    ctx.prove(len(mine) == 0, 'C02:O2.4.dump-load-fires-no-submitter-callback', info=repr(mine[:2]))
    for n, b in field_unchanged(old, so, ['commandsWaitingCommit', 'commandsWaitingReply', 'commandsLocalCounter', 'raftCurrentTerm', 'votedForNodeId', 'raftState']):
        ctx.prove(b, 'C02+C03+C07:O9.4.dump-load-frame.%s' % n)


def _mut_table_v0(fn):
    cnt = 0
    for n in ast.walk(fn):
        if isinstance(n, ast.Call) and isinstance(n.func, ast.Attribute) and n.func.attr == '__onSetCodeVersion':
            n.args = [ast.Constant(value=0)]
            cnt += 1
    return cnt


def _mut_applied_prev(fn):
    cnt = 0
    for n in ast.walk(fn):
        if isinstance(n, ast.Assign) and isinstance(n.targets[0], ast.Attribute) and n.targets[0].attr == '__raftLastApplied':
            n.value = ast.parse('data[2][1]').body[0].value
            cnt += 1
    return cnt


@unit(name='setCodeVersion', relpath=MOD, qual=['SyncObj.setCodeVersion', 'SyncObj._setCodeVersion'], props=['C17'],
      cases=[dict(via='api'), dict(via='utility')],
      doc='O17.4: raises for a version above the own code or below the enabled one; otherwise submits exactly one VERSION command - '
          'through the public call and through the admin-utility wrapper _setCodeVersion(args, callback) alike (the exception of a '
          'rejected admin request is turned into the answer by TCPTransport._onUtilityMessage)',
      canaries=[('drop-lower-check', lambda mod: mutate_function(mod, 'SyncObj.setCodeVersion', _mut_drop_lower), ['O17.4.lower-version-rejected'])])
def set_code_version(ctx, via='api'):
    so = SO(ctx, UNIVERSE())
    so.assume_inv()
    nv = FreshInt('newVersion')
    ctx.track('newVersion', nv)
    reg = dict(SUMMARIES)
    from .so_submit import applyCommand_summary
    reg['SyncObj._applyCommand'] = applyCommand_summary
    I = make_interp(ctx, so, registry=reg)
    old = so.snapshot()
    if via == 'utility':
        k, v = run_method(I, so, 'SyncObj._setCodeVersion', [ctx.alloc(PList([nv])), Callable_('user:cb')])
    else:
        k, v = run_method(I, so, 'SyncObj.setCodeVersion', [nv, Callable_('user:cb')])
    sub = ctx.glist('submitted')
    sv, ev = so.get('selfCodeVersion'), so.get('enabledCodeVersion')
    if k == 'raise':
        ctx.prove(Or(nv > sv, nv < ev), 'C17:O17.4.raises-only-for-unsupported-or-lower', info=v.typ)
        ctx.prove(len(sub) == 0, 'C17:O17.4.rejected-request-submits-nothing')
        return
    ctx.prove(nv <= sv, 'C17:O17.4.unsupported-version-rejected')
    ctx.prove(nv >= ev, 'C17:O17.4.lower-version-rejected')
    ctx.prove(len(sub) == 1, 'C17:O17.4.one-command-submitted')
    if sub:
        a = sub[0]
        from .so_model import Pickled
        ctx.prove(isinstance(a[0], Pickled) and (a[0].value is nv or Eq(a[0].value, nv)) and a[2] == 3, 'C17:O17.4.command-is-VERSION-of-requested-number')
    ctx.prove(so.get('enabledCodeVersion') is ev or Eq(so.get('enabledCodeVersion'), old.get('enabledCodeVersion')), 'C17:O17.4.not-enabled-before-commit')


def _mut_drop_lower(fn):
    cnt = 0
    for n in fn.body:
        if isinstance(n, ast.If) and any(isinstance(x, ast.Attribute) and x.attr == '__enabledCodeVersion' for x in ast.walk(n.test)):
            n.test = ast.Constant(value=False)
            cnt += 1
    return cnt


# ------------------------------------------------------------------------------------------------ __tryLogCompaction
@unit(name='tryLogCompaction', relpath=MOD, qual=[COMPACT], props=['C09', 'C06', 'C01'],
      doc='O9.1: the tuple handed to serialize is (attributes outside __properies, log[applied], log[applied-1], voters + self) with id '
          'log[applied-1].idx, only when idle and two entries end at applied; O6.4: the journal is trimmed only on a tick where '
          'checkSerializing reported SUCCESS, and exactly up to the reported id',
      assumptions=['logCompactionSplit == False in this unit', 'no consumers in this unit', 'conf.serializer is None', "A-I2: the applied position lies inside the journal (first <= lastApplied <= last): established by the start-up path and by a dump load, kept by compaction and by the apply loop (clauses I2.*); that a follower never truncates an applied entry is Raft's state-machine safety (A-RAFT), not provable per call"],
      canaries=[('swap-entries', lambda mod: mutate_function(mod, COMPACT, _mut_swap_entries), ['O9.1.snapshot-point-is-last-applied-and-predecessor']),
                ('trim-always', lambda mod: mutate_function(mod, COMPACT, _mut_trim_always), ['O6.4.journal-trimmed-only-after-success'])])
def try_log_compaction(ctx):
    so = SO(ctx, min(UNIVERSE(), 3))
    so.assume_inv()
    ctx.assume(Not(so.conf('logCompactionSplit')))
    ctx.assume(Not(so.get('selfNode').isnone))
    log0 = so.log()
    a0 = so.get('raftLastApplied')
    ctx.assume(And(a0 >= to_z3(log0.first), a0 <= log0.last_idx()))
    c = ctx.cell(so.selfref)
    user_attr = Opaque('uservalue', FreshInt('userAttr'))
    c = c.with_field('userAttr', user_attr)
    props_ = ctx.alloc(PList([k for k in c.fields if k != 'userAttr'] + ['_SyncObj__properies']))
    c = c.with_field('_SyncObj__properies', props_)
    ctx.setcell(so.selfref, c)
    old = so.snapshot()
    state, sid = FreshInt('serializeState'), FreshInt('serializeID')
    ctx.assume(And(state >= 0, state <= 3))
    ctx.track('serializeState', state)
    # a reported id is the first entry index of an earlier snapshot point (O9.1 of the earlier call): an applied position, hence not beyond the
    # journal's end - but the journal's head may have moved past it meanwhile (a newer snapshot installed by the leader replaces the journal)
    # it is the predecessor of the position that was applied when the dump began (O9.1.id-is-predecessor-index), and lastApplied never decreases (R11)
    ctx.assume(Implies(state == 2, And(sid >= 1, sid + 1 <= log0.last_idx(), sid + 1 <= a0)))
    calls = []
    reg = dict(SUMMARIES)
    reg['Serializer.checkSerializing'] = lambda I, s, a, k: (state, Opt(state == 0, sid))
    reg['Serializer.serialize'] = lambda I, s, a, k: calls.append(a)
    I = make_interp(ctx, so, registry=reg)
    k, v = run_method(I, so, COMPACT, [])
    ctx.prove(k == 'ok', 'C09+C06:O9.1.no-exception', info=getattr(v, 'typ', None))
    if k != 'ok':
        return
    log1 = so.log()
    trimmed = [op for op in ctx.glist('log_ops') if op[0] == 'delTo']
    ctx.prove(Implies(state != 2, len(trimmed) == 0) if trimmed else True, 'C06+C09:O6.4.journal-trimmed-only-after-success')
    if ctx.decide(state == 2, 'success'):
        behind = sid < to_z3(log0.first)
        ctx.prove(Implies(Not(behind), And(Eq(log1.first, sid), log1.last_idx() == log0.last_idx())), 'C06+C09:O6.4.trim-exactly-to-the-snapshot-point')
        # the snapshot point already lies behind the journal's head: nothing may be trimmed (everything in the journal is newer than the dump)
        ctx.prove(Implies(behind, And(Eq(log1.first, log0.first), Eq(log1.n, log0.n))), 'C06+C09+C01:O6.4.snapshot-point-behind-the-journal-trims-nothing')
        j = FreshInt('j')
        ctx.prove(Implies(And(j >= sid, j >= to_z3(log0.first), j <= log0.last_idx()), And(log1.has(j), log1.term_at(j) == log0.term_at(j), log1.cmd_at(j) == log0.cmd_at(j))),
                  'C06+C09+C01:O6.4.kept-suffix-unchanged')
    else:
        ctx.prove(log_same(old.get('raftLog'), log1), 'C06+C09:O6.4.journal-untouched-without-success')
    ctx.prove(Implies(state != 0, len(calls) == 0) if calls else True, 'C09:O9.1.no-new-dump-while-one-is-pending')
    ctx.prove(len(calls) <= 1, 'C09:O9.1.at-most-one-dump-per-tick')
    if calls:
        (payload, did) = calls[0]
        ctx.prove(isinstance(payload, tuple) and len(payload) == 4, 'C09:O9.1.payload-shape')
        data, e1, e0, cluster = payload
        ctx.prove(And(Eq(e1[1], a0), Eq(e0[1], a0 - 1), Eq(e1[2], log0.term_at(a0)), Eq(e0[2], log0.term_at(a0 - 1)),
                      Eq(e1[0].id, log0.cmd_at(a0)), Eq(e0[0].id, log0.cmd_at(a0 - 1)), a0 - 1 >= to_z3(log0.first)),
                  'C09+C01:O9.1.snapshot-point-is-last-applied-and-predecessor')
        ctx.prove(Eq(did, a0 - 1), 'C09+C06:O9.1.id-is-predecessor-index')
        dc = ctx.cell(data)
        ctx.prove(isinstance(dc, PDict) and set(dc.items) == {'userAttr'} and dc.items['userAttr'] is user_attr, 'C09:O9.1.state-is-the-user-attributes')
        cb = ctx.cell(cluster).bits
        vb = old.get('otherNodes').bits
        ctx.prove(And(cb[so.U], *[Iff(cb[i], vb[i]) for i in range(so.U)]), 'C09+C10+C18:O9.1.cluster-is-voters-plus-self')
    for n, b in field_unchanged(old, so, ['raftCommitIndex', 'raftLastApplied', 'raftCurrentTerm', 'otherNodes']):
        ctx.prove(b, 'C09+C04:O9.1.frame.%s' % n)
    ctx.prove(And(a0 >= to_z3(log1.first), a0 <= log1.last_idx()), 'C09+C06+C01:I2.applied-within-journal-kept-by-compaction')


def _mut_swap_entries(fn):
    cnt = 0
    for n in ast.walk(fn):
        if isinstance(n, ast.Call) and isinstance(n.func, ast.Attribute) and n.func.attr == 'serialize':
            t = n.args[0]
            t.elts[1], t.elts[2] = t.elts[2], t.elts[1]
            cnt += 1
    return cnt


def _mut_trim_always(fn):
    cnt = 0
    for s in fn.body:
        if isinstance(s, ast.If) and any(isinstance(x, ast.Attribute) and x.attr == 'SUCCESS' for x in ast.walk(s.test)):
            s.test = ast.parse('serializeID is not None').body[0].value
            cnt += 1
    return cnt


# ------------------------------------------------------------------------------------------------ SyncObjConsumer (de)serialisation
@unit(name='consumer.serialize', relpath=MOD, qual=['SyncObjConsumer._serialize', 'SyncObjConsumer._deserialize', 'SyncObjConsumer.__init__'], props=['C15', 'C09'],
      doc='consumer snapshot round trip: _serialize returns exactly the attributes created after SyncObjConsumer.__init__ (not _syncObj, '
          'not the bookkeeping set), and _deserialize of that dict on a fresh consumer restores exactly those values',
      canaries=[('serialize-everything', lambda mod: mutate_function(mod, 'SyncObjConsumer._serialize', _mut_serialize_all), ['consumer.serialize-only-user-attributes'])])
def consumer_serialize(ctx):
    mod = source.load(MOD)
    I = Interp(ctx, inline={'iteritems'}, hooks={})
    obj = ctx.alloc(PObj('SyncObjConsumer', {}))
    fn, ci = mod.find('SyncObjConsumer.__init__')
    I.call_funcdef(fn, mod, 'SyncObjConsumer', obj, [], {}, None, 'SyncObjConsumer.__init__')
    props_ = ctx.cell(obj).fields.get('_SyncObjConsumer__properies')
    ctx.prove(props_ is not None, 'C15+C09:consumer.init-records-base-attributes')
    # __properies is a set of attribute names: model as a list of the names recorded by the real __init__
    if isinstance(props_, Ref) and isinstance(ctx.cell(props_), (NSet,)):
        raise Undecided('attribute-name set modelled as node set')
    # attribute values may be falsy (counter 0, empty container): they are part of the state all the same
    a, b = FreshInt('counterValue'), ctx.alloc(PList([]))
    ctx.track('counterValue', a)
    c = ctx.cell(obj)
    ctx.setcell(obj, c.with_field('_ReplX__data', a).with_field('_ReplX__maxsize', b))
    fn, ci = mod.find('SyncObjConsumer._serialize')
    d = I.call_funcdef(fn, mod, 'SyncObjConsumer', obj, [], {}, None, 'SyncObjConsumer._serialize')
    dc = ctx.cell(d)
    ctx.prove(isinstance(dc, PDict) and set(dc.items) == {'_ReplX__data', '_ReplX__maxsize'} and dc.items['_ReplX__data'] is a and dc.items['_ReplX__maxsize'] == b,
              'C15+C09:consumer.serialize-only-user-attributes', info=repr(sorted(dc.items)) if isinstance(dc, PDict) else repr(dc))
    fresh = ctx.alloc(PObj('SyncObjConsumer', {}))
    fn, ci = mod.find('SyncObjConsumer.__init__')
    I.call_funcdef(fn, mod, 'SyncObjConsumer', fresh, [], {}, None, 'SyncObjConsumer.__init__')
    so_marker = Opaque('syncobj', 1)
    ctx.setcell(fresh, ctx.cell(fresh).with_field('_syncObj', so_marker).with_field('_ReplX__data', Opaque('uservalue', FreshInt('stale'))))
    fn, ci = mod.find('SyncObjConsumer._deserialize')
    I.call_funcdef(fn, mod, 'SyncObjConsumer', fresh, [d], {}, None, 'SyncObjConsumer._deserialize')
    f = ctx.cell(fresh).fields
    ctx.prove(f.get('_ReplX__data') is a and f.get('_ReplX__maxsize') == b, 'C15+C09:consumer.deserialize-restores-values')
    ctx.prove(f.get('_syncObj') is so_marker, 'C15+C09:consumer.deserialize-keeps-binding')


def _mut_serialize_all(fn):
    cnt = 0
    for n in ast.walk(fn):
        if isinstance(n, ast.ListComp) and n.generators[0].ifs:
            n.generators[0].ifs = []
            cnt += 1
    return cnt


# ------------------------------------------------------------------------------------------------ start-up region of SyncObj.__init__ (O6.2)
@unit(name='init.startup', relpath=MOD, qual=['SyncObj.__init__'], props=['C06', 'C04', 'C07'],
      kind='region of SyncObj.__init__: from `self.__raftState = ...` to `self.__raftLastApplied = 1` (X7)',
      doc='O6.2: after start-up the log is exactly what the journal holds (C08 reopen), or a single no-op (index 1, term 0) appended to an '
          'empty journal; the commit index is the stored one; lastApplied restarts at 1; and either the journal still starts at index <= 2 '
          'or a dump file is configured from which the first tick loads the state before anything is applied',
      assumptions=['the journal object returned by createJournal is the decoded file (unit FileJournal.reopen)'],
      canaries=[('commit-from-one', lambda mod: mutate_function(mod, 'SyncObj.__init__', _mut_commit_from_one), ['O6.2.commit-is-stored-commit'])])
def init_startup(ctx):
    so = SO(ctx, min(UNIVERSE(), 3))
    mod = so.mod
    fn, ci = mod.find('SyncObj.__init__')
    idx0 = [i for i, s in enumerate(fn.body) if isinstance(s, ast.Assign) and isinstance(s.targets[0], ast.Attribute) and s.targets[0].attr == '__raftState']
    idx1 = [i for i, s in enumerate(fn.body) if isinstance(s, ast.Assign) and isinstance(s.targets[0], ast.Attribute) and s.targets[0].attr == '__raftLastApplied']
    if not idx0 or not idx1 or idx1[0] < idx0[0]:
        raise Undecided('start-up region of SyncObj.__init__ not located')
    stmts = fn.body[idx0[0]:idx1[0] + 1]
    disk = fresh_log(ctx, 'journalOnDisk')       # what the journal file decodes to (any list; FileJournal.reopen)
    stored_commit = disk.meta_commit
    jref = ctx.alloc(disk)
    c = ctx.cell(so.selfref)
    blank = dict((k, v) for k, v in c.fields.items())
    for k in ('raftLog', 'raftCommitIndex', 'raftLastApplied', 'raftCurrentTerm', 'votedForNodeId', 'raftState'):
        blank.pop(F(k), None)
    ctx.setcell(so.selfref, PObj('SyncObj', blank))
    I = make_interp(ctx, so, externals={'createJournal': lambda I_, a, k: jref, 'journal.createJournal': lambda I_, a, k: jref})
    kind, v, fr = run_region(I, so, 'SyncObj.__init__', stmts)
    ctx.prove(kind == 'ok', 'C06+C01:O6.2.no-exception', info=getattr(v, 'typ', None))
    if kind != 'ok':
        return
    log = so.log()
    ctx.prove(so.get('raftLog').addr == jref.addr, 'C06+C01:O6.2.log-is-the-journal')
    if ctx.decide(to_z3(disk.n) == 0, 'journal-empty'):
        ctx.prove(And(Eq(log.n, 1), Eq(log.first, 1), log.termf(z3.IntVal(0)) == 0, _ctype(log.cmdf(z3.IntVal(0))) == 1), 'C06+C01:O6.2.empty-journal-gets-the-initial-noop')
    else:
        ctx.prove(log_same(disk, log), 'C06+C01:O6.2.recovered-log-is-journal-content')
    ctx.prove(Eq(so.get('raftCommitIndex'), stored_commit), 'C06+C04:O6.2.commit-is-stored-commit')
    ctx.prove(Eq(so.get('raftLastApplied'), 1), 'C06+C01:O6.2.applied-restarts-at-one')
    # C07: what the previous incarnation acknowledged (ghost): the largest term it adopted or put on the wire, and its vote in it
    ack_term, ack_vote = FreshInt('ackTerm'), FreshInt('ackVote')
    ctx.track('ackTerm', ack_term)
    ctx.assume(ack_term >= 0)
    ctx.prove(so.get('raftCurrentTerm') >= ack_term, 'C07:O7.term-survives-restart',
              info='term restarts at 0: the node can follow a leader or candidate of a term older than one it acknowledged')
    vf = so.get('votedForNodeId')
    ctx.prove(Implies(Eq(so.get('raftCurrentTerm'), ack_term), Eq(vf, NodeId(ack_vote))) if vf is not None else (ack_term < 0), 'C07:O7.vote-survives-restart',
              info='the vote is not restored: a second candidate of the same term can be granted after a restart')
    nodump = so.conf('fullDumpFile').isnone
    ctx.prove(Implies(And(nodump, to_z3(disk.n) > 0), to_z3(log.first) <= 2), 'C06:O6.2.recoverable-without-dump',
              info='a journal trimmed by a compaction starts after index 2; without a dump file nothing can ever be applied again')


def _mut_commit_from_one(fn):
    cnt = 0
    for n in ast.walk(fn):
        if isinstance(n, ast.Assign) and isinstance(n.targets[0], ast.Attribute) and n.targets[0].attr == '__raftCommitIndex':
            n.value = ast.Constant(value=1)
            cnt += 1
    return cnt


# ------------------------------------------------------------------------------------------------ what SyncObj.__init__ excludes from dumps
@unit(name='init.properies', relpath=MOD, qual=['SyncObj.__init__'], props=['C09', 'C07', 'C03', 'C17'],
      kind='region of SyncObj.__init__: the statements that build __properies (from `self.__properies = set()` up to the creation of '
           '__enabledCodeVersion), on an object holding every internal attribute created before them',
      doc='O9.1 (what a dump may contain): after the bookkeeping statements of __init__ every attribute that existed before them - all Raft state: '
          'term, vote, role, log, commit and applied index, member sets, leader maps, ... - is recorded in __properies, which __tryLogCompaction '
          'excludes from the dumped object state (unit tryLogCompaction).  So loading a dump (start-up or install-snapshot) can never overwrite '
          'term or vote (C07/C03 in-memory half: the term does not go backwards, the vote of the current term is kept)')
def init_properies(ctx):
    so = SO(ctx, 2)
    mod = so.mod
    fn, ci = mod.find('SyncObj.__init__')
    idx = [i for i, st in enumerate(fn.body) if any(isinstance(x, ast.Attribute) and x.attr == '__properies' for x in ast.walk(st))]
    ver = [i for i, st in enumerate(fn.body) if isinstance(st, ast.Assign) and any(isinstance(t, ast.Attribute) and t.attr == '__enabledCodeVersion' for t in st.targets)]
    if not idx:
        raise Undecided('the __properies bookkeeping of SyncObj.__init__ was not located')
    end = min([v for v in ver if v > idx[0]] or [max(idx) + 1])
    end = max(end, max(i for i in idx if i < end or not ver) + 1) if idx else end
    region = fn.body[idx[0]:end]
    before = sorted(k for k in ctx.cell(so.selfref).fields if k != '_SyncObj__properies')
    ctx.prove(all(F(n) in before for n in ('raftCurrentTerm', 'votedForNodeId', 'raftState', 'raftLog', 'raftCommitIndex', 'raftLastApplied', 'otherNodes')),
              'C09:O9.1.init.model-object-holds-the-raft-state', info=repr(before[:8]))
    I = make_interp(ctx, so)
    kind, v, fr = run_region(I, so, 'SyncObj.__init__', region, {})
    ctx.prove(kind == 'ok', 'C09+C07:O9.1.init.no-exception', info=getattr(v, 'typ', None))
    if kind != 'ok':
        return
    pr = ctx.cell(so.selfref).fields.get(F('properies'))
    pc = ctx.cell(pr) if isinstance(pr, Ref) else pr
    names = None
    if isinstance(pc, KVDict):
        names = [(p, k) for p, k, _ in pc.entries]
    elif isinstance(pc, PList):
        names = [(True, k) for k in pc.items]
    ctx.prove(names is not None, 'C09+C07:O9.1.init.properies-is-a-set-of-names', info=repr(pc))
    if names is None:
        return
    for n in before:
        present = Or(*[p for p, k in names if k == n]) if any(k == n for p, k in names) else False
        tag = 'C09+C07+C03:O9.1.init.raft-state-excluded-from-dumps' if n in (F('raftCurrentTerm'), F('votedForNodeId')) else 'C09+C17:O9.1.init.internal-attribute-excluded-from-dumps'
        ctx.prove(present, tag, info=n)
