"""Node identity (pysyncobj/node.py): everything in the SyncObj and transport contracts treats a node as its id (the node
universe of DESIGN §3.1); this unit puts that assumption itself under contract."""
import ast
import z3
from pyvc.values import *   # noqa
from pyvc.harness import unit, mutate_function
from pyvc.ctx import Undecided
from pyvc.interp import Interp, PyExc
from pyvc import source

NMOD = 'pysyncobj/node.py'
HASH = z3.Function('py_hash', z3.IntSort(), z3.IntSort())


def ext_hash(I, a, k):
    v = a[0]
    if isinstance(v, Opaque):
        return HASH(to_z3(v.id))
    raise Undecided('hash(%r)' % (v,))


@unit(name='node.identity', relpath=NMOD, qual=['Node.__eq__', 'Node.__ne__', 'Node.__hash__'], props=['C10', 'C14', 'C18'],
      doc='two Node objects (of any Node subclass) are equal exactly when their ids are equal, unequal otherwise, and equal nodes hash '
          'equally - the identity on which every set / dict of nodes in SyncObj and the transport relies; a non-Node is never equal to a node',
      canaries=[('eq-by-type', lambda mod: mutate_function(mod, 'Node.__eq__', _mut_eq_type), ['node.equal-iff-same-id'])])
def node_identity(ctx):
    mod = source.load(NMOD)
    ida, idb = FreshInt('idA'), FreshInt('idB')
    a = ctx.alloc(PObj('TCPNode', {'_id': Opaque('nodeid', ida)}))
    b = ctx.alloc(PObj('Node', {'_id': Opaque('nodeid', idb)}))
    I = Interp(ctx, externals={'hash': ext_hash}, inline={'Node.__eq__', 'Node.__ne__', 'Node.__hash__', 'Node.id'},
               hooks={'bases': {'TCPNode': ('Node',)}, 'modules': [NMOD]})
    I.cur_mod = mod

    def call(meth, obj, args):
        fn, ci = mod.find('Node.%s' % meth)
        return I.call_funcdef(fn, mod, 'Node', obj, args, {}, None, 'Node.%s' % meth)
    eq = I.truth_expr(call('__eq__', a, [b]))
    ctx.prove(Iff(eq, ida == idb), 'C10+C14+C18:node.equal-iff-same-id')
    ne = I.truth_expr(call('__ne__', a, [b]))
    ctx.prove(Iff(ne, ida != idb), 'C10+C14:node.unequal-iff-different-id')
    ha, hb = call('__hash__', a, []), call('__hash__', b, [])
    ctx.prove(Implies(ida == idb, Eq(ha, hb)), 'C10+C14:node.equal-nodes-hash-equally')
    ctx.prove(Not(I.truth_expr(call('__eq__', a, ['n0:1']))), 'C14:node.never-equal-to-a-non-node')


def _mut_eq_type(fn):
    cnt = 0
    for n in ast.walk(fn):
        if isinstance(n, ast.Return) and isinstance(n.value, ast.BoolOp):
            n.value = n.value.values[0]
            cnt += 1
    return cnt
