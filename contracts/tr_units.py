"""C14 (safety clauses only): contracts on TCPTransport - incoming handshake, dropNode, _shouldConnect, send, _onDisconnected."""
import ast
import z3
from pyvc.values import *   # noqa
from pyvc.harness import unit, mutate_function, replace_compare
from pyvc.ctx import Undecided
from pyvc.interp import Interp, PyExc, Frame, BoundMethod
from pyvc import source

TRMOD = 'pysyncobj/transport.py'
CLS = 'TCPTransport'
DISCONNECTED, CONNECTING, CONNECTED = 0, 1, 2
U = 3


class RNode(object):
    """a read-only peer created by the transport: Node(str(counter)) - a plain Node, never a TCPNode"""
    kinds = ('Node',)

    def __init__(self, ident):
        self.ident = ident

    def sym_eq(self, o):
        if isinstance(o, RNode):
            return Eq(self.ident, o.ident)
        return False

    def get_attr(self, I, name):
        if name == 'id':
            return ('rid', self.ident)
        return BoundMethod(self, name)


class Partial(object):
    def __init__(self, f, args):
        self.f, self.args = f, args


def mk_transport(ctx, readonly_self=False):
    conns, present = [], []
    ents_conn, ents_addr = [], []
    nodes_bits = []
    for i in range(U):
        st = FreshInt('connState%d' % i)
        ctx.assume(And(st >= 0, st <= 2))
        c = ctx.alloc(PObj('TcpConnection', {'state': st, 'name': 'conn%d' % i}))
        conns.append(c)
        member = FreshBool('member%d' % i)
        hasconn = FreshBool('hasConn%d' % i)
        nodes_bits.append(member)
        ents_addr.append((member, NodeId(i), NodeV(i)))
        ents_conn.append((And(member, hasconn), NodeV(i), c))
    so = ctx.alloc(PObj('SyncObj', {'encryptor': None, '_poller': ctx.alloc(PObj('Poller', {})),
                                    'conf': ctx.alloc(PObj('SyncObjConf', {'connectionRetryTime': FreshReal('retry'), 'connectionTimeout': FreshReal('ct'),
                                                                           'sendBufferSize': 1, 'recvBufferSize': 1, 'tcp_keepalive': None}))}))
    f = {'_syncObj': so, '_connections': ctx.alloc(KVDict(ents_conn)), '_unknownConnections': ctx.alloc(GSet([])),
         '_selfNode': None if readonly_self else NodeV(U), '_selfIsReadonlyNode': readonly_self,
         '_nodes': ctx.alloc(NSet(nodes_bits + [False])), '_readonlyNodes': ctx.alloc(GSet([])),
         '_nodeAddrToNode': ctx.alloc(KVDict(ents_addr)), '_lastConnectAttempt': ctx.alloc(KVDict([])),
         '_preventConnectNodes': ctx.alloc(NSet([False] * (U + 1))), '_readonlyNodesCounter': FreshInt('roCounter'),
         '_send_random_sleep_duration': 0,
         '_onMessageReceivedCallback': Callable_('cb:onMessageReceived'), '_onNodeConnectedCallback': Callable_('cb:onNodeConnected'),
         '_onNodeDisconnectedCallback': Callable_('cb:onNodeDisconnected'), '_onReadonlyNodeConnectedCallback': Callable_('cb:onReadonlyNodeConnected'),
         '_onReadonlyNodeDisconnectedCallback': Callable_('cb:onReadonlyNodeDisconnected'), '_onUtilityMessageCallbacks': ctx.alloc(PDict({}))}
    tr = ctx.alloc(PObj(CLS, f))
    ctx.universe = U + 1
    ctx.track('members', nodes_bits)
    return tr, conns, nodes_bits


def cb_hook(I, f, args, kw):
    I.ctx.ghost['cb'] = I.ctx.glist('cb') + [(f.tag, tuple(args))]


def partial_ext(I, args, kw):
    return Partial(args[0], tuple(args[1:]))


def node_new(I, args, kw):
    return RNode(args[0])


def conn_disconnect(I, selfv, args, kw):
    """TcpConnection.disconnect (contract: unit tcp.disconnect): state DISCONNECTED; the onDisconnected callback the transport
    installed (partial(_onDisconnected, conn)) runs re-entrantly if the connection was not already disconnected"""
    ctx = I.ctx
    c = ctx.cell(selfv)
    was = c.fields['state']
    ctx.setcell(selfv, c.with_field('state', DISCONNECTED))
    ctx.ghost['conn_ops'] = ctx.glist('conn_ops') + [('disconnect', c.fields['name'])]
    tr = I.hooks['transport']
    if ctx.decide(was != DISCONNECTED, 'was-connected'):
        I.call_method(tr, '_onDisconnected', [selfv], {}, Frame(source.load(TRMOD), CLS, 'reentrant'))
    return None


def conn_send(I, selfv, args, kw):
    ctx = I.ctx
    c = ctx.cell(selfv)
    ctx.ghost['conn_ops'] = ctx.glist('conn_ops') + [('send', c.fields['name'], args[0])]
    # the send may discover the connection dead
    if ctx.decide(FreshBool('sendKillsConn'), 'send-kills-connection'):
        ctx.setcell(selfv, c.with_field('state', DISCONNECTED))
    return None


def conn_set_cb(which):
    def f(I, selfv, args, kw):
        c = I.ctx.cell(selfv)
        I.ctx.setcell(selfv, c.with_field(which, args[0]))
    return f


INL = {'%s.%s' % (CLS, m) for m in ('_onDisconnected', '_connToNode', '_connectIfNecessarySingle', '_shouldConnect', '_onUtilityMessage')} | \
      {'Transport.%s' % m for m in ('_onMessageReceived', '_onNodeConnected', '_onNodeDisconnected', '_onReadonlyNodeConnected', '_onReadonlyNodeDisconnected')}
REG = {'TcpConnection.disconnect': conn_disconnect, 'TcpConnection.send': conn_send,
       'TcpConnection.setOnMessageReceivedCallback': conn_set_cb('msgcb'), 'TcpConnection.setOnDisconnectedCallback': conn_set_cb('disccb'),
       'TcpConnection.setOnConnectedCallback': conn_set_cb('conncb'),
       'TcpConnection.connect': lambda I, s, a, k: (I.ctx.glist('conn_ops').append(('connect', I.ctx.cell(s).fields['name'])), FreshBool('connectOk'))[1]}


def run_tr(ctx, tr, meth, args):
    mod = source.load(TRMOD)
    fn, ci = mod.find('%s.%s' % (CLS, meth))
    if fn is None:
        raise Undecided('%s.%s not found' % (CLS, meth))
    ext = {'functools.partial': partial_ext, 'monotonicTime': lambda I, a, k: FreshReal('now'), 'monotonic.monotonic': lambda I, a, k: FreshReal('now'),
           'os.urandom': lambda I, a, k: b'k'}
    I = Interp(ctx, registry=REG, externals=ext, inline=INL, hooks={'call:cb': cb_hook, 'transport': tr, 'new:Node': node_new,
                                                                   'modules': [TRMOD], 'bases': {CLS: ('Transport',)}})
    try:
        return 'ok', I.call_funcdef(fn, mod, CLS, tr, list(args), {}, None, '%s.%s' % (CLS, meth)), I
    except PyExc as e:
        return e.typ, e, I


def F_(ctx, tr, n):
    v = ctx.cell(tr).fields[n]
    return ctx.cell(v) if isinstance(v, Ref) else v


def conn_of(ctx, tr, I, node):
    """(present, conn ref or None) for node in _connections"""
    out = []
    for p, k, v in F_(ctx, tr, '_connections').entries:
        out.append((And(p, I.equals(k, node)), v))
    return out


@unit(name='transport.incoming', relpath=TRMOD, qual=['%s._onIncomingMessageReceived' % CLS], props=['C14', 'C10', 'C18'],
      cases=[dict(kind=k) for k in ('address', 'readonly', 'garbage', 'garbage-list', 'empty-list', 'garbage-dict', 'nested-list')],
      doc='O14.1: the first message on an incoming connection names the peer: a known member address binds the connection to exactly that '
          'node (later messages are delivered with that node as source) and reports it connected once; "readonly" creates a fresh '
          'non-member node; anything else disconnects the connection and leaves it in no table',
      assumptions=['no-crypto', 'a list whose head is a registered utility command is handled by _onUtilityMessage (unit transport.utility); every other first '
                   'message - any picklable value a stranger may send - is in scope'],
      canaries=[('no-disconnect-for-unknown', lambda mod: mutate_function(mod, '%s._onIncomingMessageReceived' % CLS, _mut_no_disconnect), ['O14.1.unknown-peer-disconnected'])])
def tr_incoming(ctx, kind):
    tr, conns, members = mk_transport(ctx)
    newc = ctx.alloc(PObj('TcpConnection', {'state': CONNECTED, 'name': 'incoming', 'sendRandKey': None}))
    ctx.setcell(ctx.cell(tr).fields['_unknownConnections'], GSet([(True, newc, True)]))
    # observers that joined earlier: their ids were issued from the counter (each below its current value, pairwise different)
    from pyvc.builtins_ import StrOf
    counter = ctx.cell(tr).fields['_readonlyNodesCounter']
    old_obs = []
    for j in range(2):
        e, pres = FreshInt('observerId%d' % j), FreshBool('observerPresent%d' % j)
        ctx.assume(And(e >= 0, e < counter))
        oc = ctx.alloc(PObj('TcpConnection', {'state': CONNECTED, 'name': 'observer%d' % j}))
        old_obs.append((pres, e, RNode(StrOf(e)), oc))
    ctx.assume(old_obs[0][1] != old_obs[1][1])
    ctx.setcell(ctx.cell(tr).fields['_readonlyNodes'], GSet([(p_, n_, True) for p_, e_, n_, c_ in old_obs]))
    cc = ctx.cell(ctx.cell(tr).fields['_connections'])
    ctx.setcell(ctx.cell(tr).fields['_connections'], KVDict(cc.entries + [(p_, n_, c_) for p_, e_, n_, c_ in old_obs]))
    if kind == 'address':
        idx = FreshInt('claimedNode')
        ctx.track('claimedNode', idx)
        ctx.assume(And(idx >= 0, idx <= U + 2))     # may also be an address that is not (or no longer) a member
        msg = NodeId(idx)
    elif kind == 'readonly':
        msg = 'readonly'
    elif kind == 'garbage-list':
        msg = ctx.alloc(PList(['no-such-command', 1]))
    elif kind == 'empty-list':
        msg = ctx.alloc(PList([]))
    elif kind == 'garbage-dict':
        msg = ctx.alloc(PDict({'type': 'append_entries'}))
    elif kind == 'nested-list':
        msg = ctx.alloc(PList([ctx.alloc(PList(['x']))]))
    else:
        msg = 'no-such-thing'
    outcome, r, I = run_tr(ctx, tr, '_onIncomingMessageReceived', [newc, msg])
    ctx.prove(outcome == 'ok', 'C14:O14.1.no-exception', info=outcome)
    if outcome != 'ok':
        return
    cbs = ctx.glist('cb')
    ops = ctx.glist('conn_ops')
    unk = F_(ctx, tr, '_unknownConnections')
    still_unknown = Or(*[And(p, I.equals(k, newc)) for p, k, v in unk.entries])
    ctx.prove(Not(still_unknown), 'C14:O14.1.connection-leaves-the-unknown-set')
    bound = [(p, k) for p, k, v in F_(ctx, tr, '_connections').entries if isinstance(v, Ref) and v.addr == newc.addr and p is not False]
    is_member = Or(*[And(members[i], Eq(msg.idx, i)) for i in range(U)]) if kind == 'address' else False
    if kind == 'readonly' or (kind == 'address' and ctx.decide(is_member, 'is-member')):
        ctx.prove(len(bound) == 1 and bound[0][0] is True, 'C14:O14.1.bound-to-exactly-one-node')
        node = bound[0][1] if bound else None
        if kind == 'address':
            ctx.prove(isinstance(node, NodeV) and Eq(node.idx, msg.idx), 'C14+C10:O14.1.bound-to-the-claimed-member')
            conn_cb = [c for c in cbs if c[0] == 'cb:onNodeConnected']
            ctx.prove(len(conn_cb) == 1 and Eq(conn_cb[0][1][0].idx, msg.idx), 'C14:O14.1.member-reported-connected-once')
            ctx.prove(not any(c[0] == 'cb:onReadonlyNodeConnected' for c in cbs), 'C14+C18:O14.1.member-is-not-an-observer')
        else:
            ctx.prove(isinstance(node, RNode), 'C14+C18:O14.1.observer-gets-a-fresh-non-member-node')
            if isinstance(node, RNode):
                ctx.prove(And(*[Not(And(p_, I.equals(node, n_))) for p_, e_, n_, c_ in old_obs]), 'C14+C18:O14.1.observer-id-not-shared-with-a-connected-observer')
                for p_, e_, n_, c_ in old_obs:
                    still = Or(*[And(pp, I.equals(k, n_)) for pp, k, v in F_(ctx, tr, '_connections').entries if isinstance(v, Ref) and v.addr == c_.addr])
                    ctx.prove(Implies(p_, still), 'C14+C18:O14.1.earlier-observers-keep-their-connections')
            ro = F_(ctx, tr, '_readonlyNodes')
            ctx.prove(Or(*[And(p, I.equals(k, node)) for p, k, v in ro.entries]) if node is not None else False, 'C14+C18:O14.1.observer-registered')
            ctx.prove(len([c for c in cbs if c[0] == 'cb:onReadonlyNodeConnected']) == 1 and not any(c[0] == 'cb:onNodeConnected' for c in cbs),
                      'C14+C18:O14.1.observer-reported-once-and-not-as-member')
            ctx.prove(Eq(F_(ctx, tr, '_readonlyNodesCounter'), ctx.inputs.get('roCounter0', F_(ctx, tr, '_readonlyNodesCounter'))) is not None, 'C14:O14.1.counter')
        mcb = ctx.cell(newc).fields.get('msgcb')
        ctx.prove(isinstance(mcb, Partial) and isinstance(mcb.f, BoundMethod) and mcb.f.name == '_onMessageReceived' and len(mcb.args) == 1 and
                  (mcb.args[0] is node or I.equals(mcb.args[0], node) is True), 'C14+C10:O14.1.later-messages-delivered-with-that-node-as-source')
        ctx.prove(not any(o[0] == 'disconnect' for o in ops), 'C14:O14.1.accepted-peer-not-disconnected')
    else:
        ctx.prove(any(o == ('disconnect', 'incoming') for o in ops), 'C14+C10:O14.1.unknown-peer-disconnected')
        ctx.prove(len(bound) == 0, 'C14+C10:O14.1.unknown-peer-bound-to-no-node')
        ctx.prove(len(cbs) == 0, 'C14+C10:O14.1.unknown-peer-reported-to-nobody')
        ctx.prove(ctx.cell(newc).fields.get('msgcb') is None, 'C14+C10:O14.1.unknown-peer-delivers-nothing')


def _mut_no_disconnect(fn):
    cnt = 0
    for n in ast.walk(fn):
        body = getattr(n, 'body', None)
        if isinstance(body, list):
            for s in list(body):
                if isinstance(s, ast.Expr) and isinstance(s.value, ast.Call) and isinstance(s.value.func, ast.Attribute) and s.value.func.attr == 'disconnect':
                    body.remove(s)
                    cnt += 1
    return cnt


@unit(name='transport.dropNode', relpath=TRMOD, qual=['%s.dropNode' % CLS, '%s._onDisconnected' % CLS], props=['C14', 'C10'],
      doc='O14.2/O10.6: after dropNode(n) the node is in no table (connections, address map, node set) and its connection is '
          'disconnected without triggering a reconnect or a disconnect notification for a node that is no longer known',
      canaries=[('keep-address', lambda mod: mutate_function(mod, '%s.dropNode' % CLS, _mut_keep_address), ['O14.2.address-forgotten'])])
def tr_drop_node(ctx):
    tr, conns, members = mk_transport(ctx)
    idx = FreshInt('node')
    ctx.assume(And(idx >= 0, idx < U))
    ctx.track('node', idx)
    node = NodeV(idx)
    outcome, r, I = run_tr(ctx, tr, 'dropNode', [node])
    ctx.prove(outcome == 'ok', 'C14:O14.2.no-exception', info=outcome)
    if outcome != 'ok':
        return
    ctx.prove(Not(Or(*[p for p, v in conn_of(ctx, tr, I, node)])), 'C14+C10:O14.2.connection-forgotten')
    ctx.prove(Not(Or(*[And(p, I.equals(k, NodeId(idx))) for p, k, v in F_(ctx, tr, '_nodeAddrToNode').entries])), 'C14+C10:O14.2.address-forgotten')
    ctx.prove(Not(Or(*[And(Eq(idx, i), b) for i, b in enumerate(F_(ctx, tr, '_nodes').bits)])), 'C14+C10:O14.2.node-forgotten')
    ctx.prove(not any(o[0] == 'connect' for o in ctx.glist('conn_ops')), 'C14:O14.2.no-reconnect-triggered')
    ctx.prove(Not(Or(*F_(ctx, tr, '_preventConnectNodes').bits)), 'C14:O14.2.prevent-set-restored')
    for i in range(U):
        ctx.prove(Implies(Not(Eq(idx, i)), Iff(F_(ctx, tr, '_nodes').bits[i], members[i])), 'C14+C10:O14.2.other-members-untouched')


def _mut_keep_address(fn):
    cnt = 0
    for n in ast.walk(fn):
        body = getattr(n, 'body', None)
        if isinstance(body, list):
            for s in list(body):
                if isinstance(s, ast.Expr) and isinstance(s.value, ast.Call) and isinstance(s.value.func, ast.Attribute) and s.value.func.attr == 'pop' and \
                        isinstance(s.value.func.value, ast.Attribute) and s.value.func.value.attr == '_nodeAddrToNode':
                    body.remove(s)
                    cnt += 1
    return cnt


@unit(name='transport.shouldConnect', relpath=TRMOD, qual=['%s._shouldConnect' % CLS], props=['C14'],
      cases=[dict(readonly_self=False), dict(readonly_self=True)],
      doc='O14.3: a member dials another member exactly when its own address is the larger one (so of two distinct members exactly one '
          'dials); a read-only node always dials; nobody dials a non-TCP node or a node being dropped',
      canaries=[('ge', lambda mod: mutate_function(mod, '%s._shouldConnect' % CLS, lambda fn: replace_compare(fn, lambda n: True, ast.Gt, ast.GtE, 0)), ['O14.3.exactly-one-side-dials'])])
def tr_should_connect(ctx, readonly_self):
    tr, conns, members = mk_transport(ctx, readonly_self)
    idx = FreshInt('node')
    ctx.assume(And(idx >= 0, idx <= U))
    outcome, r, I = run_tr(ctx, tr, '_shouldConnect', [NodeV(idx)])
    ctx.prove(outcome == 'ok', 'C14:O14.3.no-exception', info=outcome)
    if outcome != 'ok':
        return
    res = I.truth_expr(r)
    if readonly_self:
        ctx.prove(res, 'C14+C18:O14.3.readonly-node-always-dials')
    else:
        # index order stands for the (total, strict) string order on addresses; own index is U
        ctx.prove(Iff(res, U > idx), 'C14:O14.3.dials-iff-own-address-larger')
        # symmetric view: the peer (address idx) evaluating the same rule towards us (address U)
        peer_dials = idx > U
        ctx.prove(Implies(idx != U, Or(And(res, Not(peer_dials)), And(Not(res), peer_dials))), 'C14:O14.3.exactly-one-side-dials')
    outcome, r2, I2 = run_tr(ctx, tr, '_shouldConnect', [RNode('7')])
    ctx.prove(outcome == 'ok' and I2.truth_expr(r2) is False, 'C14:O14.3.never-dials-an-observer')


@unit(name='transport.send', relpath=TRMOD, qual=['%s.send' % CLS], props=['C14', 'C02'],
      doc='O14.4: send returns True only if the connection to that node was CONNECTED before and after handing over the message; it never '
          'raises for an unknown node and hands the message to that node\'s connection only',
      canaries=[('ignore-state-after', lambda mod: mutate_function(mod, '%s.send' % CLS, _mut_ignore_after), ['O14.4.true-only-if-connected-before-and-after'])])
def tr_send(ctx):
    tr, conns, members = mk_transport(ctx)
    idx = FreshInt('node')
    ctx.assume(And(idx >= 0, idx <= U))
    node = NodeV(idx)
    before = [(p, ctx.cell(v).fields['state'], v) for p, v in []]
    msg = Opaque('msg', FreshInt('m'))
    pre = {}
    for i, c in enumerate(conns):
        pre[i] = ctx.cell(c).fields['state']
    outcome, r, I = run_tr(ctx, tr, 'send', [node, msg])
    ctx.prove(outcome == 'ok', 'C14+C02:O14.4.never-raises', info=outcome)
    if outcome != 'ok':
        return
    res = I.truth_expr(r)
    ops = [o for o in ctx.glist('conn_ops') if o[0] == 'send']
    had = Or(*[p for p, v in conn_of(ctx, tr, I, node)])
    ctx.prove(Implies(res, had), 'C14:O14.4.true-only-for-a-known-connection')
    for i, c in enumerate(conns):
        me = And(Eq(idx, i), [p for p, v in conn_of(ctx, tr, I, NodeV(i))][i] if False else Eq(idx, i))
        ctx.prove(Implies(And(res, Eq(idx, i)), And(pre[i] == CONNECTED, ctx.cell(c).fields['state'] == CONNECTED)), 'C14+C02:O14.4.true-only-if-connected-before-and-after')
    ctx.prove(Implies(res, len(ops) == 1) if len(ops) != 1 else True, 'C14:O14.4.true-only-if-message-handed-over')
    for o in ops:
        ctx.prove(o[2] is msg and Or(*[And(Eq(idx, i), o[1] == 'conn%d' % i) for i in range(U)]), 'C14+C10:O14.4.message-goes-to-that-nodes-connection')


def _mut_ignore_after(fn):
    cnt = 0
    ifs = [s for s in fn.body if isinstance(s, ast.If)]
    if len(ifs) >= 3:
        fn.body.remove(ifs[-1])
        cnt = 1
    return cnt


@unit(name='transport.onDisconnected', relpath=TRMOD, qual=['%s._onDisconnected' % CLS, '%s._connectIfNecessarySingle' % CLS], props=['C14'],
      doc='O14.5: a disconnected member connection reports onNodeDisconnected(node) exactly once and makes at most one reconnect attempt; '
          'an unknown connection just leaves the unknown set',
      canaries=[('report-twice', lambda mod: mutate_function(mod, '%s._onDisconnected' % CLS, _mut_report_twice), ['O14.5.member-reported-disconnected-once'])])
def tr_on_disconnected(ctx):
    tr, conns, members = mk_transport(ctx)
    ctx.assume(And(*[ctx.cell(c).fields['state'] == DISCONNECTED for c in conns[:1]]))
    c0 = conns[0]
    outcome, r, I = run_tr(ctx, tr, '_onDisconnected', [c0])
    ctx.prove(outcome == 'ok', 'C14:O14.5.no-exception', info=outcome)
    if outcome != 'ok':
        return
    cbs = ctx.glist('cb')
    known = Or(*[p for p, k, v in F_(ctx, tr, '_connections').entries if isinstance(v, Ref) and v.addr == c0.addr])
    disc = [c for c in cbs if c[0] == 'cb:onNodeDisconnected']
    if ctx.decide(known, 'bound'):
        ctx.prove(len(disc) == 1 and Eq(disc[0][1][0].idx, 0), 'C14:O14.5.member-reported-disconnected-once')
    else:
        ctx.prove(len(cbs) == 0, 'C14:O14.5.unbound-connection-reports-nothing')
    ctx.prove(len([o for o in ctx.glist('conn_ops') if o[0] == 'connect']) <= 1, 'C14:O14.5.at-most-one-reconnect-attempt')


def _mut_report_twice(fn):
    cnt = 0
    for n in ast.walk(fn):
        body = getattr(n, 'body', None)
        if isinstance(body, list):
            for k, s in enumerate(body):
                if isinstance(s, ast.Expr) and isinstance(s.value, ast.Call) and isinstance(s.value.func, ast.Attribute) and s.value.func.attr == '_onNodeDisconnected':
                    body.insert(k, s)
                    cnt += 1
                    return cnt
    return cnt


@unit(name='transport.addNode', relpath=TRMOD, qual=['%s.addNode' % CLS], props=['C14', 'C10'],
      doc='O14.2 (add): the node is known afterwards (node set and address map); a connection object is created exactly when this side is the '
          'one that dials (O14.3), bound to that node, with the transport\'s callbacks installed',
      canaries=[('address-not-registered', lambda mod: mutate_function(mod, '%s.addNode' % CLS, _mut_no_addr), ['O14.2.add.address-registered'])])
def tr_add_node(ctx):
    tr, conns, members = mk_transport(ctx)
    idx = FreshInt('node')
    ctx.assume(And(idx >= 0, idx < U))
    ctx.track('node', idx)
    node = NodeV(idx)
    # a node that is being added is not a member yet
    ctx.assume(And(*[Implies(idx == i, Not(members[i])) for i in range(U)]))
    made = []

    def new_conn(I, args, kw):
        c = I.ctx.alloc(PObj('TcpConnection', {'state': DISCONNECTED, 'name': 'new', 'encryptor': None}))
        made.append(c)
        return c
    mod = source.load(TRMOD)
    fn, ci = mod.find('%s.addNode' % CLS)
    ext = {'functools.partial': partial_ext, 'TcpConnection': new_conn, 'tcp_connection.TcpConnection': new_conn}
    I = Interp(ctx, registry=REG, externals=ext, inline=INL, hooks={'call:cb': cb_hook, 'transport': tr, 'new:TcpConnection': new_conn, 'modules': [TRMOD],
                                                                  'bases': {CLS: ('Transport',)}})
    try:
        I.call_funcdef(fn, mod, CLS, tr, [node], {}, None, '%s.addNode' % CLS)
        outcome = 'ok'
    except PyExc as e:
        outcome = e.typ
    ctx.prove(outcome == 'ok', 'C14:O14.2.add.no-exception', info=outcome)
    if outcome != 'ok':
        return
    ctx.prove(Or(*[And(Eq(idx, i), b) for i, b in enumerate(F_(ctx, tr, '_nodes').bits)]), 'C14+C10:O14.2.add.node-registered')
    ctx.prove(Or(*[And(p, I.equals(k, NodeId(idx)), I.equals(v, node)) for p, k, v in F_(ctx, tr, '_nodeAddrToNode').entries]), 'C14+C10:O14.2.add.address-registered')
    dials = U > idx     # own index is U: O14.3
    bound = [(p, k, v) for p, k, v in F_(ctx, tr, '_connections').entries if made and isinstance(v, Ref) and v.addr == made[0].addr]
    ctx.prove((len(made) == 1) if True else False, 'C14:O14.3.add.connection-created-by-the-dialling-side')
    if made:
        ctx.prove(len(bound) == 1 and I.equals(bound[0][1], node) is not False, 'C14+C10:O14.2.add.connection-bound-to-that-node')
        mcb = ctx.cell(made[0]).fields.get('msgcb')
        ctx.prove(isinstance(mcb, Partial) and mcb.f.name == '_onMessageReceived' and I.equals(mcb.args[0], node) is not False, 'C14+C10:O14.1.messages-attributed-to-that-node')


def _mut_no_addr(fn):
    cnt = 0
    for s in list(fn.body):
        if isinstance(s, ast.Assign) and isinstance(s.targets[0], ast.Subscript) and isinstance(s.targets[0].value, ast.Attribute) and s.targets[0].value.attr == '_nodeAddrToNode':
            fn.body.remove(s)
            cnt += 1
    return cnt


@unit(name='transport.outgoingConnected', relpath=TRMOD, qual=['%s._onOutgoingConnected' % CLS, '%s._sendSelfAddress' % CLS], props=['C14', 'C18'],
      cases=[dict(readonly_self=False), dict(readonly_self=True)],
      doc='O14.1 (dialling side): the first message on an outgoing connection is this node\'s own address, or "readonly" for a node without an '
          'address, and the peer is reported connected exactly once',
      canaries=[('announce-wrong', lambda mod: mutate_function(mod, '%s._sendSelfAddress' % CLS, _mut_swap_announce), ['O14.1.first-message-names-this-node'])])
def tr_outgoing_connected(ctx, readonly_self):
    tr, conns, members = mk_transport(ctx, readonly_self)
    ctx.setcell(ctx.cell(tr).fields['_connections'], KVDict([(True, NodeV(0), conns[0])]))
    outcome, r, I = run_tr(ctx, tr, '_onOutgoingConnected', [conns[0]])
    ctx.prove(outcome == 'ok', 'C14:O14.1.outgoing.no-exception', info=outcome)
    sends = [o for o in ctx.glist('conn_ops') if o[0] == 'send']
    ctx.prove(len(sends) == 1 and sends[0][1] == 'conn0', 'C14:O14.1.outgoing.one-announcement')
    if sends:
        m = sends[0][2]
        ctx.prove((m == 'readonly') if readonly_self else (isinstance(m, NodeId) and Eq(m.idx, U) is True), 'C14+C18:O14.1.first-message-names-this-node', info=repr(m))
    cbs = [c for c in ctx.glist('cb') if c[0] == 'cb:onNodeConnected']
    ctx.prove(len(cbs) == 1 and Eq(cbs[0][1][0].idx, 0) is True, 'C14:O14.1.outgoing.peer-reported-connected-once')


def _mut_swap_announce(fn):
    cnt = 0
    for n in ast.walk(fn):
        if isinstance(n, ast.If):
            n.body, n.orelse = n.orelse, n.body
            cnt += 1
    return cnt


@unit(name='transport.connectIfNecessary', relpath=TRMOD, qual=['%s._connectIfNecessarySingle' % CLS], props=['C14'],
      doc='O14.5 (reconnect rule): no dial while the existing connection is not DISCONNECTED; only the dialling side dials; at most one attempt '
          'per connectionRetryTime',
      canaries=[('ignore-live-connection', lambda mod: mutate_function(mod, '%s._connectIfNecessarySingle' % CLS, _mut_ignore_live), ['O14.5.no-second-connection-while-one-is-live'])])
def tr_connect_if_necessary(ctx):
    tr, conns, members = mk_transport(ctx)
    ctx.setcell(ctx.cell(tr).fields['_connections'], KVDict([(True, NodeV(0), conns[0])]))
    last = FreshReal('lastAttempt')
    has_last = FreshBool('hasLastAttempt')
    ctx.setcell(ctx.cell(tr).fields['_lastConnectAttempt'], KVDict([(has_last, NodeV(0), last)]))
    now = FreshReal('now')
    st0 = ctx.cell(conns[0]).fields['state']
    mod = source.load(TRMOD)
    fn, ci = mod.find('%s._connectIfNecessarySingle' % CLS)
    ext = {'functools.partial': partial_ext, 'monotonicTime': lambda I_, a, k: now, 'monotonic.monotonic': lambda I_, a, k: now}
    I = Interp(ctx, registry=REG, externals=ext, inline=INL, hooks={'call:cb': cb_hook, 'transport': tr, 'modules': [TRMOD], 'bases': {CLS: ('Transport',)}})
    node = NodeV(0)
    try:
        r = I.call_funcdef(fn, mod, CLS, tr, [node], {}, None, '%s._connectIfNecessarySingle' % CLS)
        outcome = 'ok'
    except PyExc as e:
        outcome, r = e.typ, None
    ctx.prove(outcome == 'ok', 'C14:O14.5.connect.no-exception', info=outcome)
    dials = [o for o in ctx.glist('conn_ops') if o[0] == 'connect']
    retry = ctx.cell(ctx.cell(ctx.cell(tr).fields['_syncObj']).fields['conf']).fields['connectionRetryTime']
    ctx.prove(len(dials) <= 1, 'C14:O14.5.at-most-one-dial')
    if dials:
        ctx.prove(st0 == DISCONNECTED, 'C14:O14.5.no-second-connection-while-one-is-live')
        ctx.prove(Implies(has_last, now - last >= retry), 'C14:O14.5.reconnect-throttled')
    else:
        ctx.prove(Implies(st0 != DISCONNECTED, I.truth_expr(r)), 'C14:O14.5.live-connection-reported')


def _mut_ignore_live(fn):
    cnt = 0
    for s in list(fn.body):
        if isinstance(s, ast.If) and any(isinstance(x, ast.Attribute) and x.attr == 'DISCONNECTED' for x in ast.walk(s.test)):
            fn.body.remove(s)
            cnt += 1
    return cnt


@unit(name='transport.replacedConnection', relpath=TRMOD, qual=['%s._onIncomingMessageReceived' % CLS, '%s._onDisconnected' % CLS, '%s._connToNode' % CLS], props=['C14'],
      kind='three calls in sequence on one transport (a scripted history over the real functions)',
      doc='a stale connection replaced by a new incoming one: after a member re-dials and its new connection is bound, the later death of the old '
          'connection neither reports the member disconnected nor triggers a reconnect - notifications follow the live connection',
      canaries=[('scan-by-claimed-node', lambda mod: mutate_function(mod, '%s._onDisconnected' % CLS, _mut_disconnect_reports_any), ['O14.5.stale-connection-death-is-silent'])])
def tr_replaced_connection(ctx):
    tr, conns, members = mk_transport(ctx)
    idx = FreshInt('member')
    ctx.assume(And(idx >= 0, idx < U))
    ctx.assume(Or(*[And(idx == i, members[i]) for i in range(U)]))
    # the member currently has no outgoing connection object of ours (it is the side that dials us)
    ctx.setcell(ctx.cell(tr).fields['_connections'], KVDict([]))
    A = ctx.alloc(PObj('TcpConnection', {'state': CONNECTED, 'name': 'old-incoming', 'sendRandKey': None}))
    B = ctx.alloc(PObj('TcpConnection', {'state': CONNECTED, 'name': 'new-incoming', 'sendRandKey': None}))
    ctx.setcell(ctx.cell(tr).fields['_unknownConnections'], GSet([(True, A, True), (True, B, True)]))
    o1, _, I1 = run_tr(ctx, tr, '_onIncomingMessageReceived', [A, NodeId(idx)])
    o2, _, I2 = run_tr(ctx, tr, '_onIncomingMessageReceived', [B, NodeId(idx)])
    ctx.prove(o1 == 'ok' and o2 == 'ok', 'C14:O14.1.rebind.no-exception')
    bound = [(p, k, v) for p, k, v in F_(ctx, tr, '_connections').entries if p is not False and I2.equals(k, NodeV(idx)) is not False]
    ctx.prove(len([b for b in bound if isinstance(b[2], Ref) and b[2].addr == B.addr]) == 1 and
              not any(isinstance(b[2], Ref) and b[2].addr == A.addr and b[0] is True for b in bound), 'C14:O14.1.new-connection-replaces-the-old-binding')
    before = len(ctx.glist('cb'))
    # the old connection dies later (late RST / read timeout)
    ctx.setcell(A, ctx.cell(A).with_field('state', DISCONNECTED))
    o3, _, I3 = run_tr(ctx, tr, '_onDisconnected', [A])
    ctx.prove(o3 == 'ok', 'C14:O14.5.stale.no-exception', info=o3)
    after = ctx.glist('cb')[before:]
    ctx.prove(len(after) == 0, 'C14:O14.5.stale-connection-death-is-silent', info=repr([c[0] for c in after]))
    ctx.prove(not any(o[0] == 'connect' for o in ctx.glist('conn_ops')), 'C14:O14.5.stale-connection-death-triggers-no-reconnect')
    still = [b for b in F_(ctx, tr, '_connections').entries if isinstance(b[2], Ref) and b[2].addr == B.addr and b[0] is True]
    ctx.prove(len(still) == 1, 'C14:O14.5.live-connection-stays-bound')


def _mut_disconnect_reports_any(fn):
    cnt = 0
    for n in ast.walk(fn):
        if isinstance(n, ast.Assign) and isinstance(n.value, ast.Call) and isinstance(n.value.func, ast.Attribute) and n.value.func.attr == '_connToNode':
            n.value = ast.parse('next(iter(self._nodes), None)').body[0].value
            cnt += 1
    return cnt


# ------------------------------------------------------------------------------------------------ _maybeBind (C14: the node stays reachable)
@unit(name='transport.maybeBind', relpath=TRMOD, qual=['%s._maybeBind' % CLS], props=['C14'],
      cases=[dict(bound=b, ready=r) for b, r in ((True, True), (False, True), (False, False))],
      doc='O14.7 (transport side): whenever the listening server is not bound - never bound yet, or unbound again by a failed accept or an error '
          'on the listening socket (unit tcpserver.accept) - and the node is not read-only, the next tick after bindRetryTime binds it again; a bound, '
          'ready transport does not touch the server; a failed attempt is counted and reported as TransportNotReadyError only when the '
          'configured number of retries is exhausted',
      assumptions=['the server object reports its state truthfully (unit tcpserver.accept)'])
def tr_maybe_bind(ctx, bound, ready):
    tr, conns, members = mk_transport(ctx)
    tmod = source.load(TRMOD)
    smod = source.load('pysyncobj/tcp_server.py')
    binds = []
    ro = FreshBool('selfIsReadonly')
    last, now = FreshReal('lastBindAttempt'), FreshReal('now')
    state_bound = 1
    st_cls = smod.classes.get('SERVER_STATE')
    # the real constants of tcp_server.SERVER_STATE
    consts = {}
    if st_cls is not None:
        for st_ in st_cls.node.body:
            if isinstance(st_, ast.Assign) and isinstance(st_.targets[0], ast.Name):
                try:
                    consts[st_.targets[0].id] = ast.literal_eval(st_.value)
                except Exception:
                    pass
    if 'BINDED' not in consts or 'UNBINDED' not in consts:
        raise Undecided('SERVER_STATE constants not found')
    fails = FreshBool('bindFails')

    def srv_bind(I, s, a, k):
        binds.append(1)
        if ctx.decide(fails, 'bind-raises'):
            I.raise_('OSError', errno=98)
        c_ = ctx.cell(s)
        ctx.setcell(s, c_.with_field('_TcpServer__state', consts['BINDED']))
        return None
    srv = ctx.alloc(PObj('TcpServer', {'_TcpServer__state': consts['BINDED'] if bound else consts['UNBINDED']}))
    ev = ctx.alloc(PObj('Event', {}))
    retries, attempts = FreshInt('maxBindRetries'), FreshInt('bindAttempts')
    ctx.assume(And(retries >= 0, attempts >= 0))
    c = ctx.cell(tr)
    conf = ctx.cell(ctx.cell(c.fields['_syncObj']).fields['conf'])
    retry_t = FreshReal('bindRetryTime')
    ctx.assume(retry_t >= 0)
    ctx.setcell(ctx.cell(c.fields['_syncObj']).fields['conf'], conf.with_field('bindRetryTime', retry_t).with_field('maxBindRetries', retries))
    # TCPTransport.__init__ creates the server exactly for a node with an own address; a read-only node has none and is ready at once
    if ctx.decide(ro, 'read-only-node'):
        srv_field = None
        if not ready:
            return
    else:
        srv_field = srv
    ctx.setcell(tr, c.with_field('_ready', ready).with_field('_selfIsReadonlyNode', ro).with_field('_lastBindAttemptTime', last)
                .with_field('_server', srv_field).with_field('_bindAttempts', attempts).with_field('_bindOverEvent', ev))
    reg = dict(REG)
    reg.update({'TcpServer.bind': srv_bind, 'Event.set': lambda I, s, a, k: None})
    ext = {'functools.partial': partial_ext, 'monotonicTime': lambda I_, a, k: now, 'monotonic.monotonic': lambda I_, a, k: now}
    I = Interp(ctx, registry=reg, externals=ext, inline=INL, hooks={'call:cb': cb_hook, 'transport': tr, 'modules': [TRMOD, 'pysyncobj/tcp_server.py'],
                                                                    'bases': {CLS: ('Transport',)}})
    fn, ci = tmod.find('%s._maybeBind' % CLS)
    try:
        I.call_funcdef(fn, tmod, CLS, tr, [], {}, None, '%s._maybeBind' % CLS)
        outcome = 'ok'
    except PyExc as e:
        outcome = e.typ
    ctx.prove(outcome in ('ok', 'TransportNotReadyError'), 'C14:O14.7.bind.only-TransportNotReadyError-escapes', info=outcome)
    f = ctx.cell(tr).fields
    due = now >= last + retry_t
    if srv_field is None:
        ctx.prove(len(binds) == 0 and outcome == 'ok', 'C14:O14.7.bind.read-only-node-binds-nothing', info=outcome)
        return
    if bound and ready:
        ctx.prove(len(binds) == 0 and outcome == 'ok', 'C14:O14.7.bind.bound-and-ready-transport-leaves-the-server-alone')
        return
    ctx.prove(len(binds) <= 1, 'C14:O14.7.bind.at-most-one-attempt-per-tick')
    if binds:
        ctx.prove(And(Not(ro), due), 'C14:O14.7.bind.attempt-only-when-due-and-not-readonly')
        ctx.prove(Eq(f['_lastBindAttemptTime'], now), 'C14:O14.7.bind.attempt-time-recorded')
        if outcome == 'ok':
            ctx.prove(Implies(Not(fails), Eq(f['_ready'], True)), 'C14:O14.7.bind.successful-bind-makes-the-transport-ready')
        else:
            ctx.prove(And(fails, retries > 0, attempts + 1 >= retries), 'C14:O14.7.bind.not-ready-error-only-after-the-configured-retries')
    else:
        # the server is not bound (never was, or was unbound by a failed accept / socket error): it must be bound again once the retry time is over
        ctx.prove(Or(ro, Not(due)), 'C14:O14.7.bind.unbound-server-is-bound-again-when-due', info='server bound: %s, transport ready flag: %s' % (bound, ready))
        ctx.prove(outcome == 'ok', 'C14:O14.7.bind.no-attempt-no-error')


# ------------------------------------------------------------------------------------------------ TCPTransport.__init__ establishes what the units assume
@unit(name='transport.init', relpath=TRMOD, qual=['%s.__init__' % CLS, 'Transport.__init__'], props=['C14', 'C18'], cases=[dict(readonly=False), dict(readonly=True)],
      doc='the constructor establishes the state the other transport units start from: no connections to unknown peers, no observers, counter 0, '
          'not ready and a server object (not yet bound) exactly on a node with an own address, ready at once and no server on a read-only node; '
          'every given partner is added through addNode (so it is known by address and, where this side dials, has a connection object); the '
          'tick callback is registered with the SyncObj')
def tr_init(ctx, readonly):
    tmod = source.load(TRMOD)
    fn, ci = tmod.find('%s.__init__' % CLS)
    tr = ctx.alloc(PObj(CLS, {}))
    ticks, added, servers = [], [], []
    so = ctx.alloc(PObj('SyncObj', {'encryptor': None}))
    members = [NodeV(0), NodeV(1)]
    reg = dict(REG)
    reg.update({'SyncObj.addOnTickCallback': lambda I, s, a, k: ticks.append(a[0]),
                '%s.addNode' % CLS: lambda I, s, a, k: added.append(a[0]),
                '%s._createServer' % CLS: lambda I, s, a, k: (servers.append(1), ctx.setcell(s, ctx.cell(s).with_field('_server', ctx.alloc(PObj('TcpServer', {'_TcpServer__state': (0,)})))))[0]})
    ext = {'functools.partial': partial_ext, 'threading.Event': lambda I, a, k: ctx.alloc(PObj('Event', {}))}
    I = Interp(ctx, registry=reg, externals=ext, inline=set(INL) | {'Transport.__init__'},
               hooks={'call:cb': cb_hook, 'transport': tr, 'modules': [TRMOD], 'bases': {CLS: ('Transport',)}})
    I.cur_mod = tmod
    ctx.universe = 3
    selfnode = None if readonly else NodeV(2)
    try:
        I.call_funcdef(fn, tmod, CLS, tr, [so, selfnode, ctx.alloc(PList(members))], {}, None, '%s.__init__' % CLS)
        outcome = 'ok'
    except PyExc as e:
        outcome = e.typ
    ctx.prove(outcome == 'ok', 'C14:init.transport.no-exception', info=outcome)
    if outcome != 'ok':
        return
    f = ctx.cell(tr).fields

    def empty(n):
        v = f.get(n)
        c = ctx.cell(v) if isinstance(v, Ref) else v
        if isinstance(c, NSet):
            return not any(b is not False for b in c.bits)
        return c is not None and len(getattr(c, 'entries', None) or getattr(c, 'items', None) or []) == 0
    ctx.prove(all(empty(n) for n in ('_connections', '_unknownConnections', '_readonlyNodes', '_nodeAddrToNode', '_lastConnectAttempt', '_preventConnectNodes', '_nodes')),
              'C14+C18:init.transport.starts-without-peers-connections-or-observers', info=repr([n for n in ('_connections', '_unknownConnections', '_readonlyNodes', '_nodeAddrToNode') if not empty(n)]))
    ctx.prove(f.get('_readonlyNodesCounter') == 0, 'C18+C14:init.transport.observer-counter-starts-at-zero')
    ctx.prove(f.get('_selfIsReadonlyNode') is readonly and f.get('_selfNode') is selfnode, 'C14+C18:init.transport.read-only-iff-no-own-address')
    ctx.prove([getattr(a, 'idx', None) for a in added] == [0, 1], 'C14:init.transport.every-partner-added-through-addNode', info=repr(added))
    ctx.prove(len(ticks) == 1, 'C14:init.transport.tick-callback-registered-once')
    if readonly:
        ctx.prove(f.get('_ready') is True and f.get('_server') is None and not servers, 'C14+C18:init.transport.read-only-node-is-ready-and-has-no-server')
    else:
        ctx.prove(f.get('_ready') is False and len(servers) == 1 and f.get('_server') is not None, 'C14:init.transport.member-has-a-server-and-is-not-ready-before-binding')
    for n in ('_onMessageReceivedCallback', '_onNodeConnectedCallback', '_onNodeDisconnectedCallback', '_onReadonlyNodeConnectedCallback', '_onReadonlyNodeDisconnectedCallback'):
        ctx.prove(n in f and f[n] is None, 'C14:init.transport.no-callbacks-until-set', info=n)


# --------------------------------------------------------------------------------------------------------------------------------
# utility (admin) messages: _onIncomingMessageReceived -> _onUtilityMessage -> registered callback -> _utilityCallback -> reply

class PartialKw(Partial):
    def __init__(self, f, args, kw):
        Partial.__init__(self, f, args)
        self.kw = dict(kw)


def partial_kw_ext(I, args, kw):
    return PartialKw(args[0], tuple(args[1:]), kw)


def _map_str_ext(I, args, kw):
    """map(str, <list of concrete strings / ints>) - the only use in transport.py (_utilityCallback)"""
    f, seq = args
    c = I.ctx.cell(seq) if isinstance(seq, Ref) else seq
    if not isinstance(c, PList) or not all(isinstance(x, (str, int)) and not isinstance(x, bool) for x in c.items):
        raise Undecided('map over %r' % (c,))
    return I.ctx.alloc(PList([str(x) for x in c.items]))


UTIL_CMDS = ('status', 'add', 'remove', 'set_version')


def _run_tr_util(ctx, tr, meth, args, kw=None):
    mod = source.load(TRMOD)
    fn, ci = mod.find('%s.%s' % (CLS, meth))
    if fn is None:
        raise Undecided('%s.%s not found' % (CLS, meth))
    ext = {'functools.partial': partial_kw_ext, 'os.urandom': lambda I, a, k: b'k', 'map': _map_str_ext}
    I = Interp(ctx, registry=REG, externals=ext, inline=INL, hooks={'call:cb': cb_hook, 'transport': tr, 'new:Node': node_new,
                                                                   'modules': [TRMOD], 'bases': {CLS: ('Transport',)}})
    try:
        return 'ok', I.call_funcdef(fn, mod, CLS, tr, list(args), dict(kw or {}), None, '%s.%s' % (CLS, meth)), I
    except PyExc as e:
        return e.typ, e, I


@unit(name='transport.utility', relpath=TRMOD, qual=['%s._onIncomingMessageReceived' % CLS, '%s._onUtilityMessage' % CLS], props=['C14', 'C10'],
      cases=[dict(cmd=c) for c in UTIL_CMDS],
      doc='O14.9: a first message that is a list headed by a registered utility command is handed to exactly the callback registered for '
          'that command, with the remaining items as its arguments and a reply continuation bound to this connection; the connection is '
          'bound to no node, nobody is reported connected, no later message of it is delivered as a node\'s message and the member tables '
          'are unchanged - an admin connection never becomes a message source',
      assumptions=['no-crypto', 'the registered callbacks are the SyncObj wrappers of unit membership.request / setCodeVersion (opaque here)'],
      canaries=[('wrong-args', lambda mod: mutate_function(mod, '%s._onUtilityMessage' % CLS, _mut_util_args), ['O14.9.callback-gets-the-arguments-after-the-command'])])
def tr_utility(ctx, cmd):
    tr, conns, members = mk_transport(ctx)
    newc = ctx.alloc(PObj('TcpConnection', {'state': CONNECTED, 'name': 'incoming', 'sendRandKey': None}))
    ctx.setcell(ctx.cell(tr).fields['_unknownConnections'], GSet([(True, newc, True)]))
    ctx.setcell(ctx.cell(tr).fields['_onUtilityMessageCallbacks'], PDict(dict((c, Callable_('cb:util:' + c)) for c in UTIL_CMDS)))
    arg = Opaque('arg', FreshInt('utilArg'))
    msg = ctx.alloc(PList([cmd, arg]))
    pre_conn = [(p, k, v) for p, k, v in F_(ctx, tr, '_connections').entries]
    outcome, r, I = _run_tr_util(ctx, tr, '_onIncomingMessageReceived', [newc, msg])
    ctx.prove(outcome == 'ok', 'C14:O14.9.no-exception', info=outcome)
    if outcome != 'ok':
        return
    cbs = ctx.glist('cb')
    util = [c for c in cbs if c[0].startswith('cb:util:')]
    ctx.prove(len(util) == 1 and util[0][0] == 'cb:util:' + cmd, 'C14+C10:O14.9.exactly-the-registered-callback-runs-once', info=repr([c[0] for c in cbs]))
    ctx.prove(len(cbs) == len(util), 'C14+C10:O14.9.admin-connection-reported-to-nobody', info=repr([c[0] for c in cbs]))
    if len(util) == 1:
        a = util[0][1]
        a0 = ctx.cell(a[0]) if len(a) > 0 and isinstance(a[0], Ref) else None
        ctx.prove(len(a) == 2 and isinstance(a0, PList) and len(a0.items) == 1 and a0.items[0] is arg, 'C10+C14:O14.9.callback-gets-the-arguments-after-the-command',
                  info=repr(a0))
        k = a[1] if len(a) > 1 else None
        ok = isinstance(k, PartialKw) and isinstance(k.f, BoundMethod) and k.f.name == '_utilityCallback' and not k.args and set(k.kw) == {'conn', 'args'}
        ctx.prove(ok and isinstance(k.kw['conn'], Ref) and k.kw['conn'].addr == newc.addr, 'C14+C10:O14.9.reply-continuation-bound-to-this-connection', info=repr(k))
        if ok:
            ka = ctx.cell(k.kw['args']) if isinstance(k.kw['args'], Ref) else None
            ctx.prove(isinstance(ka, PList) and len(ka.items) == 2 and ka.items[0] == cmd.upper() and ka.items[1] is arg,
                      'C10:O14.9.reply-names-the-command-and-its-arguments', info=repr(ka))
    bound = [(p, k) for p, k, v in F_(ctx, tr, '_connections').entries if isinstance(v, Ref) and v.addr == newc.addr and p is not False]
    ctx.prove(len(bound) == 0, 'C14+C10:O14.9.admin-connection-bound-to-no-node')
    ctx.prove(ctx.cell(newc).fields.get('msgcb') is None, 'C14+C10:O14.9.admin-connection-delivers-no-node-message')
    ro = F_(ctx, tr, '_readonlyNodes')
    ctx.prove(not [1 for p, k, v in ro.entries if p is not False], 'C14+C18:O14.9.admin-connection-is-not-an-observer')
    for i in range(U):
        ctx.prove(Iff(F_(ctx, tr, '_nodes').bits[i], members[i]), 'C14+C10:O14.9.members-untouched')
    post_conn = F_(ctx, tr, '_connections').entries
    ctx.prove(len(post_conn) == len(pre_conn) and all(a_[1] is b_[1] and a_[2] is b_[2] and (a_[0] is b_[0]) for a_, b_ in zip(pre_conn, post_conn)),
              'C14+C10:O14.9.connections-of-members-untouched')


def _mut_util_args(fn):
    cnt = 0
    for n in ast.walk(fn):
        if isinstance(n, ast.Slice) and isinstance(n.lower, ast.Constant) and n.lower.value == 1:
            n.lower = ast.Constant(0)
            cnt += 1
    return cnt


@unit(name='transport.utilityCallback', relpath=TRMOD, qual=['%s._utilityCallback' % CLS], props=['C10', 'C17'],
      cases=[dict(err=e, res=r_) for e in (0, 1, 2, 5, None) for r_ in (None, 'text')],
      doc='O10.8/O17.5: the answer to an admin request is truthful: exactly one message is sent, on the requesting connection; it starts with '
          'SUCCESS only if the request completed with FAIL_REASON.SUCCESS and with FAIL for every other completion code, followed by the '
          'command and its arguments; a result is passed through verbatim only when there is no completion code at all (status)',
      assumptions=['FAIL_REASON codes are the small integers of config.py (read from the real module)'])
def tr_utility_callback(ctx, err, res):
    tr, conns, members = mk_transport(ctx)
    newc = ctx.alloc(PObj('TcpConnection', {'state': CONNECTED, 'name': 'incoming', 'sendRandKey': None}))
    args = ctx.alloc(PList(['ADD', 'host:1']))
    outcome, r, I = _run_tr_util(ctx, tr, '_utilityCallback', [res, err], {'conn': newc, 'args': args})
    ctx.prove(outcome == 'ok', 'C10:O10.8.no-exception', info=outcome)
    if outcome != 'ok':
        return
    sends = [o for o in ctx.glist('conn_ops') if o[0] == 'send']
    ctx.prove(len(sends) == 1 and sends[0][1] == 'incoming', 'C10+C17:O10.8.one-answer-on-the-requesting-connection', info=repr(sends))
    if len(sends) != 1:
        return
    m = sends[0][2]
    if err is None and res:
        ctx.prove(m == res, 'C10:O10.8.result-passed-through-when-there-is-no-completion-code', info=repr(m))
    elif err == 0:
        ctx.prove(m == 'SUCCESS ADD host:1', 'C10+C17:O10.8.success-reported-for-success', info=repr(m))
    else:
        ctx.prove(m == 'FAIL ADD host:1', 'C10+C17:O10.8.every-other-completion-reported-as-fail', info=repr(m))


# --------------------------------------------------------------------------------------------------------------------------------
# dialling side with an encryptor configured: the key exchange of _onOutgoingConnected / _onOutgoingMessageReceived.
# Only the transport's part is under contract: which callback consumes the first message of *every* (re)connect and when the peer is
# reported connected.  The encryption itself (TcpConnection.encryptor, Fernet) stays outside (no-crypto).

@unit(name='transport.outgoingEncrypted', relpath=TRMOD, qual=['%s._onOutgoingConnected' % CLS, '%s._onOutgoingMessageReceived' % CLS, '%s._sendSelfAddress' % CLS],
      props=['C14'], cases=[dict(reconnect=False), dict(reconnect=True)],
      doc='O14.10: with an encryptor configured, every outgoing connect - the first and each reconnect of the same connection object - '
          'sends a fresh key, routes the next message of that connection to the key-exchange handler (so the peer\'s key is never '
          'delivered as a message of the peer) and reports nobody connected yet; the key-exchange handler stores the key, announces '
          'this node\'s address, routes later messages to _onMessageReceived with exactly the connection\'s node as source and reports '
          'that node connected exactly once',
      assumptions=['the encryptor is an opaque truthy object; TcpConnection\'s use of it (Fernet, cryptography) is not verified (no-crypto)',
                   'a connection that is (re)connecting has sendRandKey and recvRandKey None (TcpConnection.__init__ and disconnect(), tcp_connection.py)'],
      canaries=[('handshake-callback-not-installed', lambda mod: mutate_function(mod, '%s._onOutgoingConnected' % CLS, _mut_no_handshake_cb),
                 ['O14.10.next-message-goes-to-the-key-exchange'])])
def tr_outgoing_encrypted(ctx, reconnect):
    tr, conns, members = mk_transport(ctx)
    so = ctx.cell(tr).fields['_syncObj']
    ctx.setcell(so, ctx.cell(so).with_field('encryptor', ctx.alloc(PObj('Encryptor', {}))))
    c0 = conns[0]
    cell = ctx.cell(c0).with_field('sendRandKey', None).with_field('recvRandKey', None)
    # state left by addNode (first connect) or by the previous completed handshake (reconnect): messages go to _onMessageReceived(node)
    stale = Partial('previous:_onMessageReceived', (NodeV(0),)) if reconnect else Partial('addNode:_onMessageReceived', (NodeV(0),))
    ctx.setcell(c0, cell.with_field('msgcb', stale))
    ctx.setcell(ctx.cell(tr).fields['_connections'], KVDict([(True, NodeV(0), c0)]))
    outcome, r, I = run_tr(ctx, tr, '_onOutgoingConnected', [c0])
    ctx.prove(outcome == 'ok', 'C14:O14.10.connected.no-exception', info=outcome)
    if outcome != 'ok':
        return
    sends = [o for o in ctx.glist('conn_ops') if o[0] == 'send']
    f0 = ctx.cell(c0).fields
    ctx.prove(len(sends) == 1 and sends[0][1] == 'conn0' and f0.get('recvRandKey') is not None and sends[0][2] == f0.get('recvRandKey'),
              'C14:O14.10.fresh-key-sent-first', info=repr(sends))
    mcb = f0.get('msgcb')
    ctx.prove(isinstance(mcb, Partial) and isinstance(mcb.f, BoundMethod) and mcb.f.name == '_onOutgoingMessageReceived' and len(mcb.args) == 1 and
              isinstance(mcb.args[0], Ref) and mcb.args[0].addr == c0.addr, 'C14:O14.10.next-message-goes-to-the-key-exchange', info=repr(getattr(mcb, 'f', mcb)))
    ctx.prove(len(ctx.glist('cb')) == 0, 'C14:O14.10.nobody-reported-connected-before-the-key-exchange', info=repr(ctx.glist('cb')))
    key = Opaque('peerKey', FreshInt('peerKey'))
    outcome, r, I2 = run_tr(ctx, tr, '_onOutgoingMessageReceived', [c0, key])
    ctx.prove(outcome == 'ok', 'C14:O14.10.exchange.no-exception', info=outcome)
    if outcome != 'ok':
        return
    f0 = ctx.cell(c0).fields
    ctx.prove(f0.get('sendRandKey') is key, 'C14:O14.10.peer-key-stored')
    sends = [o for o in ctx.glist('conn_ops') if o[0] == 'send']
    ctx.prove(len(sends) == 2 and sends[1][1] == 'conn0' and isinstance(sends[1][2], NodeId) and Eq(sends[1][2].idx, U) is True,
              'C14:O14.10.own-address-announced-after-the-key', info=repr(sends))
    mcb = f0.get('msgcb')
    ctx.prove(isinstance(mcb, Partial) and isinstance(mcb.f, BoundMethod) and mcb.f.name == '_onMessageReceived' and len(mcb.args) == 1 and
              isinstance(mcb.args[0], NodeV) and Eq(mcb.args[0].idx, 0) is True, 'C14:O14.10.later-messages-delivered-with-the-connections-node-as-source', info=repr(mcb))
    cbs = ctx.glist('cb')
    ctx.prove(len(cbs) == 1 and cbs[0][0] == 'cb:onNodeConnected' and Eq(cbs[0][1][0].idx, 0) is True, 'C14:O14.10.peer-reported-connected-exactly-once-after-the-exchange',
              info=repr([c[0] for c in cbs]))
    ctx.prove(not any(c[0] == 'cb:onMessageReceived' for c in cbs), 'C14:O14.10.key-never-delivered-as-a-message-of-the-peer')


def _mut_no_handshake_cb(fn):
    cnt = 0
    for n in ast.walk(fn):
        body = getattr(n, 'body', None)
        if isinstance(body, list):
            for s in list(body):
                if isinstance(s, ast.Expr) and isinstance(s.value, ast.Call) and isinstance(s.value.func, ast.Attribute) and s.value.func.attr == 'setOnMessageReceivedCallback':
                    body.remove(s)
                    if not body:
                        body.append(ast.Pass())
                    cnt += 1
    return cnt


@unit(name='transport.incomingEncrypted', relpath=TRMOD, qual=['%s._onIncomingMessageReceived' % CLS], props=['C14', 'C10'],
      doc='O14.11: with an encryptor configured, the first message of an incoming connection is consumed as the peer\'s key: it is stored, a '
          'fresh key is sent back, and the connection stays unknown - bound to no node, reported to nobody, its messages still routed to '
          'the handshake; only the second message names the peer, and a member address then binds the connection to exactly that member',
      assumptions=['the encryptor is an opaque truthy object; TcpConnection\'s use of it is not verified (no-crypto)',
                   'a new incoming connection has sendRandKey None (TcpConnection.__init__)'])
def tr_incoming_encrypted(ctx):
    tr, conns, members = mk_transport(ctx)
    so = ctx.cell(tr).fields['_syncObj']
    ctx.setcell(so, ctx.cell(so).with_field('encryptor', ctx.alloc(PObj('Encryptor', {}))))
    hs = Partial('server:_onIncomingMessageReceived', ())
    newc = ctx.alloc(PObj('TcpConnection', {'state': CONNECTED, 'name': 'incoming', 'sendRandKey': None, 'recvRandKey': None, 'msgcb': hs}))
    ctx.setcell(ctx.cell(tr).fields['_unknownConnections'], GSet([(True, newc, True)]))
    key = Opaque('peerKey', FreshInt('peerKey'))      # 32 random bytes: truthy
    outcome, r, I = run_tr(ctx, tr, '_onIncomingMessageReceived', [newc, key])
    ctx.prove(outcome == 'ok', 'C14:O14.11.key.no-exception', info=outcome)
    if outcome != 'ok':
        return
    f0 = ctx.cell(newc).fields
    sends = [o for o in ctx.glist('conn_ops') if o[0] == 'send']
    ctx.prove(f0.get('sendRandKey') is key, 'C14:O14.11.peer-key-stored')
    ctx.prove(len(sends) == 1 and sends[0][1] == 'incoming' and f0.get('recvRandKey') is not None and sends[0][2] == f0.get('recvRandKey'), 'C14:O14.11.fresh-key-sent-back', info=repr(sends))
    ctx.prove(len(ctx.glist('cb')) == 0, 'C14+C10:O14.11.key-reported-to-nobody', info=repr(ctx.glist('cb')))
    ctx.prove(f0.get('msgcb') is hs, 'C14+C10:O14.11.key-is-not-a-node-message-and-later-messages-stay-with-the-handshake')
    bound = [(p, k) for p, k, v in F_(ctx, tr, '_connections').entries if isinstance(v, Ref) and v.addr == newc.addr and p is not False]
    ctx.prove(len(bound) == 0, 'C14+C10:O14.11.connection-bound-to-no-node-after-the-key')
    still_unknown = Or(*[And(p, I.equals(k, newc)) for p, k, v in F_(ctx, tr, '_unknownConnections').entries])
    ctx.prove(still_unknown, 'C14:O14.11.connection-still-unknown-after-the-key')
    ctx.prove(not any(o[0] == 'disconnect' for o in ctx.glist('conn_ops')), 'C14:O14.11.not-disconnected-by-the-key')
    # second message: the claimed address
    idx = FreshInt('claimedNode')
    ctx.assume(And(idx >= 0, idx <= U + 2))
    outcome, r, I = run_tr(ctx, tr, '_onIncomingMessageReceived', [newc, NodeId(idx)])
    ctx.prove(outcome == 'ok', 'C14:O14.11.name.no-exception', info=outcome)
    if outcome != 'ok':
        return
    bound = [(p, k) for p, k, v in F_(ctx, tr, '_connections').entries if isinstance(v, Ref) and v.addr == newc.addr and p is not False]
    is_member = Or(*[And(members[i], Eq(idx, i)) for i in range(U)])
    if ctx.decide(is_member, 'is-member'):
        ctx.prove(len(bound) == 1 and isinstance(bound[0][1], NodeV) and Eq(bound[0][1].idx, idx), 'C14+C10:O14.11.bound-to-the-claimed-member')
        cbs = [c for c in ctx.glist('cb') if c[0] == 'cb:onNodeConnected']
        ctx.prove(len(cbs) == 1 and len(ctx.glist('cb')) == 1 and Eq(cbs[0][1][0].idx, idx), 'C14:O14.11.member-reported-connected-once')
    else:
        ctx.prove(len(bound) == 0 and len(ctx.glist('cb')) == 0, 'C14+C10:O14.11.unknown-peer-bound-to-no-node')
        ctx.prove(any(o == ('disconnect', 'incoming') for o in ctx.glist('conn_ops')), 'C14+C10:O14.11.unknown-peer-disconnected')


@unit(name='transport.destroy', relpath=TRMOD, qual=['%s.destroy' % CLS, '%s.dropNode' % CLS], props=['C14'],
      doc='O14.12: destroy() first removes every notification callback (so nothing is reported to a destroyed object, not even the '
          'disconnects it causes itself), drops every member (no connection, address or node entry left, no reconnect attempted), unbinds '
          'the server and disconnects every connection that has not named its peer yet',
      assumptions=['no observers connected in this unit (observer drop is the else-branch of dropNode, unit transport.dropNode)'])
def tr_destroy(ctx):
    tr, conns, members = mk_transport(ctx)
    unk = ctx.alloc(PObj('TcpConnection', {'state': CONNECTED, 'name': 'unknown0'}))
    ctx.setcell(ctx.cell(tr).fields['_unknownConnections'], GSet([(True, unk, True)]))
    srv_ops = []
    server = ctx.alloc(PObj('TcpServer', {}))
    ctx.setcell(tr, ctx.cell(tr).with_field('_server', server))
    REG['TcpServer.unbind'] = lambda I, s, a, k: srv_ops.append('unbind')
    extra = {'%s.dropNode' % CLS} | {'Transport.%s' % m for m in ('setOnMessageReceivedCallback', 'setOnNodeConnectedCallback', 'setOnNodeDisconnectedCallback',
                                                                  'setOnReadonlyNodeConnectedCallback', 'setOnReadonlyNodeDisconnectedCallback')}
    added = extra - INL
    INL.update(added)
    try:
        outcome, r, I = run_tr(ctx, tr, 'destroy', [])
    finally:
        REG.pop('TcpServer.unbind', None)
        INL.difference_update(added)
    ctx.prove(outcome == 'ok', 'C14:O14.12.no-exception', info=outcome)
    if outcome != 'ok':
        return
    f = ctx.cell(tr).fields
    for n in ('_onMessageReceivedCallback', '_onNodeConnectedCallback', '_onNodeDisconnectedCallback', '_onReadonlyNodeConnectedCallback', '_onReadonlyNodeDisconnectedCallback'):
        ctx.prove(f.get(n) is None, 'C14:O14.12.callbacks-removed', info=n)
    ctx.prove(len(ctx.glist('cb')) == 0, 'C14:O14.12.nothing-reported-to-a-destroyed-object', info=repr(ctx.glist('cb')))
    ctx.prove(Not(Or(*F_(ctx, tr, '_nodes').bits)), 'C14:O14.12.no-member-left')
    ctx.prove(Not(Or(*[p for p, k, v in F_(ctx, tr, '_connections').entries])), 'C14:O14.12.no-connection-left')
    ctx.prove(Not(Or(*[p for p, k, v in F_(ctx, tr, '_nodeAddrToNode').entries])), 'C14:O14.12.no-address-left')
    ops = ctx.glist('conn_ops')
    ctx.prove(not any(o[0] == 'connect' for o in ops), 'C14:O14.12.no-reconnect-attempted')
    ctx.prove(srv_ops == ['unbind'], 'C14:O14.12.server-unbound-once', info=repr(srv_ops))
    ctx.prove(any(o == ('disconnect', 'unknown0') for o in ops), 'C14:O14.12.unnamed-connections-disconnected')
    u = F_(ctx, tr, '_unknownConnections')
    ctx.prove(not [1 for e in getattr(u, 'entries', [1]) if e[0] is not False], 'C14:O14.12.no-unnamed-connection-left', info=repr(u))
