"""C17 O17.2: the version selection of SyncObj.__onSetCodeVersion - for one replicated function, of all the versions its
implementations carry, the name table gets the implementation with the greatest version that does not exceed the enabled one.

Unit onSetCodeVersion.select runs the real body of the last loop of __onSetCodeVersion (`for funcName, versions in
iteritems(funcVersions)`) for an arbitrary function name and an arbitrary finite set of versions (unbounded size and values); the
inner `for v in versions: if v > newVersion: break` loop carries a loop contract.  How funcVersions is collected (dir/getattr
reflection over the object and its consumers) stays with the bounded stand-in of C17."""
import ast
import z3
from pyvc.values import *   # noqa
from pyvc.harness import unit, mutate_function, replace_compare
from pyvc.loops import LoopSpec, loop_table, Sel
from pyvc.ctx import Undecided
from pyvc.interp import Interp, PyExc, Frame
from pyvc.builtins_ import StrOf, StrCat
from pyvc import source
from .so_model import MOD

QUAL = 'SyncObj.__onSetCodeVersion'
TABLE = '_SyncObj__currentVersionFuncNames'


class IntSetV(object):
    """a finite set of ints given by its sorted enumeration S(0) < ... < S(n-1); M is its membership predicate"""

    def __init__(self, M, S, n):
        self.M, self.S, self.n = M, S, n

    def as_sequence(self, I):
        """direct iteration over the set: its elements in an unspecified order (an arbitrary enumeration A of the members, related to
        the increasing enumeration only by having the same length and the same elements)"""
        A = z3.Function(fresh_name('anyOrderV'), z3.IntSort(), z3.IntSort())
        return I.ctx.alloc(SList(self.n, (lambda q, A=A: A(to_z3(q))), None))


def _select_region(mod):
    fn, ci = mod.find(QUAL)
    if fn is None:
        raise Undecided('%s not found' % QUAL)
    outer = [s for s in fn.body if isinstance(s, ast.For) and any(isinstance(x, ast.Name) and x.id == 'funcVersions' for x in ast.walk(s.iter))]
    if len(outer) != 1:
        raise Undecided('the loop over funcVersions in __onSetCodeVersion was not located')
    return outer[0]


def _select_spec(ctx, selfref, key, vs, nv, other, c_en, facts):
    """inner loop `for v in versions`: with c = |{v in V : v <= newVersion}| (the enabled versions are S(0..c-1)) and g = min(k, c) the number
    of enabled versions among the k visited ones, the table entry of this function is present iff g > 0 and then names S(g-1); every other
    entry is untouched.  (Stated over the visited prefix, so it holds whether the loop stops at the first newer version or skips the newer ones.)"""
    def inv(I, fr, it):
        k = to_z3(it['k'])
        facts(k)
        c = ctx.cell(ctx.cell(selfref).fields[TABLE])
        mine = [(p, kk, v) for p, kk, v in c.entries if kk == key]
        oth = [(p, kk, v) for p, kk, v in c.entries if kk != key]
        out = [('one-entry-for-this-function', len(mine) == 1), ('other-entries-untouched', len(oth) == 1 and oth[0][1] == other[1] and oth[0][2] is other[2] and oth[0][0] is other[0])]
        if len(mine) == 1:
            p, _, v = mine[0]
            g = z3.If(k < c_en, k, c_en)
            out.append(('entry-present-iff-an-enabled-version-was-visited', Iff(p, g > 0)))
            want = StrCat((key + '_v', StrOf(vs.S(g - 1))))
            got_ok = v.sym_eq(want) if hasattr(v, 'sym_eq') else False
            out.append(('entry-names-the-last-enabled-version-visited', Implies(g > 0, got_ok)))
        return out

    def havoc(I, fr):
        t = ctx.cell(selfref).fields[TABLE]
        ctx.setcell(t, KVDict([other, (FreshBool('hasEntry'), key, StrCat((key + '_v', StrOf(FreshInt('someVersion')))))]))

    def after(I, fr, it):
        ctx.ghost['k_exit'] = it['k']
    return LoopSpec('C17:O17.2.select-loop', inv, havoc=havoc, keep=('self',), after=after)


@unit(name='onSetCodeVersion.select', relpath=MOD, qual=[QUAL], props=['C17'],
      kind='body of the last loop of __onSetCodeVersion (one function name with its set of versions), inner loop under a loop contract',
      doc='O17.2: for a replicated function with implementations of versions V (any finite set), after __onSetCodeVersion(n) the name table '
          'maps it to name_v<m> with m = max{v in V : v <= n}, and has no entry for it when every version exceeds n; entries of other functions '
          'are untouched',
      assumptions=['X4: how funcVersions is collected by reflection is covered by the bounded stand-in only'], trusted=['sorted(list(set)) is the increasing enumeration of the set'],
      canaries=[('ge-instead-of-gt', lambda mod: mutate_function(mod, QUAL, lambda fn: replace_compare(
          fn, lambda n: isinstance(n.left, ast.Name) and n.left.id == 'v', ast.Gt, ast.GtE, 0)), ['O17.2.entry-is-greatest-enabled-version'])])
def select_version(ctx):
    mod = source.load(MOD)
    outer = _select_region(mod)
    nv = FreshInt('newVersion')
    n = FreshInt('nVersions')
    ctx.assume(n >= 0)
    ctx.track('newVersion', nv)
    ctx.track('number of versions', n)
    M = z3.Function(fresh_name('inV'), z3.IntSort(), z3.BoolSort())
    S = z3.Function(fresh_name('sortedV'), z3.IntSort(), z3.IntSort())
    pos = z3.Function(fresh_name('posV'), z3.IntSort(), z3.IntSort())
    # the set and its increasing enumeration: S is strictly increasing on [0, n), every S(i) is a member, every member x sits at pos(x).
    # The three facts are used through explicit instances only (below), no quantifier reaches the solver.
    def mono(a, b):
        return z3.Implies(z3.And(a >= 0, a < b, b < n), S(a) < S(b))

    def member_at(a):
        return z3.Implies(z3.And(a >= 0, a < n), M(S(a)))

    def located(xv):
        return z3.Implies(M(xv), z3.And(pos(xv) >= 0, pos(xv) < n, S(pos(xv)) == xv))
    vs = IntSetV(M, S, n)
    # c = number of versions that do not exceed newVersion: S(0..c-1) <= newVersion < S(c..n-1) (exists because S is increasing)
    c_en = FreshInt('enabledCount')
    ctx.assume(And(c_en >= 0, c_en <= n, Implies(c_en > 0, S(c_en - 1) <= nv), Implies(c_en < n, S(c_en) > nv)))
    ctx.track('versions <= newVersion', c_en)

    def facts(k):
        for t1 in (k - 1, k, c_en - 1, c_en):
            for t2 in (k - 1, k, c_en - 1, c_en):
                ctx.assume(mono(t1, t2))
    key = 'incr'
    other = (FreshBool('otherPresent'), 'other', 'other_v0')
    # the table was emptied at the top of __onSetCodeVersion and funcVersions has one key per function: no entry for this function yet
    table = ctx.alloc(KVDict([other, (False, key, StrCat((key + '_v', StrOf(z3.IntVal(-1)))))]))
    selfref = ctx.alloc(PObj('SyncObj', {TABLE: table}))

    def _sorted(I, a, k):
        if isinstance(a[0], IntSetV):
            if k:
                raise Undecided('sorted() of the version set with %s' % sorted(k))
            return ctx.alloc(SList(a[0].n, (lambda q, s=a[0]: s.S(to_z3(q))), None))
        from pyvc.builtins_ import BUILTINS
        return BUILTINS['sorted'](I, a, k)

    def _list(I, a, k):
        if isinstance(a[0], IntSetV):
            return a[0]
        from pyvc.builtins_ import BUILTINS
        return BUILTINS['list'](I, a, k)
    inner = Sel('for', header=('versions',), not_header=('funcVersions',), body=('newVersion',))
    loops = {QUAL: loop_table(mod, QUAL, {inner: _select_spec(ctx, selfref, key, vs, nv, other, c_en, facts)})}
    I = Interp(ctx, externals={'sorted': _sorted, 'list': _list}, loop_invariants=loops)
    fr = Frame(mod, 'SyncObj', QUAL)
    fr.locals.update({'self': selfref, 'newVersion': nv})
    I.assign(outer.target, (key, vs), fr)
    try:
        I.exec_block(outer.body, fr)
        outcome = 'ok'
    except PyExc as e:
        outcome = e.typ
    ctx.prove(outcome == 'ok', 'C17:O17.2.no-exception', info=outcome)
    if outcome != 'ok':
        return
    c = ctx.cell(ctx.cell(selfref).fields[TABLE])
    mine = [(p, kk, v) for p, kk, v in c.entries if kk == key]
    ctx.prove(len(mine) == 1, 'C17:O17.2.one-entry-for-this-function')
    if len(mine) != 1:
        return
    p, _, v = mine[0]
    k = to_z3(ctx.ghost.get('k_exit'))
    facts(k)
    y = FreshInt('anyVersion')
    py = pos(y)
    for t1 in (c_en - 1, c_en, py):
        ctx.assume(member_at(t1))
        for t2 in (c_en - 1, c_en, py):
            ctx.assume(mono(t1, t2))
    ctx.assume(located(y))
    enabled_y = And(M(y), y <= nv)
    ctx.prove(Implies(enabled_y, p), 'C17:O17.2.entry-present-when-some-version-is-enabled')
    ctx.prove(Implies(p, And(M(S(c_en - 1)), S(c_en - 1) <= nv)), 'C17:O17.2.no-entry-when-every-version-exceeds-the-enabled-one')
    want = StrCat((key + '_v', StrOf(S(c_en - 1))))
    ctx.prove(Implies(p, And(v.sym_eq(want) if hasattr(v, 'sym_eq') else False, Implies(enabled_y, y <= S(c_en - 1)))), 'C17:O17.2.entry-is-greatest-enabled-version')
    oth = [(pp, kk, vv) for pp, kk, vv in c.entries if kk != key]
    ctx.prove(len(oth) == 1 and oth[0][0] is other[0] and oth[0][2] is other[2], 'C17:O17.2.other-functions-untouched')


@unit(name='getFuncName', relpath=MOD, qual=['SyncObj._getFuncName'], props=['C17', 'C11'],
      doc='O17.7 (lookup): _getFuncName(name) is the entry of the version name table for that name; a method that has no implementation at or below the '
          'enabled version has no entry and the call is refused with KeyError at the call site - nothing is submitted, so no replica ever executes an '
          'implementation above the enabled version')
def get_func_name_unit(ctx):
    mod = source.load(MOD)
    fn, ci = mod.find('SyncObj._getFuncName')
    if fn is None:
        raise Undecided('SyncObj._getFuncName not found')
    has = FreshBool('hasImplementationAtOrBelowEnabledVersion')
    val = StrCat(('incr_v', StrOf(FreshInt('version'))))
    table = ctx.alloc(KVDict([(has, 'incr', val), (FreshBool('otherPresent'), 'other', 'other_v0')]))
    obj = ctx.alloc(PObj('SyncObj', {TABLE: table}))
    I = Interp(ctx)
    I.cur_mod = mod
    try:
        r = I.call_funcdef(fn, mod, 'SyncObj', obj, ['incr'], {}, None, 'SyncObj._getFuncName')
        outcome = 'ok'
    except PyExc as e:
        r, outcome = None, e.typ
    if outcome == 'ok':
        ctx.prove(has, 'C17+C11:O17.7.method-unknown-at-this-version-is-refused', info=repr(r))
        ctx.prove(r is val, 'C17:O17.7.lookup-returns-the-table-entry', info=repr(r))
    else:
        ctx.prove(outcome == 'KeyError' and Not(has) is not False, 'C17:O17.7.only-KeyError-and-only-when-absent', info=outcome)
        ctx.prove(Not(has), 'C17:O17.7.only-KeyError-and-only-when-absent')
