"""C15: every public method of the six batteries delegates to the builtin it mimics exactly as the Python documentation of
that builtin prescribes (including default arguments and documented errors).

The container is opaque and of unbounded size: a method body is executed symbolically against a recording stand-in of the
builtin object; the contract (written from the documentation of list / dict / set / deque / heapq) says which builtin
operation, with which arguments, the call must amount to and what it returns.  Replica determinism: a replicated method
must be a function of (state, arguments) - builtins whose result is documented as arbitrary (set.pop) break it."""
import ast
import z3
from pyvc.values import *   # noqa
from pyvc.harness import unit, mutate_function, replace_compare, Unit
from pyvc.ctx import Undecided
from pyvc.interp import Interp, PyExc
from pyvc import source

BAT = 'pysyncobj/batteries.py'
NONDET_BUILTINS = {('set', 'pop')}


class Recorder(object):
    """stand-in for the builtin container held in self.__data"""

    def __init__(self, kind, n):
        self.kind = kind
        self.n = n            # symbolic length
        self.kinds = (kind,)

    def _rec(self, I, op, args):
        I.ctx.ghost['trace'] = I.ctx.glist('trace') + [(op, tuple(args))]
        return Opaque('ret', FreshInt('ret_' + op))

    def call_method(self, I, ref, name, args, kw):
        if kw:
            args = list(args) + [('kw', k, v) for k, v in sorted(kw.items())]
        if name in ('popleft',) or (name == 'pop' and self.kind in ('set', 'deque')):
            if I.ctx.decide(to_z3(self.n) == 0, 'container-empty'):
                I.ctx.ghost['trace'] = I.ctx.glist('trace') + [(name + '!raises', tuple(args))]
                I.raise_('IndexError' if self.kind != 'set' else 'KeyError')
        return self._rec(I, name, args)

    def length(self, I):
        return self.n

    def truth(self, I):
        return to_z3(self.n) > 0

    def get_item(self, I, ref, idx):
        return self._rec(I, '__getitem__', [idx])

    def set_item(self, I, ref, idx, v):
        self._rec(I, '__setitem__', [idx, v])

    def contains(self, I, x):
        r = FreshBool('contains')
        I.ctx.ghost['trace'] = I.ctx.glist('trace') + [('__contains__', (x,))]
        I.ctx.ghost['contains_result'] = [r]
        return r


def heappush(I, args, kw):
    rec = I.ctx.cell(args[0])
    return rec._rec(I, 'heapq.heappush', [args[1]])


def heappop(I, args, kw):
    rec = I.ctx.cell(args[0])
    return rec._rec(I, 'heapq.heappop', [])


A = lambda n: Opaque('arg', FreshInt(n))

# method -> (data kind, [arg names], {optional arg: default}, spec) ; spec(args, n, maxsize) -> list of alternatives
# (guard, expected trace, expected return) where return 'R' = result of the (last) builtin call, or a literal / arg name
R = 'R'


def one(op, *names):
    return lambda a, n, mx: [(True, [(op, tuple(a[x] for x in names))], R)]


def one_none(op, *names):
    return lambda a, n, mx: [(True, [(op, tuple(a[x] for x in names))], None)]


SPECS = {
    'ReplList': ('list', {
        'set': (['position', 'newValue'], {}, one_none('__setitem__', 'position', 'newValue')),
        'append': (['item'], {}, one_none('append', 'item')),
        'extend': (['other'], {}, one_none('extend', 'other')),
        'insert': (['position', 'element'], {}, one_none('insert', 'position', 'element')),
        'remove': (['element'], {}, one_none('remove', 'element')),
        # list.pop([i]): "removes and returns the last item if no index is specified"
        'pop': (['position'], {'position': None}, lambda a, n, mx: [(a['position'] is None, [('pop', ())], R),
                                                                     (a['position'] is not None, [('pop', (a['position'],))], R)]),
        'sort': (['reverse'], {'reverse': False}, lambda a, n, mx: [(True, [('sort', (('kw', 'reverse', a['reverse']),))], None)]),
        'index': (['element'], {}, one('index', 'element')),
        'count': (['element'], {}, one('count', 'element')),
        'get': (['position'], {}, one('__getitem__', 'position')),
        '__getitem__': (['position'], {}, one('__getitem__', 'position')),
        '__setitem__': (['position', 'element'], {}, one_none('__setitem__', 'position', 'element')),
        '__len__': ([], {}, lambda a, n, mx: [(True, [], ('len',))]),
        'rawData': ([], {}, lambda a, n, mx: [(True, [], ('data',))]),
        'reset': (['newData'], {}, lambda a, n, mx: [(True, [], ('newdata',))]),
    }),
    'ReplDict': ('dict', {
        '__setitem__': (['key', 'value'], {}, one_none('__setitem__', 'key', 'value')),
        'set': (['key', 'value'], {}, one_none('__setitem__', 'key', 'value')),
        'setdefault': (['key', 'default'], {}, one('setdefault', 'key', 'default')),
        'update': (['other'], {}, one_none('update', 'other')),
        # dict.pop(key[, default]): ReplDict documents "return default if key not exist" with default None
        'pop': (['key', 'default'], {'default': None}, one('pop', 'key', 'default')),
        'clear': ([], {}, one_none('clear')),
        '__getitem__': (['key'], {}, one('__getitem__', 'key')),
        'get': (['key', 'default'], {'default': None}, one('get', 'key', 'default')),
        '__len__': ([], {}, lambda a, n, mx: [(True, [], ('len',))]),
        '__contains__': (['key'], {}, lambda a, n, mx: [(True, [('__contains__', (a['key'],))], ('contains',))]),
        'keys': ([], {}, one('keys')),
        'values': ([], {}, one('values')),
        'items': ([], {}, one('items')),
        'rawData': ([], {}, lambda a, n, mx: [(True, [], ('data',))]),
        'reset': (['newData'], {}, lambda a, n, mx: [(True, [], ('newdata',))]),
    }),
    'ReplSet': ('set', {
        'add': (['item'], {}, one_none('add', 'item')),
        'remove': (['item'], {}, one_none('remove', 'item')),
        'discard': (['item'], {}, one_none('discard', 'item')),
        'pop': ([], {}, lambda a, n, mx: [(to_z3(n) > 0, [('pop', ())], R), (to_z3(n) == 0, [('pop!raises', ())], ('raises', 'KeyError'))]),
        'clear': ([], {}, one_none('clear')),
        'update': (['other'], {}, one_none('update', 'other')),
        'rawData': ([], {}, lambda a, n, mx: [(True, [], ('data',))]),
        '__len__': ([], {}, lambda a, n, mx: [(True, [], ('len',))]),
        '__contains__': (['item'], {}, lambda a, n, mx: [(True, [('__contains__', (a['item'],))], ('contains',))]),
        'reset': (['newData'], {}, lambda a, n, mx: [(True, [], ('newdata',))]),
    }),
    'ReplQueue': ('deque', {
        'qsize': ([], {}, lambda a, n, mx: [(True, [], ('len',))]),
        'empty': ([], {}, lambda a, n, mx: [(True, [], ('bool', to_z3(n) == 0))]),
        '__len__': ([], {}, lambda a, n, mx: [(True, [], ('len',))]),
        'full': ([], {}, lambda a, n, mx: [(True, [], ('bool', to_z3(n) == to_z3(mx)))]),
        # bounded FIFO: put refused (False, unchanged) iff maxsize > 0 and len >= maxsize
        'put': (['item'], {}, lambda a, n, mx: [(And(to_z3(mx) != 0, to_z3(n) >= to_z3(mx)), [], False),
                                                (Not(And(to_z3(mx) != 0, to_z3(n) >= to_z3(mx))), [('append', (a['item'],))], True)]),
        'get': (['default'], {'default': None}, lambda a, n, mx: [(to_z3(n) > 0, [('popleft', ())], R),
                                                                 (to_z3(n) == 0, [('popleft!raises', ())], ('arg', 'default'))]),
    }),
    'ReplPriorityQueue': ('list', {
        'qsize': ([], {}, lambda a, n, mx: [(True, [], ('len',))]),
        'empty': ([], {}, lambda a, n, mx: [(True, [], ('bool', to_z3(n) == 0))]),
        '__len__': ([], {}, lambda a, n, mx: [(True, [], ('len',))]),
        'full': ([], {}, lambda a, n, mx: [(True, [], ('bool', to_z3(n) == to_z3(mx)))]),
        'put': (['item'], {}, lambda a, n, mx: [(And(to_z3(mx) != 0, to_z3(n) >= to_z3(mx)), [], False),
                                                (Not(And(to_z3(mx) != 0, to_z3(n) >= to_z3(mx))), [('heapq.heappush', (a['item'],))], True)]),
        'get': (['default'], {'default': None}, lambda a, n, mx: [(to_z3(n) > 0, [('heapq.heappop', ())], R),
                                                                 (to_z3(n) == 0, [], ('arg', 'default'))]),
    }),
}


def _fld(cls, n):
    return '_%s__%s' % (cls, n)


def _same(a, b):
    if a is b:
        return True
    if isinstance(a, tuple) and isinstance(b, tuple):
        return len(a) == len(b) and all(_same(x, y) for x, y in zip(a, b))
    if isinstance(a, (Opaque,)) or isinstance(b, (Opaque,)):
        return False
    try:
        return a == b and type(a) == type(b)
    except Exception:
        return False


def run_battery(ctx, cls, meth, omit):
    kind, table = SPECS[cls]
    names, defaults, spec = table[meth]
    mod = source.load(BAT)
    fn, ci = mod.find('%s.%s' % (cls, meth))
    if fn is None:
        raise Undecided('%s.%s not found' % (cls, meth))
    n = FreshInt('len')
    mx = FreshInt('maxsize')
    ctx.assume(And(n >= 0, mx >= 0))
    ctx.track('len(data)', n)
    ctx.track('maxsize', mx)
    rec = Recorder(kind, n)
    data = ctx.alloc(rec)
    obj = ctx.alloc(PObj(cls, {_fld(cls, 'data'): data, _fld(cls, 'maxsize'): mx, '_syncObj': None}))
    a = {}
    call_args = []
    for nm in names:
        if nm in defaults and omit:
            a[nm] = defaults[nm]
        else:
            if meth == 'reset' and nm == 'newData':
                a[nm] = ctx.alloc(Recorder(kind, FreshInt('newlen')))
            elif nm == 'reverse':
                a[nm] = FreshBool('reverse')
            else:
                a[nm] = A(nm)
            call_args.append(a[nm])
    I = Interp(ctx, externals={'heapq.heappush': heappush, 'heapq.heappop': heappop}, inline=set(),
               hooks={'bases': {}})
    try:
        ret = I.call_funcdef(fn, mod, cls, obj, call_args, {}, None, '%s.%s' % (cls, meth))
        outcome = 'ok'
    except PyExc as e:
        ret, outcome = e, 'raise'
    trace = ctx.glist('trace')
    alts = spec(a, n, mx)
    guards = [g for g, t, r in alts]
    matched = False
    for g, want_trace, want_ret in alts:
        if isinstance(g, bool):
            if not g:
                continue
            holds = True
        else:
            if not ctx.feasible(g):
                continue
            if ctx.feasible(z3.Not(g)):
                # the path does not determine the guard: split on it
                holds = ctx.decide(g, 'spec-case')
                if not holds:
                    continue
            else:
                holds = True
        matched = True
        tag = 'C15:%s.%s' % (cls, meth)
        ok_trace = len(trace) == len(want_trace) and all(t[0] == w[0] and _same(t[1], w[1]) for t, w in zip(trace, want_trace))
        ctx.prove(ok_trace, tag + '.same-builtin-operation-with-same-arguments',
                  info='got %r want %r' % ([(t[0], len(t[1])) for t in trace], [(w[0], len(w[1])) for w in want_trace]))
        if isinstance(want_ret, tuple) and want_ret[0] == 'raises':
            ctx.prove(outcome == 'raise' and ret.typ == want_ret[1], tag + '.documented-error', info=getattr(ret, 'typ', None))
        else:
            ctx.prove(outcome == 'ok', tag + '.no-undocumented-error', info=getattr(ret, 'typ', None))
            if outcome != 'ok':
                break
            if want_ret == R:
                last = [t for t in trace if not t[0].endswith('!raises')]
                ctx.prove(isinstance(ret, Opaque) and ret.kind == 'ret', tag + '.returns-builtin-result')
            elif want_ret is None or want_ret is True or want_ret is False:
                ctx.prove(ret is want_ret, tag + '.return-value', info=repr(ret))
            elif want_ret[0] == 'len':
                ctx.prove(Eq(ret, n), tag + '.return-value')
            elif want_ret[0] == 'bool':
                ctx.prove(Iff(I.truth_expr(ret), want_ret[1]), tag + '.return-value')
            elif want_ret[0] == 'arg':
                ctx.prove(ret is a[want_ret[1]], tag + '.return-value', info=repr(ret))
            elif want_ret[0] == 'contains':
                ctx.prove(ret is ctx.glist('contains_result')[0], tag + '.return-value')
            elif want_ret[0] == 'data':
                ctx.prove(isinstance(ret, Ref) and ret.addr == data.addr, tag + '.return-value')
            elif want_ret[0] == 'newdata':
                cur = ctx.cell(obj).fields[_fld(cls, 'data')]
                ctx.prove(isinstance(cur, Ref) and cur.addr == a['newData'].addr, tag + '.data-replaced')
        # replica determinism of replicated methods
        for t in trace:
            ctx.prove((kind, t[0]) not in NONDET_BUILTINS, 'C15:determ.%s.%s' % (cls, meth), info='%s.%s is documented as arbitrary' % (kind, t[0]))
        break
    if not matched:
        ctx.prove(False, 'C15:%s.%s.spec-case-covered' % (cls, meth))


def _mk_units():
    for cls, (kind, table) in SPECS.items():
        for meth, (names, defaults, spec) in table.items():
            cases = [dict(cls=cls, meth=meth, omit=False)]
            if defaults:
                cases.append(dict(cls=cls, meth=meth, omit=True))
            Unit(name='bat.%s.%s' % (cls, meth), relpath=BAT, qual=['%s.%s' % (cls, meth)], run=run_battery, props=['C15'], cases=cases,
                 doc='body of %s.%s amounts to the documented %s operation' % (cls, meth, kind), trusted=['T-BUILTIN'])


_mk_units()

# canaries on three representative methods
from pyvc.harness import UNITS   # noqa


def _mut_put_gt(mod):
    mutate_function(mod, 'ReplQueue.put', lambda fn: replace_compare(fn, lambda n: True, ast.GtE, ast.Gt, 0))


def _mut_dict_pop_ignores_default(mod):
    def tr(fn):
        cnt = 0
        for n in ast.walk(fn):
            if isinstance(n, ast.Call) and isinstance(n.func, ast.Attribute) and n.func.attr == 'pop':
                n.args = n.args[:1] + [ast.Constant(value=None)]
                cnt += 1
        return cnt
    mutate_function(mod, 'ReplDict.pop', tr)


def _mut_pq_get_pop(mod):
    def tr(fn):
        cnt = 0
        for n in ast.walk(fn):
            if isinstance(n, ast.Return) and isinstance(n.value, ast.Call) and isinstance(n.value.func, ast.Attribute) and n.value.func.attr == 'heappop':
                n.value = ast.parse('self.__data.pop()').body[0].value
                cnt += 1
        return cnt
    mutate_function(mod, 'ReplPriorityQueue.get', tr)


UNITS['bat.ReplQueue.put'].canaries = [('put-gt', _mut_put_gt, ['ReplQueue.put.same-builtin-operation-with-same-arguments'])]
UNITS['bat.ReplDict.pop'].canaries = [('pop-ignores-default', _mut_dict_pop_ignores_default, ['ReplDict.pop.same-builtin-operation-with-same-arguments'])]
UNITS['bat.ReplPriorityQueue.get'].canaries = [('get-pops-tail', _mut_pq_get_pop, ['ReplPriorityQueue.get.same-builtin-operation-with-same-arguments'])]


# ------------------------------------------------------------------ ReplCounter: plain integer arithmetic
def run_counter(ctx, meth):
    mod = source.load(BAT)
    fn, ci = mod.find('ReplCounter.%s' % meth)
    if fn is None:
        raise Undecided('ReplCounter.%s not found' % meth)
    c0 = FreshInt('counter')
    x = FreshInt('value')
    ctx.track('counter', c0)
    ctx.track('value', x)
    obj = ctx.alloc(PObj('ReplCounter', {'_ReplCounter__counter': c0, '_syncObj': None}))
    I = Interp(ctx)
    args = [] if meth in ('inc', 'get') else [x]
    try:
        ret = I.call_funcdef(fn, mod, 'ReplCounter', obj, args, {}, None, 'ReplCounter.%s' % meth)
    except PyExc as e:
        ctx.prove(False, 'C15:ReplCounter.%s.no-error' % meth, info=e.typ)
        return
    want = {'set': x, 'add': c0 + x, 'sub': c0 - x, 'inc': c0 + 1, 'get': c0}[meth]
    c1 = ctx.cell(obj).fields['_ReplCounter__counter']
    ctx.prove(Eq(c1, want), 'C15:ReplCounter.%s.value-as-int-arithmetic' % meth)
    ctx.prove(Eq(ret, want), 'C15:ReplCounter.%s.returns-new-value' % meth)


for _m in ('set', 'add', 'sub', 'inc', 'get'):
    Unit(name='bat.ReplCounter.%s' % _m, relpath=BAT, qual=['ReplCounter.%s' % _m], run=run_counter, props=['C15'], cases=[dict(meth=_m)],
         doc='ReplCounter.%s is the int operation' % _m)
UNITS['bat.ReplCounter.sub'].canaries = [('sub-adds', lambda mod: mutate_function(mod, 'ReplCounter.sub', lambda fn: _flip_sub(fn)), ['ReplCounter.sub.value-as-int-arithmetic'])]


def _flip_sub(fn):
    cnt = 0
    for n in ast.walk(fn):
        if isinstance(n, ast.AugAssign) and isinstance(n.op, ast.Sub):
            n.op = ast.Add()
            cnt += 1
    return cnt


def public_methods_covered():
    """every public method of the six classes has a contract (counted from the AST at run time)"""
    mod = source.load(BAT)
    missing = []
    have = set(k.split('.', 1)[1] for k in UNITS if k.startswith('bat.'))
    for cls in ('ReplCounter', 'ReplList', 'ReplDict', 'ReplSet', 'ReplQueue', 'ReplPriorityQueue'):
        for m in mod.classes[cls].methods:
            if m == '__init__':
                continue
            if '%s.%s' % (cls, m) not in have:
                missing.append('%s.%s' % (cls, m))
    return missing


ALL_UNITS = sorted(k for k in UNITS if k.startswith('bat.'))


# ------------------------------------------------------------------------------------------------ battery state is part of every dump
class SuperProxy(object):
    """super(Cls, self): method lookup starts at the bases of Cls"""

    def __init__(self, cls, selfref, mods):
        self.cls, self.selfref, self.mods = cls, selfref, mods

    def call_method(self, I, name, args, kw):
        ci = None
        for m in self.mods:
            if self.cls in m.classes:
                ci = m.classes[self.cls]
        if ci is None:
            raise Undecided('super(): class %s not found' % self.cls)
        for b in ci.bases:
            for m in self.mods:
                cb = m.classes.get(b)
                seen = 0
                while cb is not None and seen < 8:
                    seen += 1
                    if name in cb.methods:
                        return I.call_funcdef(cb.methods[name], cb.module, cb.name, self.selfref, list(args), dict(kw), None, '%s.%s' % (cb.name, name))
                    nb = None
                    for b2 in cb.bases:
                        for m2 in self.mods:
                            if b2 in m2.classes:
                                nb = m2.classes[b2]
                    cb = nb
        if name == '__init__':
            return None      # object.__init__
        raise Undecided('super().%s not found' % name)


STATEFUL = ['ReplCounter', 'ReplList', 'ReplDict', 'ReplSet', 'ReplQueue', 'ReplPriorityQueue', '_ReplLockManagerImpl']


@unit(name='bat.init-state-serialized', relpath=BAT, qual=['%s.__init__' % c for c in STATEFUL] + [], props=['C15', 'C09', 'C16'],
      cases=[dict(cls=c) for c in STATEFUL],
      doc='every attribute a battery creates in its __init__ is part of its snapshot: after the real __init__ (including the inherited '
          'SyncObjConsumer.__init__ that records which attributes are bookkeeping), _serialize() returns exactly the attributes the class '
          'itself assigns - so a replica that gets its state from a dump (restart, install-snapshot) has the same container as the others')
def bat_init_serialized(ctx, cls):
    bmod = source.load(BAT)
    smod = source.load('pysyncobj/syncobj.py')
    mods = [bmod, smod]
    fn, ci = bmod.find('%s.__init__' % cls)
    if fn is None:
        raise Undecided('%s.__init__ not found' % cls)
    obj = ctx.alloc(PObj(cls, {}))

    def _super(I, a, k):
        if len(a) == 2 and isinstance(a[0], source.ClassInfo):
            return SuperProxy(a[0].name, a[1], mods)
        if not a:
            return SuperProxy(cls, obj, mods)
        raise Undecided('super%r' % (a,))
    ext = {'super': _super, 'collections.deque': lambda I, a, k: I.ctx.alloc(PList([])), 'int': lambda I, a, k: 0 if not a else a[0]}
    I = Interp(ctx, externals=ext, inline={'iteritems'}, hooks={'modules': ['pysyncobj/syncobj.py']})
    I.cur_mod = bmod
    nargs = len(fn.args.args) - 1 - len(fn.args.defaults)
    args = [Opaque('uservalue', FreshInt('ctorArg%d' % i)) for i in range(nargs)]
    try:
        I.call_funcdef(fn, bmod, cls, obj, args, {}, None, '%s.__init__' % cls)
        outcome = 'ok'
    except PyExc as e:
        outcome = e.typ
    ctx.prove(outcome == 'ok', 'C15+C09:bat.init.no-exception', info=outcome)
    if outcome != 'ok':
        return
    own = sorted(set('_%s%s' % (cls if cls.startswith('_') else '_' + cls, t.attr) if t.attr.startswith('__') else t.attr
                     for n in ast.walk(fn) if isinstance(n, ast.Assign) for t in n.targets
                     if isinstance(t, ast.Attribute) and isinstance(t.value, ast.Name) and t.value.id == 'self'))
    own = [o.replace('__' + cls.lstrip('_') + '__', '_' + cls.lstrip('_') + '__') for o in own]
    fields = ctx.cell(obj).fields
    ctx.prove(len(own) >= 1 and all(o in fields for o in own), 'C15+C09:bat.init.creates-its-state-attributes', info='%r vs %r' % (own, sorted(fields)))
    sfn, sci = smod.find('SyncObjConsumer._serialize')
    d = I.call_funcdef(sfn, smod, 'SyncObjConsumer', obj, [], {}, None, 'SyncObjConsumer._serialize')
    dc = ctx.cell(d) if isinstance(d, Ref) else d
    keys = sorted(dc.items) if isinstance(dc, PDict) else None
    ctx.prove(keys is not None and keys == sorted(own), 'C15+C09+C16:bat.init.state-attributes-are-what-a-snapshot-holds', info='serialized %r, state %r' % (keys, own))
