"""C13/C14: the pollers (pysyncobj/poller.py) - subscription bookkeeping and the dispatch loop of poll().

O13.6: poll() hands every ready descriptor that is still subscribed to its current callback, exactly once, with the event mask select/poll
reported (READ / WRITE / ERROR, POLLHUP counted as ERROR); a descriptor that an earlier callback of the same round unsubscribed is skipped;
no exception of the dispatch itself escapes the event loop.  The dispatch loop body is run for an arbitrary descriptor (any int) from an
arbitrary subscription table; the OS call (select.select / poll.poll) is trusted to return subscribed descriptors (T-SELECT)."""
import ast
import z3
from pyvc.values import *   # noqa
from pyvc.harness import unit, mutate_function
from pyvc.ctx import Undecided
from pyvc.interp import Interp, PyExc, Frame
from pyvc import source

PMOD = 'pysyncobj/poller.py'
SP = lambda n: '_SelectPoller__' + n
PP = lambda n: '_PollPoller__' + n
READ, WRITE, ERROR = 1, 2, 4
POLLIN, POLLPRI, POLLOUT, POLLERR, POLLHUP = 1, 2, 4, 8, 16
SELECT_CONSTS = {'select.POLLIN': POLLIN, 'select.POLLOUT': POLLOUT, 'select.POLLERR': POLLERR, 'select.POLLHUP': POLLHUP, 'select.POLLPRI': POLLPRI}


def cb_hook(I, f, args, kw):
    I.ctx.ghost['cb'] = I.ctx.glist('cb') + [(f.tag, tuple(args))]
    return None


def _consts(I):
    from pyvc import interp as _i
    for k, v in SELECT_CONSTS.items():
        _i.CONSTANTS.setdefault(k, v)


def _loop_of(mod, qual):
    fn, ci = mod.find(qual)
    if fn is None:
        raise Undecided('%s not found' % qual)
    loops = [s for s in fn.body if isinstance(s, ast.For)]
    if len(loops) != 1:
        raise Undecided('%s: the dispatch loop was not located' % qual)
    return fn, loops[0]


@unit(name='poller.select.dispatch', relpath=PMOD, qual=['SelectPoller.poll'], props=['C13', 'C14'],
      kind='body of the dispatch loop of SelectPoller.poll for an arbitrary ready descriptor, from an arbitrary subscription table (the loop '
           'invariant is just the well-formedness of the table: callbacks of earlier descriptors may have (un)subscribed anything)',
      doc='O13.6 (select): the callback registered for the descriptor is called exactly once with READ/WRITE/ERROR set exactly as the descriptor is in '
          'the three ready lists; a descriptor whose subscription an earlier callback of this round removed is skipped; the dispatch raises nothing',
      trusted=['T-SELECT: select.select returns sub-lists of the descriptors passed in'])
def select_dispatch(ctx):
    mod = source.load(PMOD)
    fn, loop = _loop_of(mod, 'SelectPoller.poll')
    d = FreshInt('descr')
    inr, inw, inx = FreshBool('inRlist'), FreshBool('inWlist'), FreshBool('inXlist')
    ctx.assume(Or(inr, inw, inx))                       # the descriptor is in allDescrs
    still = FreshBool('stillSubscribed')                # False: an earlier callback of this round unsubscribed it
    ctx.track('descr', d)
    cbv = Callable_('cb:descr')
    other = FreshInt('otherDescr')
    ctx.assume(other != d)
    table = ctx.alloc(KVDict([(still, d, cbv), (FreshBool('otherSubscribed'), other, Callable_('cb:other'))]))
    obj = ctx.alloc(PObj('SelectPoller', {SP('descrToCallbacks'): table, SP('descrsRead'): ctx.alloc(GSet([])), SP('descrsWrite'): ctx.alloc(GSet([])),
                                          SP('descrsError'): ctx.alloc(GSet([]))}))
    I = Interp(ctx, hooks={'call:cb': cb_hook})
    fr = Frame(mod, 'SelectPoller', 'SelectPoller.poll')
    fr.locals.update({'self': obj})
    # the three ready sets are whatever locals the loop body tests the descriptor against; which is which is read off the event bit that
    # the test guards (`if descr in <set>: event |= POLL_EVENT_TYPE.<KIND>`), not off the names
    kinds = {}
    for st_ in loop.body:
        if isinstance(st_, ast.If) and isinstance(st_.test, ast.Compare) and len(st_.test.ops) == 1 and isinstance(st_.test.ops[0], ast.In) \
                and isinstance(st_.test.comparators[0], ast.Name):
            bits = [x.attr for x in ast.walk(st_) if isinstance(x, ast.Attribute) and x.attr in ('READ', 'WRITE', 'ERROR')]
            if len(bits) == 1:
                kinds[bits[0]] = st_.test.comparators[0].id
    if sorted(kinds) != ['ERROR', 'READ', 'WRITE'] or len(set(kinds.values())) != 3:
        raise Undecided('the ready-set tests of the dispatch loop of SelectPoller.poll were not recognised')
    for kind_, guard in (('READ', inr), ('WRITE', inw), ('ERROR', inx)):
        fr.locals[kinds[kind_]] = ctx.alloc(GSet([(guard, d, None)]))
    I.assign(loop.target, d, fr)
    try:
        I.exec_block(loop.body, fr)
        outcome = 'ok'
    except PyExc as e:
        outcome = e.typ
    except Exception as e:
        if type(e).__name__ in ('_Continue',):
            outcome = 'ok'
        else:
            raise
    ctx.prove(outcome == 'ok', 'C13+C14:O13.6.select.dispatch-raises-nothing', info=outcome)
    if outcome != 'ok':
        return
    calls = ctx.glist('cb')
    mine = [a for t, a in calls if t == 'cb:descr']
    ctx.prove(not any(t == 'cb:other' for t, a in calls), 'C13:O13.6.select.only-the-descriptor\'s-own-callback')
    ctx.prove(Iff(still, True) if mine else Not(still), 'C13+C14:O13.6.select.called-iff-still-subscribed')
    ctx.prove(len(mine) <= 1, 'C13:O13.6.select.called-at-most-once')
    for a in mine:
        want = B2I(inr) * READ + B2I(inw) * WRITE + B2I(inx) * ERROR
        ctx.prove(And(Eq(a[0], d), Eq(a[1], want)), 'C13+C14:O13.6.select.event-mask-is-what-select-reported', info=repr(a))


@unit(name='poller.select.subscribe', relpath=PMOD, qual=['SelectPoller.subscribe', 'SelectPoller.unsubscribe'], props=['C13', 'C14'],
      cases=[dict(mask=m) for m in range(8)],
      doc='O13.6 (select bookkeeping): subscribe(d, cb, mask) leaves d in the read / write / error sets exactly as the mask says (whatever it was '
          'subscribed for before) with cb as its callback; unsubscribe(d) removes it everywhere; other descriptors are untouched')
def select_subscribe(ctx, mask):
    mod = source.load(PMOD)
    d, other = FreshInt('descr'), FreshInt('otherDescr')
    ctx.assume(other != d)
    pre = [FreshBool('wasIn%s' % s) for s in 'RWX']
    opre = [FreshBool('otherIn%s' % s) for s in 'RWX']
    sets = [ctx.alloc(GSet([(pre[i], d, None), (opre[i], other, None)])) for i in range(3)]
    ocb = Callable_('cb:other')
    table = ctx.alloc(KVDict([(FreshBool('wasSubscribed'), d, Callable_('cb:old')), (FreshBool('otherSubscribed'), other, ocb)]))
    obj = ctx.alloc(PObj('SelectPoller', {SP('descrToCallbacks'): table, SP('descrsRead'): sets[0], SP('descrsWrite'): sets[1], SP('descrsError'): sets[2]}))
    I = Interp(ctx, inline={'SelectPoller.unsubscribe'}, hooks={'call:cb': cb_hook})
    I.cur_mod = mod
    new = Callable_('cb:new')

    def member(ref, key):
        c = ctx.cell(ref)
        hits = [p for p, k, v in c.entries if (k is key or (is_sym(k) and is_sym(key) and z3.eq(k, key)))]
        return Or(*hits) if hits else False

    def run(meth, args):
        fn, ci = mod.find('SelectPoller.%s' % meth)
        try:
            I.call_funcdef(fn, mod, 'SelectPoller', obj, args, {}, None, 'SelectPoller.%s' % meth)
            return 'ok'
        except PyExc as e:
            return e.typ
    out = run('subscribe', [d, new, mask])
    ctx.prove(out == 'ok', 'C13:O13.6.select.subscribe-raises-nothing', info=out)
    if out != 'ok':
        return
    f = ctx.cell(obj).fields
    for i, (bit, nm) in enumerate(((READ, 'Read'), (WRITE, 'Write'), (ERROR, 'Error'))):
        ctx.prove(Iff(member(f[SP('descrs' + nm)], d), bool(mask & bit)), 'C13+C14:O13.6.select.subscribed-sets-follow-the-mask', info=nm)
        ctx.prove(Iff(member(f[SP('descrs' + nm)], other), opre[i]), 'C13:O13.6.select.other-descriptors-untouched')
    ents = ctx.cell(f[SP('descrToCallbacks')]).entries
    mine = [(p, v) for p, k, v in ents if k is d]
    ctx.prove(Or(*[And(p, v is new) for p, v in mine]) if mine else False, 'C13+C14:O13.6.select.callback-registered')
    ctx.prove(And(*[Implies(p, v is new) for p, v in mine]), 'C13:O13.6.select.old-callback-replaced')
    out = run('unsubscribe', [d])
    ctx.prove(out == 'ok', 'C13:O13.6.select.unsubscribe-raises-nothing', info=out)
    if out != 'ok':
        return
    f = ctx.cell(obj).fields
    for i, nm in enumerate(('Read', 'Write', 'Error')):
        ctx.prove(Not(member(f[SP('descrs' + nm)], d)), 'C13+C14:O13.6.select.unsubscribe-removes-the-descriptor')
        ctx.prove(Iff(member(f[SP('descrs' + nm)], other), opre[i]), 'C13:O13.6.select.other-descriptors-untouched')
    ents = ctx.cell(f[SP('descrToCallbacks')]).entries
    ctx.prove(Not(Or(*[p for p, k, v in ents if k is d])) if any(k is d for p, k, v in ents) else True, 'C13+C14:O13.6.select.unsubscribe-forgets-the-callback')
    # unsubscribing twice (disconnect of an already disconnected connection) is harmless
    out = run('unsubscribe', [d])
    ctx.prove(out == 'ok', 'C13:O13.6.select.unsubscribe-is-idempotent', info=out)


@unit(name='poller.poll.dispatch', relpath=PMOD, qual=['PollPoller.poll'], props=['C13', 'C14'],
      cases=[dict(bits=b) for b in range(32)],
      kind='body of the dispatch loop of PollPoller.poll for an arbitrary (descriptor, event) pair; the event bits POLLIN/POLLPRI/POLLOUT/POLLERR/POLLHUP '
           'are enumerated (32 cases, exhaustive for these bits)',
      doc='O13.6 (poll): the callback of the descriptor is called exactly once with READ iff POLLIN, WRITE iff POLLOUT, ERROR iff POLLERR or POLLHUP; '
          'the dispatch raises nothing for a descriptor that has been subscribed',
      trusted=['T-SELECT: poll.poll returns registered descriptors'])
def poll_dispatch(ctx, bits):
    mod = source.load(PMOD)
    fn, loop = _loop_of(mod, 'PollPoller.poll')
    _consts(None)
    d = FreshInt('descr')
    cbv = Callable_('cb:descr')
    table = ctx.alloc(KVDict([(True, d, cbv)]))
    obj = ctx.alloc(PObj('PollPoller', {PP('descrToCallbacks'): table, PP('poll'): ctx.alloc(PObj('PollObject', {}))}))
    I = Interp(ctx, hooks={'call:cb': cb_hook})
    fr = Frame(mod, 'PollPoller', 'PollPoller.poll')
    fr.locals.update({'self': obj})
    I.assign(loop.target, (d, bits), fr)
    try:
        I.exec_block(loop.body, fr)
        outcome = 'ok'
    except PyExc as e:
        outcome = e.typ
    ctx.prove(outcome == 'ok', 'C13+C14:O13.6.poll.dispatch-raises-nothing', info=outcome)
    if outcome != 'ok':
        return
    mine = [a for t, a in ctx.glist('cb') if t == 'cb:descr']
    ctx.prove(len(mine) == 1, 'C13+C14:O13.6.poll.called-exactly-once')
    want = (READ if bits & POLLIN else 0) | (WRITE if bits & POLLOUT else 0) | (ERROR if bits & (POLLERR | POLLHUP) else 0)
    for a in mine:
        ctx.prove(And(Eq(a[0], d), Eq(a[1], want)), 'C13+C14:O13.6.poll.event-mask-maps-IN-OUT-ERR-HUP', info='%r for poll bits %d' % (a, bits))


@unit(name='poller.poll.subscribe', relpath=PMOD, qual=['PollPoller.subscribe', 'PollPoller.unsubscribe'], props=['C13', 'C14'],
      cases=[dict(mask=m) for m in range(8)],
      doc='O13.6 (poll bookkeeping): subscribe registers the descriptor with POLLIN / POLLOUT / POLLERR exactly as the mask says and records the '
          'callback; unsubscribe unregisters it and tolerates a descriptor that is not registered')
def poll_subscribe(ctx, mask):
    mod = source.load(PMOD)
    _consts(None)
    d = FreshInt('descr')
    ops = []
    registered = FreshBool('wasRegistered')

    def _reg(I, s, a, k):
        ops.append(('register', a[0], a[1]))

    def _unreg(I, s, a, k):
        if not (ctx.decide(registered, 'descriptor-registered') if is_sym(registered) else registered):
            I.raise_('KeyError')
        ops.append(('unregister', a[0]))
    table = ctx.alloc(KVDict([(FreshBool('hadCallback'), d, Callable_('cb:old'))]))
    obj = ctx.alloc(PObj('PollPoller', {PP('descrToCallbacks'): table, PP('poll'): ctx.alloc(PObj('PollObject', {}))}))
    I = Interp(ctx, registry={'PollObject.register': _reg, 'PollObject.unregister': _unreg}, hooks={'call:cb': cb_hook})
    I.cur_mod = mod
    new = Callable_('cb:new')

    def run(meth, args):
        fn, ci = mod.find('PollPoller.%s' % meth)
        try:
            I.call_funcdef(fn, mod, 'PollPoller', obj, args, {}, None, 'PollPoller.%s' % meth)
            return 'ok'
        except PyExc as e:
            return e.typ
    out = run('subscribe', [d, new, mask])
    ctx.prove(out == 'ok', 'C13:O13.6.poll.subscribe-raises-nothing', info=out)
    if out != 'ok':
        return
    regs = [o for o in ops if o[0] == 'register']
    want = (POLLIN if mask & READ else 0) | (POLLOUT if mask & WRITE else 0) | (POLLERR if mask & ERROR else 0)
    ctx.prove(len(regs) == 1 and Eq(regs[0][1], d) and regs[0][2] == want, 'C13+C14:O13.6.poll.registered-with-the-mask', info=repr(regs))
    ents = ctx.cell(ctx.cell(obj).fields[PP('descrToCallbacks')]).entries
    mine = [(p, v) for p, k, v in ents if k is d]
    ctx.prove(Or(*[And(p, v is new) for p, v in mine]) if mine else False, 'C13+C14:O13.6.poll.callback-registered')
    ctx.prove(And(*[Implies(p, v is new) for p, v in mine]), 'C13:O13.6.poll.old-callback-replaced')
    del ops[:]
    out = run('unsubscribe', [d])
    ctx.prove(out == 'ok', 'C13+C14:O13.6.poll.unsubscribe-raises-nothing', info=out)


@unit(name='poller.init', relpath=PMOD, qual=['SelectPoller.__init__', 'createPoller'], props=['C13', 'C14'],
      doc='a new SelectPoller has nothing subscribed; createPoller returns a poller for "auto", "poll" and "select" and refuses anything else')
def poller_init(ctx):
    mod = source.load(PMOD)
    fn, ci = mod.find('SelectPoller.__init__')
    obj = ctx.alloc(PObj('SelectPoller', {}))
    I = Interp(ctx)
    I.cur_mod = mod
    I.call_funcdef(fn, mod, 'SelectPoller', obj, [], {}, None, 'SelectPoller.__init__')
    f = ctx.cell(obj).fields
    for n in ('descrsRead', 'descrsWrite', 'descrsError', 'descrToCallbacks'):
        c = ctx.cell(f[SP(n)]) if isinstance(f.get(SP(n)), Ref) else None
        ctx.prove(c is not None and len(getattr(c, 'entries', None) or getattr(c, 'items', None) or []) == 0, 'C13+C14:init.select-poller-starts-empty', info=n)
    made = []
    hooks = {'new:PollPoller': lambda I_, a, k: made.append('poll') or 'poll', 'new:SelectPoller': lambda I_, a, k: made.append('select') or 'select'}
    fn2, _ = mod.find('createPoller')
    has_poll = FreshBool('selectHasPoll')
    for kind, want in (('auto', None), ('poll', 'poll'), ('select', 'select')):
        I2 = Interp(ctx, externals={'hasattr': lambda I_, a, k: has_poll}, hooks=hooks)
        I2.cur_mod = mod
        r = I2.call_funcdef(fn2, mod, None, None, [kind], {}, None, 'createPoller')
        ctx.prove(r in ('poll', 'select') and (want is None or r == want), 'C13+C14:init.createPoller-returns-the-requested-poller', info='%s -> %r' % (kind, r))
    I3 = Interp(ctx, hooks=hooks)
    I3.cur_mod = mod
    try:
        I3.call_funcdef(fn2, mod, None, None, ['epoll'], {}, None, 'createPoller')
        out = 'ok'
    except PyExc as e:
        out = e.typ
    ctx.prove(out != 'ok', 'C13:init.createPoller-refuses-unknown-types', info=out)
