"""property id -> units / lemmas / assumptions"""
PROPS = {}
LEMMAS = {}
NOT_BUILT = {}

SO_MODS = ['contracts.so_tick', 'contracts.so_msg', 'contracts.so_apply', 'contracts.so_submit', 'contracts.so_member', 'contracts.so_send', 'contracts.so_dump']

PROPS['C20'] = dict(
    modules=SO_MODS, units=['tick.leader', 'tick.not-leader', 'hasQuorum'], level='proof',
    assumptions=['A-CLOCK: successive clock reads are non-decreasing', 'A-REAL: floats treated as reals'],
    trusted=['T-TRANSPORT'],
    level_text='Per-function contracts proved for all inputs on the real AST: the leader block of _onTick keeps the leader role only if, at the clock value it reads, more than half of the voters (itself included) answered within leaderFallbackTimeout; otherwise it becomes FOLLOWER with no leader; hasQuorum is exactly the majority-of-connected-voters formula. Unbounded in times, indices and log length; node universe bounded by the property quantifier.',
    level_note='The bound "fallback timeout + one tick period" is stated, not proved (the tick period is the caller\'s). Floats are reals (A-REAL), the clock is monotone (A-CLOCK). "Never acknowledges SUCCESS while cut off" rests on R9/R10 (C04 units) plus the cross-node argument A-RAFT, which is assumed.',
)

PROPS['C03'] = dict(
    modules=SO_MODS, units=['msg.request_vote', 'msg.response_vote', 'tick.leader', 'tick.election'], level='proof',
    assumptions=[], trusted=['T-TRANSPORT'], level_text='wip', level_note='wip')

PROPS['C04'] = dict(
    modules=SO_MODS, units=['tick.leader', 'tick.not-leader', 'msg.next_node_idx', 'msg.append_entries', 'applyLogEntries'], level='proof',
    assumptions=[], trusted=['T-TRANSPORT'], level_text='wip', level_note='wip')

PROPS['C01'] = dict(
    modules=SO_MODS, units=['msg.append_entries'], level='proof',
    assumptions=[], trusted=['T-TRANSPORT'], level_text='wip', level_note='wip')

PROPS['C12'] = dict(
    modules=SO_MODS, units=['applyLogEntries', 'doApplyCommand'], level='proof',
    assumptions=[], trusted=['T-TRANSPORT'], level_text='wip', level_note='wip')

PROPS['C17'] = dict(
    modules=SO_MODS, units=['applyLogEntries', 'doApplyCommand', 'loadDumpFile', 'setCodeVersion'], level='proof',
    assumptions=[], trusted=['T-PICKLE'], level_text='wip', level_note='wip')

PROPS['C02'] = dict(
    modules=SO_MODS, units=['FastQueue', 'applyCommand', 'checkCommandsToApply', 'msg.apply_command', 'msg.apply_command_response', 'applyLogEntries', 'tick.election', 'msg.append_entries'], level='proof',
    assumptions=[], trusted=['T-PICKLE'], level_text='wip', level_note='wip')

PROPS['C10'] = dict(
    modules=SO_MODS, units=['changeCluster', 'doChangeCluster', 'checkCommandsToApply.membership'], level='proof',
    assumptions=[], trusted=['T-PICKLE'], level_text='wip', level_note='wip')

PROPS['C11'] = dict(
    modules=SO_MODS, units=['sendAppendEntries'], level='proof',
    assumptions=[], trusted=['T-PICKLE'], level_text='wip', level_note='wip')

PROPS['C09'] = dict(
    modules=SO_MODS, units=['loadDumpFile', 'sendAppendEntries'], level='proof',
    assumptions=[], trusted=['T-PICKLE'], level_text='wip', level_note='wip')
PROPS['C06'] = dict(
    modules=SO_MODS, units=['loadDumpFile', 'msg.append_entries'], level='proof',
    assumptions=[], trusted=['T-PICKLE'], level_text='wip', level_note='wip')
