"""property id -> units / lemmas / assumptions / level texts (MANIFEST.json is generated from this)"""
PROPS = {}
LEMMAS = {}
NOT_BUILT = {}

SO_MODS = ['contracts.so_tick', 'contracts.so_msg', 'contracts.so_apply', 'contracts.so_submit', 'contracts.so_member',
           'contracts.so_send', 'contracts.so_dump', 'contracts.so_wrapper']

ALL_MODULES = SO_MODS + ['contracts.so_wrapper', 'contracts.journal_units', 'contracts.tcp_units', 'contracts.ser_units', 'contracts.tr_units',
                         'contracts.bat_lock', 'contracts.bat_containers', 'contracts.node_units', 'contracts.so_version', 'contracts.poller_units']

# Dependency cones between the properties: every clause that counts for a property on the right also counts for the property on the left, because
# the left property quantifies over all schedules and is broken, in some schedule, whenever the right one is:
#   C01 (same command sequence everywhere)  <- election safety (C03), commit safety (C04), membership safety (C10)
#   C04 (committed = majority-backed, final) <- election safety (C03), membership safety (C10)
#   C06 (journaled restart forgets nothing)  <- the file journal is the list and is kill-safe (C08)
#   C11 (arguments arrive intact, nothing raises while sending / receiving) <- framing (C13)
#   C15 (batteries behave like the builtins, also on a replica restored from a snapshot or after a version switch) <- code versions (C17):
#       battery methods are versioned (`ReplList.__setitem__` exists from version 1), so a wrong name table breaks them
DEPENDS = {'C01': ['C03', 'C04', 'C10'], 'C04': ['C03', 'C10'], 'C06': ['C08'], 'C11': ['C13'], 'C15': ['C17']}


A_RAFT = ('A-RAFT: the local rules proved here (R1-R11 of DESIGN §3.3) imply the cluster-wide statement by the published Raft '
          'argument (log matching, leader completeness, state-machine safety); that composition over several nodes and '
          'schedules is assumed, not proved')
A_COMMON = ['A-CLOCK: successive clock reads are non-decreasing', 'A-REAL: floats are treated as reals',
            'universe: node universe of PYVC_UNIVERSE other nodes (4 quick / 5 thorough), each voter/observer/connected by symbolic '
            'membership bits; terms, indices, log length and times are unbounded',
            'py3-only: Python-2 branches are not verified', 'X1: logger calls dropped']
T_SO = ['T-TRANSPORT: transport.send records (node, message) in a ghost outbox, returns a bool, may only shrink connectedNodes',
        'T-PICKLE: loads(dumps(x)) == x; a pickled entry is longer than its command',
        'LogCell: the journal object is used through the list operations of MemoryJournal (C08 relates FileJournal to it); '
        'index contiguity I1 is an obligation at every add']
TECH = 'contract-based deductive verification: VCs generated from the real Python AST by pyvc, discharged by z3 (cvc5/z3-4.8 second opinion)'


def P(pid, units, text, note, lemmas=(), modules=SO_MODS, assumptions=(), trusted=T_SO, level='proof', bounded=()):
    PROPS[pid] = dict(modules=list(modules), units=list(units), lemmas=list(lemmas), level=level, level_text=text, level_note=note,
                      assumptions=list(assumptions) + A_COMMON, trusted=list(trusted), technique=TECH, bounded=list(bounded),
                      drops=['X1 logger calls', 'X2 py2 branches', 'X3 clock/random as fresh symbolic values', 'X7 regions of _onTick by statement'])


P('C01', ['tick.orchestration', 'getEntries', 'msg.append_entries', 'applyLogEntries', 'doApplyCommand', 'sendAppendEntries', 'tick.leader', 'msg.next_node_idx',
          'loadDumpFile', 'checkCommandsToApply'],
  'Per-function contracts, proved for all inputs on the real AST, for every mechanism the property is anchored in: follower accepts '
  'append_entries only on a matching predecessor and removes an entry only on conflict (R6,R7), commits only the verified prefix '
  '(R8), the leader commits only majority-matched current-term entries (R9), the apply loop executes exactly log[applied+1..] in '
  'order with the decoded method (R11,O1.2,O1.3), the send loop emits true predecessors and contiguous batches (G_AE), snapshot '
  'install/load sets journal and applied index to the dump position (O1.5).',
  'The step from these local rules to "no two nodes apply different commands at one position" is ' + A_RAFT + '. A change that keeps '
  'every local rule but breaks the protocol in a new way is outside this technique. Deterministic replicated methods assumed (A-USERCODE).',
  assumptions=[A_RAFT, 'R_AE: entries of a message are contiguous from prevLogIdx+1 (proved at the sender as G_AE)',
               'A-DUMP: the two entries of a dump are contiguous', 'A-USERCODE', 'A-CMD: log commands are non-empty',
               'A-PROTO-4: nextIndex <= first journal index only for a compacted journal'],
  lemmas=['FRAME-C01', 'CALLERS-C01'])

P('C02', ['replicated.newFunc', 'FastQueue', 'applyCommand', 'checkCommandsToApply', 'msg.apply_command', 'msg.apply_command_response', 'applyLogEntries',
          'tick.election', 'msg.append_entries'],
  'The FAIL_REASON table of the statement as contracts on the real functions: a submission is enqueued xor QUEUE_FULL once (O2.2); each '
  'dequeued item gets exactly one disposition - appended by the leader with a subscription / success reply naming (index, term), '
  'REQUEST_DENIED, forwarded once with a fresh reply slot, NOT_LEADER, MISSING_LEADER - and the journal changes only in the first '
  '(O2.3); forwarded replies move the callback to the commit subscribers or fire the error once (O2.5); LEADER_CHANGED fires every '
  'pending forwarded callback once (O2.6); at apply time every subscriber of the index fires exactly once, SUCCESS with this '
  'execution\'s result iff the terms agree, else DISCARDED (O2.4).',
  '"SUCCESS => the command occupies one position cluster-wide and is never undone" and "error => applied on no node" beyond the local '
  'journal rest on ' + A_RAFT + '. The closure of the `replicated` decorator is under contract (unit replicated.newFunc; threading.Event trusted); `replicated_sync` only sets defaults and delegates. '
  'Thread interleavings are C19 (not applicable).',
  lemmas=['FRAME-C02'], assumptions=[A_RAFT, 'A-PROTO-3: a success reply for index i reaches the submitter before it applies i', 'A-USERCODE'])

P('C03', ['msg.request_vote', 'msg.response_vote', 'tick.election', 'tick.leader', 'msg.append_entries'],
  'R1-R5 proved on the real handlers and tick: term never decreases and the vote changes only from None or on a new term; a vote is '
  'granted only for the current term, once, to a candidate with an up-to-date log; votes are counted only by a candidate of that '
  'term; leader only with votes > (n+1)/2; on election nextIndex/matchIndex are reset and a no-op of the own term is appended; a '
  'leader never rewrites its log. Lemma L-ELECT (two majorities of write-once votes intersect) is discharged for N=1..5.',
  'Leader completeness (second sentence of the statement) rests on R2 (up-to-date check) + R9 + ' + A_RAFT + '. Votes are not '
  'de-duplicated per voter in the code; with at-most-once delivery of each response (T-TRANSPORT) this is sound, and the assumption is listed.',
  lemmas=['L-ELECT', 'X-ENGINE', 'FRAME-C03', 'CALLERS-C03'], assumptions=[A_RAFT, 'T-TRANSPORT: each response_vote is delivered at most once'])

P('C04', ['getEntries', 'tick.leader', 'tick.not-leader', 'msg.next_node_idx', 'msg.append_entries', 'applyLogEntries', 'loadDumpFile',
          'msg.response_vote', 'tick.election', 'doChangeCluster'],
  'R9 with its loop invariant (commit advances only to an entry matched by a majority of voters and of the current term), R10 '
  '(matchIndex only grows, only from a success reply), R6-R8 on the follower (no deletion without conflict, commit within the '
  'verified prefix, never lowered), monotone applied index, and a frame obligation: the set of functions that assign the commit or '
  'applied index is computed from the AST and every writer is under contract.',
  'Cross-node finality ("never differs on any node") is ' + A_RAFT + '.',
  lemmas=['FRAME-C04', 'X-ENGINE'], assumptions=[A_RAFT, 'R_AE'])

P('C06', ['tick.orchestration', 'init.startup', 'loadDumpFile', 'msg.append_entries', 'tryLogCompaction', 'serializer.serialize', 'serializer.checkSerializing',
          'serializer.setTransmissionData.file', 'ResizableFile.write', 'FileJournal.add', 'FileJournal.clear', 'FileJournal.deleteEntriesFrom',
          'FileJournal.deleteEntriesTo', 'FileJournal.reopen'],
  'Start-up/compaction side of durability as contracts: the follower acknowledges only after the journal append (O6.1, ghost event '
  'order on the real handler); loading a dump on start-up keeps every journal entry after the dump position (O6.3).',
  'What the journal file holds after a kill is C08 (FileJournal contracts, crash conditions). The start-up region of __init__ is unit init.startup; '
  'journal-without-dump (D9) and the non-kill-safe head drop (D8) are known findings.',
  modules=SO_MODS + ['contracts.ser_units', 'contracts.journal_units'],
  assumptions=['T-RENAME, T-MMAP (via C08)', 'kill = process kill, not power loss'])

P('C10', ['changeCluster', 'doChangeCluster', 'checkCommandsToApply.membership', 'msg.append_entries.membership', 'loadDumpFile', 'doApplyCommand', 'msg.response_vote'],
  'Leader gate from the statement (accepted only after the own no-op is applied and with no unapplied membership entry, O10.1) under '
  'the bookkeeping invariant I9, whose preservation by the leader\'s append is proved; exact effect of applying/reversing a request on '
  'voters, nextIndex, matchIndex, lastResponse and the transport (O10.2); member set restored from a dump (O9.4).',
  'Follower-side apply-on-append / rollback-on-truncate loops (O10.3) are loop contracts in unit msg.append_entries.membership. Safety of single-server changes across nodes is ' + A_RAFT + ' extended to membership.',
  assumptions=[A_RAFT, 'I9 as quantified hypothesis', 'observers never carry member addresses (O14.1)'], lemmas=['FRAME-C10', 'CALLERS-C10'])

P('C11', ['getEntries', 'replicated.newFunc', 'sendAppendEntries', 'msg.append_entries', 'doApplyCommand', 'applyCommand', 'tick.leader',
          'ResizableFile.write', 'FileJournal.add', 'FileJournal.reopen'],
  'Batching (non-empty contiguous batch, O11.2), the big-entry chunk loop as a loop contract (first chunk start, finish exactly on the '
  'last chunk, each chunk the slice at its position, O11.3), follower reassembly (O11.4), decode/dispatch of the three command shapes '
  '(O11.1), and no exception escaping the send loop, the handler or the apply path (O11.5), for all sizes.',
  'Journal growth for big records: units ResizableFile.write / FileJournal.add (shared with C08). The argument packing inside the `replicated` decorator closure is unit replicated.newFunc; the frame '
  'introspection that installs the _vN copies is X4 (bounded stand-in of C17).',
  assumptions=['T-PICKLE: len(dumps(entry)) > len(command)', 'A-PROTO-4'], modules=SO_MODS + ['contracts.journal_units'])

P('C12', ['applyLogEntries', 'doApplyCommand'],
  'Apply-loop contract with exceptional postcondition: no exception may escape, applied advances, subscribers fire exactly once.',
  'Fails on the unchanged tree for a raising replicated method: recorded as known finding D6 (see known_findings.json); every other '
  'clause of the unit is proved.',
  assumptions=['A-USERCODE'])

P('C15', [], 'filled below', 'filled below', modules=['contracts.bat_containers'], trusted=['T-BUILTIN: the builtin operations named in the contracts behave as documented'])

P('C16', ['lock.acquire', 'lock.prolongate', 'lock.release', 'lock.isAcquired', 'lock.tryAcquire'],
  'Exact functional contracts of the four _ReplLockManagerImpl methods against spec functions written from the statement, the '
  'single-step rule S (holder changes only after expiry, only the holder can release), and lemma L-LOCK over the same spec functions: '
  'a lagging and a current replica never both report different holders at one instant (common clock).',
  'Lock table with 3 symbolic entries plus arbitrary probe key (keys symbolic). The client wrapper ReplLockManager.tryAcquire (late-acquire '
  'check) is unit lock.tryAcquire; its prolongation thread is not under contract. "Eventually obtainable" is proved in its safety form only.',
  lemmas=['L-LOCK', 'X-LOCKS'], modules=['contracts.bat_lock'], trusted=[],
  assumptions=['A-LOCKTIME: one client\'s timestamps are non-decreasing in log order; a command\'s timestamp is a clock reading taken before it is applied'])

P('C17', ['replicated.newFunc', 'applyLogEntries', 'doApplyCommand', 'loadDumpFile', 'setCodeVersion'],
  'VERSION entry semantics (O17.3), stop-at-unsupported-version in the apply loop (O17.5), request validation (O17.4) and name table '
  'rebuilt for the restored version after a dump load (O17.6), as contracts on the real functions.',
  'Method-id enumeration and the name-table construction use reflection (dir/getattr, X4): they are checked by a bounded native '
  'stand-in (bounded/c17_reflection.py, labelled bounded in the evidence and not counted among the proof obligations), not proved.',
  assumptions=['X4: reflection abstracted'], lemmas=['B-REFLECT', 'FRAME-VERSION-IN-DUMP', 'FRAME-C17', 'CALLERS-C17'],
  bounded=['O17.1/O17.2/O17.7 (id enumeration in __init__, name table in __onSetCodeVersion, dispatch through the wrapper): exhaustive native '
           'enumeration over 160 generated old/new class pairs (<=2 object methods + 1 consumer method, versions in {0,1,2,3}), bounded, not proved'])

P('C18', ['transport.incoming', 'transport.outgoingConnected', 'node-notifications', 'tick.election', 'msg.request_vote', 'msg.response_vote', 'tick.leader', 'hasQuorum', 'checkCommandsToApply', 'doChangeCluster'],
  'A node without own address never becomes candidate, never answers a vote request and stays FOLLOWER (O18.1); commit, fallback and '
  'has-quorum outcomes are independent of observers\' data (O18.2, proved by re-evaluating the rule with observers\' values havoc\'d); '
  'submissions through a non-leader are forwarded per C02.',
  '"Still converges to the same state" is liveness (C05-type) and not decided.',
  assumptions=[], lemmas=['FRAME-C18'], modules=SO_MODS + ['contracts.tr_units'])

P('C20', ['tick.leader', 'tick.not-leader', 'hasQuorum', 'msg.next_node_idx', 'sendAppendEntries', 'doChangeCluster', 'node-notifications',
          'msg.response_vote', 'tick.election'],
  'The leader block of _onTick keeps the leader role only if, at the clock value it reads, more than half of the voters (itself '
  'included) answered within leaderFallbackTimeout, otherwise it becomes FOLLOWER with no leader (O20.1); lastResponseTime is '
  'refreshed only on receipt of a reply / on election / on adding a member (O20.2 frame); hasQuorum is exactly the '
  'majority-of-connected-voters formula (O20.3).',
  'The bound is "fallback timeout + one tick period" (the tick period is the caller\'s). "Never acknowledges SUCCESS while cut off" rests on '
  'R9/R10 plus ' + A_RAFT + '.',
  lemmas=['FRAME-C20'], assumptions=[])

from contracts import ser_units as _su   # noqa
LEMMAS['L-CHUNK'] = _su.lemma_chunk
PROPS['C09'] = None
P('C09', ['loadDumpFile', 'sendAppendEntries', 'msg.append_entries', 'serializer.getTransmissionData', 'serializer.setTransmissionData',
          'serializer.setTransmissionData.none', 'serializer.setTransmissionData.file', 'serializer.serialize', 'serializer.checkSerializing',
          'serializer.scratch-files', 'serializer.deserialize', 'tryLogCompaction'],
  'Snapshot load restores attributes, journal head, applied index, member set and the name table for the restored version (O9.4); the '
  'leader resets nextIndex to the entry after the snapshot point and sends snapshots only to followers behind the journal start '
  '(O9.6); a partial snapshot chunk changes neither journal nor commit index.',
  'Serializer contracts: chunk sender/receiver (O9.5) with lemma L-CHUNK, serialize per mode with the file discipline "write tmp, then '
  'atomic rename, dump path never opened for writing" (O9.2), checkSerializing state machine (O9.3). T-PICKLE/T-GZIP/T-FORK/T-RENAME/'
  'T-FILE are trusted. The choice of the snapshot point in __tryLogCompaction (O9.1) is covered where unit tryLogCompaction is built.',
  lemmas=['L-CHUNK', 'FRAME-VERSION-IN-DUMP'], modules=SO_MODS + ['contracts.ser_units'], assumptions=['A-DUMP', 'A-ATTRS'])

# ---------------------------------------------------------------------------------------------------------- lemmas


def _only_reached_from(mod, meth, allowed, depth=0):
    """a private helper (e.g. freshly extracted by a refactoring) that is called only from functions under contract - directly or through
    other such helpers - is covered by those contracts: the units execute uncontracted same-class helpers in place"""
    from contracts.so_common import self_calls
    ci = mod.classes['SyncObj']
    if not meth.startswith('__') or meth.endswith('__') or depth > 4:
        return False
    callers = [m for m, fn in ci.methods.items() if meth in self_calls(fn) and m != meth]
    if not callers:
        return False
    return all(c in allowed or _only_reached_from(mod, c, allowed, depth + 1) for c in callers)


def _lemma_frame(prop, attr_sets):
    """frame obligations: the writers of the given fields, computed from the AST of class SyncObj, are exactly the
    functions under contract for them"""
    from pyvc import source
    from contracts.so_common import writers_of

    def run():
        mod = source.load('pysyncobj/syncobj.py')
        out = []
        for attr, allowed in attr_sets.items():
            w = writers_of(mod, 'SyncObj', attr)
            extra = [x for x in w if x not in allowed and not _only_reached_from(mod, x, allowed)]
            # a writer outside the contracted set means the code was restructured in a way the contracts do not cover:
            # that is *undecided* (exit 2), not a violation - the semantic clauses of the units decide violations
            out.append(dict(id='%s:frame.writers-of-%s-are-under-contract' % (prop, attr.strip('_')), unit='lemma.frame', path='ast',
                            status='discharged' if not extra else 'unknown', solver='ast-frame-analysis', secs=0.0,
                            model={'writers': w, 'uncontracted': extra}, info='writers=%s' % w, line=None))
        return out
    return run


LEMMAS['FRAME-C04'] = _lemma_frame('C04', {
    '__raftCommitIndex': ['__init__', '_onTick', '__onMessageReceived'],
    '__raftLastApplied': ['__init__', '__applyLogEntries', '__loadDumpFile'],
    '__raftMatchIndex': ['__init__', '__onMessageReceived', '__onReadonlyNodeConnected', '__onReadonlyNodeDisconnected', '__onBecomeLeader',
                         '__doChangeCluster', '__updateClusterConfiguration'],
})
def _lemma_callers(prop, table):
    """frame obligations on helper methods: the set of SyncObj methods that call the helper is exactly the set whose contracts cover the call"""
    from pyvc import source
    from contracts.so_common import self_calls

    def run():
        mod = source.load('pysyncobj/syncobj.py')
        ci = mod.classes['SyncObj']
        out = []
        for helper, allowed in table.items():
            callers = sorted(m for m, fn in ci.methods.items() if helper in self_calls(fn))
            extra = [c for c in callers if c not in allowed and not _only_reached_from(mod, c, allowed)]
            out.append(dict(id='%s:frame.callers-of-%s-are-under-contract' % (prop, helper.strip('_')), unit='lemma.frame', path='ast',
                            status='discharged' if not extra else 'unknown', solver='ast-frame-analysis', secs=0.0,
                            model={'callers': callers, 'uncontracted': extra}, info='callers=%s' % callers, line=None))
        return out
    return run


LEMMAS['FRAME-C03'] = _lemma_frame('C03', {
    '__raftCurrentTerm': ['__init__', '__onMessageReceived', '_onTick'],
    '__votedForNodeId': ['__init__', '__onMessageReceived', '_onTick'],
    '__votesCount': ['__init__', '__onMessageReceived', '_onTick'],
    '__raftState': ['__init__', '__setState'],
    '__noopIDx': ['__init__', '__onBecomeLeader'],
})
LEMMAS['CALLERS-C03'] = _lemma_callers('C03', {
    '__setState': ['_onTick', '__onMessageReceived', '__onBecomeLeader'],
    '__onBecomeLeader': ['_onTick', '__onMessageReceived'],
})
LEMMAS['FRAME-C01'] = _lemma_frame('C01', {
    '__raftLog': ['__deleteEntriesFrom', '__deleteEntriesTo', '__init__', '__loadDumpFile', '__onBecomeLeader', '__onMessageReceived',
                  '_checkCommandsToApply', '_onTick'],
})
LEMMAS['CALLERS-C01'] = _lemma_callers('C01', {
    '__deleteEntriesFrom': ['__onMessageReceived'],
    '__deleteEntriesTo': ['__tryLogCompaction', '__loadDumpFile'],
    '__loadDumpFile': ['_onTick', '__onMessageReceived'],
    '__doApplyCommand': ['__applyLogEntries'],
})
LEMMAS['FRAME-C10'] = _lemma_frame('C10', {
    '__otherNodes': ['__doChangeCluster', '__init__', '__updateClusterConfiguration'],
    '__changeClusterIDx': ['__changeCluster', '__init__', '_checkCommandsToApply'],
    '__noopIDx': ['__init__', '__onBecomeLeader'],
})
LEMMAS['CALLERS-C10'] = _lemma_callers('C10', {
    '__doChangeCluster': ['__changeCluster', '__doApplyCommand', '__onMessageReceived'],
    '__updateClusterConfiguration': ['__loadDumpFile'],
})
LEMMAS['FRAME-C17'] = _lemma_frame('C17', {
    '__enabledCodeVersion': ['__doApplyCommand', '__init__', '__setCodeVersion'],
    '__currentVersionFuncNames': ['__init__', '__onSetCodeVersion'],
    '__selfCodeVersion': ['__init__'],
    '_idToMethod': ['__init__'],
    '_methodToID': ['__init__'],
})
LEMMAS['CALLERS-C17'] = _lemma_callers('C17', {
    '__onSetCodeVersion': ['__init__', '__doApplyCommand', '__loadDumpFile'],
    '__setCodeVersion': [],
})
LEMMAS['FRAME-C18'] = _lemma_frame('C18', {
    '__readonlyNodes': ['__init__', '__onReadonlyNodeConnected', '__onReadonlyNodeDisconnected'],
    '__otherNodes': ['__doChangeCluster', '__init__', '__updateClusterConfiguration'],
})
LEMMAS['FRAME-C02'] = _lemma_frame('C02', {
    # request ids of forwarded commands must never be reused: the counter is only ever incremented, and only where an id is issued
    '__commandsLocalCounter': ['__init__', '_checkCommandsToApply'],
    '__commandsWaitingReply': ['__init__', '_checkCommandsToApply', '__onMessageReceived', '__onLeaderChanged'],
    '__commandsWaitingCommit': ['__init__', '_checkCommandsToApply', '__onMessageReceived', '__applyLogEntries'],
})
LEMMAS['FRAME-C20'] = _lemma_frame('C20', {
    '__lastResponseTime': ['__init__', '__onMessageReceived', '__onBecomeLeader', '__doChangeCluster'],
})


def _bounded_reflection():
    """bounded native stand-in for the reflection (X4): enumeration over generated classes, run on the real code"""
    import json
    import os
    import subprocess
    import time
    here = os.path.dirname(os.path.dirname(os.path.abspath(__file__)))
    env = dict(os.environ)
    env['PYTHONPATH'] = os.environ.get('PYVC_REPO', '/repo')
    t0 = time.time()
    p = subprocess.run(['/venv/bin/python', os.path.join(here, 'bounded', 'c17_reflection.py')], stdout=subprocess.PIPE, stderr=subprocess.PIPE, env=env, timeout=600)
    txt = p.stdout.decode('utf-8', 'replace').strip().split('\n')[-1] if p.stdout else ''
    try:
        info = json.loads(txt)
    except Exception:
        info = {'error': (p.stderr.decode('utf-8', 'replace')[-400:])}
    st = 'discharged' if p.returncode == 0 else ('failed' if p.returncode == 1 else 'unknown')
    return [dict(id='C17:BOUNDED.O17.1-O17.2-O17.7.reflection-enumeration', unit='bounded.c17_reflection', path='exhaustive over %s generated class pairs' % info.get('cases'),
                 status=st, solver='cpython-enumeration(bounded)', secs=time.time() - t0, model=info, info=json.dumps(info)[:300], line=None, bounded=True)]


LEMMAS['B-REFLECT'] = _bounded_reflection


def _lemma_enabled_version_serialized():
    """O9.4/O17.6 rest on the enabled code version being part of the dumped object state: SyncObj.__init__ must create
    __enabledCodeVersion only after it has recorded its internal attribute names in __properies (what is recorded there is excluded
    from dumps by __tryLogCompaction, unit tryLogCompaction).  Frame obligation on the AST of __init__."""
    import ast
    from pyvc import source
    mod = source.load('pysyncobj/syncobj.py')
    fn, ci = mod.find('SyncObj.__init__')
    snap = [i for i, st in enumerate(fn.body) if isinstance(st, ast.For) and any(
        isinstance(x, ast.Attribute) and x.attr == '__properies' for x in ast.walk(st))]
    assigns = [i for i, st in enumerate(fn.body) for x in ast.walk(st) if isinstance(x, ast.Attribute) and x.attr == '__enabledCodeVersion' and isinstance(x.ctx, ast.Store)]
    ok = len(snap) == 1 and len(assigns) >= 1 and all(i > snap[0] for i in assigns)
    return [dict(id='C17+C09:O9.4.enabled-code-version-is-part-of-the-dumped-state', unit='lemma.frame', path='ast-order in SyncObj.__init__',
                 status='discharged' if ok else 'failed', solver='ast-frame-analysis', secs=0.0,
                 model={'properies_snapshot_stmt': snap, 'enabledCodeVersion_assign_stmts': assigns},
                 info='snapshot stmt %s, assignments %s' % (snap, assigns), line=None)]


LEMMAS['FRAME-VERSION-IN-DUMP'] = _lemma_enabled_version_serialized


def _lemma_elect():
    from contracts.lemmas import lemma_elect
    return lemma_elect()


LEMMAS['L-ELECT'] = _lemma_elect

from contracts import bat_lock as _bl   # noqa
LEMMAS['L-LOCK'] = _bl.lemma_lock

from contracts import bat_containers as _bc   # noqa


def _lemma_public_methods():
    missing = _bc.public_methods_covered()
    return [dict(id='C15:every-public-method-has-a-contract', unit='lemma.coverage', path='ast-census',
                 status='discharged' if not missing else 'failed', solver='ast', secs=0.0, model={'missing': missing}, info=str(missing), line=None)]


LEMMAS['C15-coverage'] = _lemma_public_methods


def _x_batteries():
    import os
    from contracts import crosscheck
    if os.environ.get('VERIF_TIER', '') != 'thorough' and os.environ.get('PYVC_TIER', '') != 'thorough':
        return []
    return crosscheck.crosscheck_batteries(int(os.environ.get('VERIF_SEED', '0') or 0))


def _x_locks():
    import os
    from contracts import crosscheck
    if os.environ.get('VERIF_TIER', '') != 'thorough' and os.environ.get('PYVC_TIER', '') != 'thorough':
        return []
    return crosscheck.crosscheck_locks(int(os.environ.get('VERIF_SEED', '0') or 0))


def _x_engine():
    import os
    from contracts import crosscheck
    if os.environ.get('PYVC_TIER', '') != 'thorough':
        return []
    return crosscheck.crosscheck_handlers(int(os.environ.get('VERIF_SEED', '0') or 0), 120)


LEMMAS['X-ENGINE'] = _x_engine
LEMMAS['X-BATTERIES'] = _x_batteries
LEMMAS['X-LOCKS'] = _x_locks
P('C15', _bc.ALL_UNITS + ['consumer.serialize'],
  'Every public method of ReplCounter/ReplList/ReplDict/ReplSet/ReplQueue/ReplPriorityQueue (57, counted from the AST on every run) is '
  'executed symbolically against a recording stand-in of the builtin container of unbounded size; the contract, written from the Python '
  'documentation of list/dict/set/deque/heapq, says which builtin operation with which arguments the call must amount to (defaults '
  'and documented errors included) and what it returns; bounded queues refuse exactly when maxsize > 0 and len >= maxsize; replicated '
  'methods must be functions of (state, arguments).',
  'T-BUILTIN: the builtins themselves behave as documented. "After replication all replicas are equal" additionally needs C01. '
  'ReplSet.pop is a known finding (D15). Consumer (de)serialisation: unit consumer.serialize.',
  lemmas=['C15-coverage', 'X-BATTERIES'], modules=['contracts.bat_containers'] + SO_MODS, trusted=['T-BUILTIN'])

P('C08', ['ResizableFile.write', 'ResizableFile.read', 'FileJournal.add', 'FileJournal.clear', 'FileJournal.deleteEntriesFrom',
          'FileJournal.deleteEntriesTo', 'FileJournal.reopen', 'FileJournal.access', 'MemoryJournal'],
  'FileJournal refines the list MemoryJournal implements under the abstraction function of DESIGN §C08 (file image as byte function + '
  'ghost record offsets): every operation re-establishes Rep with the whole view the list operation gives; reopening decodes the '
  'view; crash conditions are obligations at every primitive store (old-or-new view for add, header-only stores for the deletions).',
  'Unbounded in record count, record sizes and offsets (< 2^32, A-RANGE). struct.pack bytes are uninterpreted with the round-trip '
  'axiom (T-STRUCT); mmap semantics trusted (T-MMAP); a 4-byte header store is atomic w.r.t. process kill (A-HDR-ATOMIC). '
  'deleteEntriesTo is not kill-safe (known finding D8). File opening in ResizableFile.__init__/MetaStorer is not under contract.',
  modules=['contracts.journal_units'], trusted=['T-STRUCT', 'T-MMAP', 'T-RENAME'],
  assumptions=['A-RANGE', 'A-HDR-ATOMIC', 'kill = process kill, not power loss'])

from contracts import tcp_units as _tu   # noqa
LEMMAS['L-STREAM'] = _tu.lemma_stream
P('C13', ['tcp.parse', 'tcp.send', 'tcp.processSend', 'tcp.processRead', 'tcp.readloop', 'tcp.disconnect'],
  'Contracts on the real TcpConnection methods over byte windows of unbounded size: send appends exactly frame(m) (O13.1); '
  '__processSend keeps "bytes handed to the socket ++ remaining buffer" equal to the old buffer for every socket result (O13.2); '
  '__processRead appends exactly what recv returned (O13.3); __processParseMessage returns None on a short/incomplete frame leaving '
  'the buffer alone, delivers a complete valid frame consuming exactly 4+l bytes, and disconnects on a negative length or invalid '
  'payload without raising (O13.4); the read loop hands each parsed message to the callback once, in order (O13.5). Lemma '
  'L-STREAM: a buffer that starts with frame(m) parses to m.',
  'Encrypted transport not verified (cryptography absent, encryptor None). T-SOCKET, T-ZLIB, T-PICKLE, T-STRUCT trusted; the native '
  '"i" format is little-endian 32 bit on this platform. The induction over a whole message sequence is stated, its step is L-STREAM.',
  lemmas=['L-STREAM'], modules=['contracts.tcp_units'], trusted=['T-SOCKET', 'T-ZLIB', 'T-PICKLE', 'T-STRUCT'],
  assumptions=['no-crypto', 'A-RANGE: frame length < 2^31', 'messages are not None (None means "no message" in the parse loop)'])

P('C14', ['transport.incoming', 'transport.dropNode', 'transport.shouldConnect', 'transport.send', 'transport.onDisconnected', 'tcp.disconnect',
          'tcp.connectionTimeout', 'tcp.trySendBuffer', 'transport.addNode', 'transport.outgoingConnected', 'transport.connectIfNecessary',
          'transport.replacedConnection'],
  'Only the safety clauses a per-call contract can state: identity (a message is only ever delivered as coming from the member whose '
  'address the connection\'s first message named; unknown or removed addresses are disconnected and bound to nothing, O14.1), '
  'membership filter after dropNode (O14.2), single dialer per pair (O14.3), truthful send (O14.4), one disconnect notification '
  'and at most one reconnect attempt per disconnect (O14.5), and the read timeout in its safety form: every flush attempt '
  'first evaluates it, and a connection silent for longer than the timeout is disconnected by that evaluation.',
  'NOT decided: "re-establishes exactly one working connection within a bounded time after any fault pattern" and "notifications '
  'match the ability to exchange messages" over fault histories - liveness / fault-sequence clauses outside this technique (same reason '
  'as C05). Node universe of 3 member addresses in these units; address order is modelled as a strict total order.',
  modules=['contracts.tr_units', 'contracts.tcp_units'], trusted=['T-SOCKET'], assumptions=['no-crypto'])

P('C07', ['msg.request_vote', 'msg.append_entries', 'tick.election', 'init.startup'],
  'The in-memory half is proved: a vote is granted only for the current term and only once per term (R2), the vote changes only from None '
  'or on a new term (R1), the term never decreases in any handler. The durable half - the start-up region of __init__ must restore a term '
  'not below the acknowledged one and the vote of that term - is stated as two obligations of unit init.startup.',
  'Both durable obligations FAIL on the unchanged tree by construction (term and vote are never persisted): recorded as known finding D10; '
  'the check therefore establishes only that no *other* clause of C07 is broken. Cross-node consequence (one leader per term across restarts) is ' + A_RAFT + '.',
  assumptions=[A_RAFT])

NOT_BUILT.update({})
