"""C09 (serializer side): contracts on Serializer - chunked transmission (O9.5, L-CHUNK), serialize/deserialize file discipline
(O9.2: tmp file then atomic rename, the dump path is never opened for writing), checkSerializing state machine (O9.3)."""
import ast
import z3
from pyvc.values import *   # noqa
from pyvc.harness import unit, mutate_function, replace_compare
from pyvc.ctx import Undecided
from pyvc.interp import Interp, PyExc, Frame
from pyvc import source
from pyvc.bytesmodel import ByteStr, to_bytestr, I_
from .tcp_units import Win, fresh_win, cat, ARR

SMOD = 'pysyncobj/serializer.py'
SF = lambda n: '_Serializer__' + n
NOT_SERIALIZING, SERIALIZING, SUCCESS, FAILED = 0, 1, 2, 3


class FileObj(object):
    """an open file: name, mode, for 'rb' the content window and read position (ghost)"""

    def __init__(self, name, mode, content=None, pos=0):
        self.name, self.mode, self.content, self.pos = name, mode, content, pos
        self.closed = False

    def call_method(self, I, ref, name, args, kw):
        ctx = I.ctx
        if name == 'read':
            if ctx.decide(FreshBool('readFails'), 'file-read-raises'):
                I.raise_('OSError')
            n = args[0]
            c = self.content
            a = I.norm_index(self.pos, c.n)
            b = I.norm_index(to_z3(self.pos) + to_z3(n), c.n)
            b = Max(a, b)
            w = Win(c.A, z3.simplify(to_z3(c.lo) + to_z3(a)), z3.simplify(to_z3(b) - to_z3(a)))
            ctx.setcell(ref, FileObj(self.name, self.mode, c, b))
            return w
        if name == 'write':
            if ctx.decide(FreshBool('writeFails'), 'file-write-raises'):
                I.raise_('OSError')
            ctx.ghost['fileops'] = ctx.glist('fileops') + [('write', self.name, args[0])]
            return None
        if name == 'close':
            ctx.ghost['fileops'] = ctx.glist('fileops') + [('close', self.name)]
            return None
        if name in ('__enter__', '__exit__', 'flush'):
            return None
        return NotImplemented


def mk_ser(ctx, file_mode, dump=None):
    data = dump if dump is not None else fresh_win(ctx, 'dump')
    B = FreshInt('batchSize')
    ctx.assume(B >= 1)
    pid = FreshInt('pid')
    fname = 'dump.bin' if file_mode else None
    f = {SF('useFork'): FreshBool('useFork') if file_mode else False, SF('fileName'): fname, SF('transmissionBatchSize'): B, SF('pid'): pid,
         SF('currentID'): FreshInt('currentID'), SF('transmissions'): ctx.alloc(KVDict([])),
         SF('incomingTransmissionFile'): None, SF('inMemorySerializedData'): (None if file_mode else data),
         SF('serializer'): None, SF('deserializer'): None, SF('serializeChecker'): None}
    # the object is created by the real constructor (whatever it establishes beyond the fields below - e.g. an attribute added by a change - is
    # in place), then put into the symbolic state of the contract
    try:
        ser, _B = mk_ser_real(ctx, file_mode, False)
        c_ = ctx.cell(ser)
        for k_, v_ in f.items():
            c_ = c_.with_field(k_, v_)
        ctx.setcell(ser, c_)
    except (Undecided, PyExc, KeyError, AttributeError, TypeError):
        ser = ctx.alloc(PObj('Serializer', f))     # the constructor left the subset: fall back to the fields the contract names
    ctx.track('batchSize', B)
    ctx.track('pid', pid)
    ctx.track('len(dump)', data.n)
    return ser, data, B, pid


def mk_ser_real(ctx, file_mode, use_fork=False):
    """a Serializer built by the real __init__ (so that whatever the constructor establishes - including attributes a hand-built pre-state cannot know -
    is in place), with the configuration of mk_ser"""
    mod = source.load(SMOD)
    fn, ci = mod.find('Serializer.__init__')
    ser = ctx.alloc(PObj('Serializer', {}))
    B = FreshInt('batchSize')
    ctx.assume(B >= 1)
    I = Interp(ctx, externals={'hasattr': lambda I_, a, k: True})
    I.cur_mod = mod
    I.call_funcdef(fn, mod, 'Serializer', ser, ['dump.bin' if file_mode else None, B, use_fork, None, None, None], {}, None, 'Serializer.__init__')
    return ser, B


def ext_open(ctx, files):
    def _open(I, args, kw):
        name, mode = args[0], (args[1] if len(args) > 1 else 'r')
        if I.ctx.decide(FreshBool('openFails'), 'open-raises'):
            I.raise_('OSError')
        I.ctx.ghost['fileops'] = I.ctx.glist('fileops') + [('open', name, mode)]
        return I.ctx.alloc(FileObj(name, mode, files.get(name_key(name)), 0))
    return _open


def name_key(n):
    if isinstance(n, str):
        return n
    parts = getattr(n, 'parts', None)
    return repr(n)


def run_ser(ctx, ser, meth, args, externals=None, registry=None):
    mod = source.load(SMOD)
    fn, ci = mod.find('Serializer.%s' % meth)
    if fn is None:
        raise Undecided('Serializer.%s not found' % meth)
    ext = {'pickle.to_bytes': lambda I, a, k: a[0], 'to_bytes': lambda I, a, k: a[0],
           'bytes': lambda I, a, k: Win(z3.K(I_, z3.IntVal(0)), 0, 0)}
    ext.update(externals or {})
    I = Interp(ctx, registry=registry or {}, externals=ext, hooks={})
    try:
        return 'ok', I.call_funcdef(fn, mod, 'Serializer', ser, list(args), {}, None, 'Serializer.%s' % meth), I
    except PyExc as e:
        return e.typ, e, I


def lookup_tx(ctx, ser, key):
    ents = ctx.cell(ctx.cell(ser).fields[SF('transmissions')]).entries
    return ents


# ------------------------------------------------------------------------------------------------ getTransmissionData (memory mode)
@unit(name='serializer.getTransmissionData', relpath=SMOD, qual=['Serializer.getTransmissionData'], props=['C09'],
      cases=[dict(started=False, file_mode=False), dict(started=True, file_mode=False), dict(started=False, file_mode=True), dict(started=True, file_mode=True)],
      doc='O9.5 (sender): None while a dump is being written; otherwise the chunk is dump[t : t+batch], isFirst == (t == 0), '
          'isLast == (chunk is empty), the position advances by the chunk length and the transmission is forgotten after the last chunk; '
          'a failure to open or read yields None and forgets the transmission',
      trusted=['file open/read semantics (T-FILE)'],
      canaries=[('last-when-short', lambda mod: mutate_function(mod, 'Serializer.getTransmissionData', _mut_last_when_short), ['O9.5.isLast-iff-empty-chunk'])])
def ser_get_transmission(ctx, started, file_mode):
    dump = fresh_win(ctx, 'dump')
    ser, data, B, pid = mk_ser(ctx, file_mode, dump)
    tid = NodeV(0)
    t0 = FreshInt('transmitted') if started else 0
    if started:
        ctx.assume(And(t0 >= 0, t0 <= to_z3(dump.n)))
        ctx.track('transmitted', t0)
        if file_mode:
            fo = ctx.alloc(FileObj('dump.bin', 'rb', dump, t0))
            tx = ctx.alloc(PDict({'file': fo, 'transmitted': t0}))
        else:
            tx = ctx.alloc(PDict({'transmitted': t0, 'data': dump}))
        ctx.setcell(ctx.cell(ser).fields[SF('transmissions')], KVDict([(True, tid, tx)]))
    files = {'dump.bin': dump}
    outcome, r, I = run_ser(ctx, ser, 'getTransmissionData', [tid], externals={'open': ext_open(ctx, files)})
    ctx.prove(outcome == 'ok', 'C09+C11:O9.5.no-exception-escapes', info=outcome)
    if outcome != 'ok':
        return
    ents = lookup_tx(ctx, ser, tid)
    present = Or(*[And(p, I.equals(k, tid)) for p, k, v in ents])
    if r is None:
        failed = any(op[0] in ('open',) for op in ctx.glist('fileops')) or True
        ctx.prove(Or(pid != 0, True), 'C09:O9.5.none-result-allowed')
        if ctx.decide(pid != 0, 'serializing'):
            ctx.prove(True, 'C09:O9.5.none-while-serializing')
        else:
            ctx.prove(Not(present), 'C09:O9.5.failed-transmission-forgotten')
        return
    ctx.prove(Eq(pid, 0), 'C09:O9.5.no-chunk-while-serializing')
    ctx.prove(isinstance(r, tuple) and len(r) == 3, 'C09+C11:O9.5.result-is-a-triple', info=repr(r))
    if not (isinstance(r, tuple) and len(r) == 3):
        return
    chunk, first, last = r
    n = to_z3(dump.n)
    t = to_z3(t0)
    want_len = z3.If(t + B <= n, B, n - t)
    ctx.prove(isinstance(chunk, Win) and chunk.A is dump.A and And(Eq(chunk.lo, to_z3(dump.lo) + t), Eq(chunk.n, want_len)), 'C09:O9.5.chunk-is-dump-slice-at-position')
    ctx.prove(Iff(I.truth_expr(first), t == 0), 'C09:O9.5.isFirst-iff-position-zero')
    ctx.prove(Iff(I.truth_expr(last), want_len == 0), 'C09:O9.5.isLast-iff-empty-chunk')
    # position advanced / forgotten
    if ctx.decide(want_len == 0, 'was-last'):
        ctx.prove(Not(present), 'C09:O9.5.forgotten-after-last-chunk')
    else:
        ctx.prove(present, 'C09:O9.5.transmission-kept')
        for p, k, v in ents:
            txc = ctx.cell(v)
            ctx.prove(Eq(txc.items['transmitted'], t + want_len), 'C09:O9.5.position-advances-by-chunk-length')


@unit(name='serializer.cancelTransmisstion', relpath=SMOD, qual=['Serializer.cancelTransmisstion'], props=['C09'],
      doc='O9.7: cancelTransmisstion(id) forgets the transfer state of id - the next getTransmissionData(id) starts a new transfer with '
          'isFirst set (unit serializer.getTransmissionData, case started=False) - and leaves every other transfer untouched; it never raises, '
          'whether or not a transfer to id exists')
def ser_cancel_transmission(ctx):
    dump = fresh_win(ctx, 'dump')
    ser, data, B, pid = mk_ser(ctx, False, dump)
    tid, other = NodeV(0), NodeV(1)
    p0, p1 = FreshBool('hasTransfer'), FreshBool('otherHasTransfer')
    t1 = FreshInt('otherTransmitted')
    tx0 = ctx.alloc(PDict({'transmitted': FreshInt('transmitted'), 'data': dump}))
    tx1 = ctx.alloc(PDict({'transmitted': t1, 'data': dump}))
    ctx.setcell(ctx.cell(ser).fields[SF('transmissions')], KVDict([(p0, tid, tx0), (p1, other, tx1)]))
    outcome, r, I = run_ser(ctx, ser, 'cancelTransmisstion', [tid])
    ctx.prove(outcome == 'ok', 'C09:O9.7.cancel.no-exception', info=outcome)
    if outcome != 'ok':
        return
    ents = lookup_tx(ctx, ser, tid)
    ctx.prove(Not(Or(*[And(p, I.equals(k, tid)) for p, k, v in ents])), 'C09:O9.7.cancel.transfer-state-forgotten')
    keep = [(p, k, v) for p, k, v in ents if I.equals(k, other) is True or (is_sym(I.equals(k, other)) is False and I.equals(k, other))]
    ctx.prove(Iff(Or(*[p for p, k, v in keep]) if keep else False, p1), 'C09:O9.7.cancel.other-transfers-untouched')
    for p, k, v in keep:
        ctx.prove(Implies(p, Eq(ctx.cell(v).items['transmitted'], t1)), 'C09:O9.7.cancel.other-transfers-untouched')


def _mut_last_when_short(fn):
    cnt = 0
    for n in ast.walk(fn):
        if isinstance(n, ast.Assign) and isinstance(n.targets[0], ast.Name) and n.targets[0].id == 'isLast':
            n.value = ast.parse('size < self.__transmissionBatchSize').body[0].value
            cnt += 1
    return cnt


# ------------------------------------------------------------------------------------------------ setTransmissionData (memory mode)
@unit(name='serializer.setTransmissionData', relpath=SMOD, qual=['Serializer.setTransmissionData'], props=['C09', 'C01'],
      cases=[dict(state=s) for s in ('idle', 'receiving')],
      doc='O9.5 (receiver, in-memory): None -> False; a first chunk restarts the accumulation; a non-first chunk without a started '
          'accumulation is refused; bytes are appended in order; True exactly on the last chunk, at which point the stored dump is the '
          'accumulation since the last first chunk',
      canaries=[('accept-without-first', lambda mod: mutate_function(mod, 'Serializer.setTransmissionData', _mut_accept_without_first), ['O9.5.chunk-without-start-refused'])])
def ser_set_transmission(ctx, state):
    ser, data, B, pid = mk_ser(ctx, False)
    acc = fresh_win(ctx, 'acc') if state == 'receiving' else None
    c = ctx.cell(ser)
    ctx.setcell(ser, c.with_field(SF('incomingTransmissionFile'), acc))
    chunk = fresh_win(ctx, 'chunk')
    first, last = FreshBool('isFirst'), FreshBool('isLast')
    ctx.track('isFirst', first)
    ctx.track('isLast', last)
    old_dump = c.fields[SF('inMemorySerializedData')]
    outcome, r, I = run_ser(ctx, ser, 'setTransmissionData', [(chunk, first, last)])
    ctx.prove(outcome == 'ok', 'C09:O9.5.set.no-exception', info=outcome)
    if outcome != 'ok':
        return
    c1 = ctx.cell(ser)
    inc1, dump1 = c1.fields[SF('incomingTransmissionFile')], c1.fields[SF('inMemorySerializedData')]
    res = I.truth_expr(r)
    started = Or(first, acc is not None)
    ctx.prove(Implies(Not(started), Not(res)) if True else True, 'C09:O9.5.chunk-without-start-refused')
    if acc is None and ctx.decide(Not(first), 'not-first'):
        ctx.prove(And(Not(res), dump1 is old_dump, inc1 is None), 'C09+C01:O9.5.chunk-without-start-refused')
        return
    ctx.prove(Iff(res, last), 'C09+C01:O9.5.true-exactly-on-last-chunk')
    j = FreshInt('j')
    base_n = Ite(first, 0, acc.n) if acc is not None else 0
    result = dump1 if ctx.decide(last, 'last') else inc1
    ctx.prove(isinstance(result, ByteStr), 'C09:O9.5.accumulation-is-bytes')
    if not isinstance(result, ByteStr):
        return
    ctx.prove(Eq(result.n, base_n + to_z3(chunk.n)), 'C09:O9.5.accumulation-length')
    if acc is not None:
        ctx.prove(Implies(And(Not(first), j >= 0, j < to_z3(acc.n)), result.at(j) == acc.at(j)), 'C09:O9.5.earlier-bytes-kept-in-order')
    ctx.prove(Implies(And(j >= 0, j < to_z3(chunk.n)), result.at(to_z3(base_n) + j) == chunk.at(j)), 'C09:O9.5.chunk-appended-at-the-end')
    if result is dump1:
        ctx.prove(inc1 is None, 'C09:O9.5.accumulation-reset-after-completion')
    else:
        ctx.prove(dump1 is old_dump, 'C09+C01:O9.5.stored-dump-untouched-until-complete')


def _mut_accept_without_first(fn):
    cnt = 0
    for n in ast.walk(fn):
        if isinstance(n, ast.If) and n.orelse and isinstance(n.test, ast.Name) and n.test.id == 'isFirst':
            for o in n.orelse:
                if isinstance(o, ast.If):
                    o.body = [ast.parse('self.__incomingTransmissionFile = bytes()').body[0]]
                    cnt += 1
    return cnt


@unit(name='serializer.setTransmissionData.none', relpath=SMOD, qual=['Serializer.setTransmissionData'], props=['C09', 'C01'],
      doc='setTransmissionData(None) returns False and changes nothing')
def ser_set_transmission_none(ctx):
    ser, data, B, pid = mk_ser(ctx, False)
    c0 = ctx.cell(ser)
    outcome, r, I = run_ser(ctx, ser, 'setTransmissionData', [None])
    ctx.prove(outcome == 'ok' and r is False, 'C09+C01:O9.5.none-chunk-is-refused')
    ctx.prove(ctx.cell(ser).fields == c0.fields, 'C09:O9.5.none-chunk-changes-nothing')


# ------------------------------------------------------------------------------------------------ file-mode receive and serialize: file discipline
@unit(name='serializer.setTransmissionData.file', relpath=SMOD, qual=['Serializer.setTransmissionData'], props=['C09', 'C06'],
      cases=[dict(state=s) for s in ('idle', 'receiving')],
      doc='O9.2/O9.5 (receiver, file mode): chunks are written to <dump>.1.tmp only; the dump path itself is touched by exactly one '
          'atomicReplace after the last chunk was written and the tmp file closed; True only then (crash condition: the dump path holds '
          'a complete old or new snapshot)',
      trusted=['T-RENAME', 'T-FILE'],
      canaries=[('write-dump-directly', lambda mod: mutate_function(mod, 'Serializer.setTransmissionData', _mut_tmp_is_dump), ['O9.2.dump-path-only-renamed-onto'])])
def ser_set_transmission_file(ctx, state):
    ser, data, B, pid = mk_ser(ctx, True)
    c = ctx.cell(ser)
    cur = ctx.alloc(FileObj(('dump.bin', '.1.tmp'), 'wb')) if state == 'receiving' else None
    ctx.setcell(ser, c.with_field(SF('incomingTransmissionFile'), cur))
    chunk = fresh_win(ctx, 'chunk')
    first, last = FreshBool('isFirst'), FreshBool('isLast')
    renames = []

    def atomic(I, args, kw):
        if I.ctx.decide(FreshBool('renameFails'), 'rename-raises'):
            I.raise_('OSError')
        I.ctx.ghost['fileops'] = I.ctx.glist('fileops') + [('rename', args[0], args[1])]
        return None

    def opener(I, args, kw):
        if I.ctx.decide(FreshBool('openFails'), 'open-raises'):
            I.raise_('OSError')
        I.ctx.ghost['fileops'] = I.ctx.glist('fileops') + [('open', args[0], args[1])]
        return I.ctx.alloc(FileObj(args[0], args[1]))
    def os_kill(I, args, kw):
        if I.ctx.decide(FreshBool('killFails'), 'kill-raises'):
            I.raise_('OSError')          # e.g. the child is already gone
        I.ctx.ghost['fileops'] = I.ctx.glist('fileops') + [('kill', args[0], args[1] if len(args) > 1 else None)]
        return None

    def os_waitpid(I, args, kw):
        if I.ctx.decide(FreshBool('waitpidFails'), 'waitpid-raises'):
            I.raise_('OSError')
        I.ctx.ghost['fileops'] = I.ctx.glist('fileops') + [('waitpid', args[0], args[1] if len(args) > 1 else None)]
        return (args[0], 9)
    pid0 = pid
    ctx.track('own dump child pid (0 = none, > 0 = forked child writing <dump>.tmp)', pid0)
    outcome, r, I = run_ser(ctx, ser, 'setTransmissionData', [(chunk, first, last)],
                            externals={'open': opener, 'atomicReplace': atomic, 'atomic_replace.atomicReplace': atomic, 'os.kill': os_kill, 'os.waitpid': os_waitpid,
                                       'signal.SIGKILL': 9, 'signal.SIGTERM': 15})
    ctx.prove(outcome == 'ok', 'C09:O9.2.set-file.no-exception-escapes', info=outcome)
    if outcome != 'ok':
        return
    ops = ctx.glist('fileops')
    res = I.truth_expr(r)

    def is_dump(n):
        return n == 'dump.bin'
    for op in ops:
        if op[0] in ('open', 'write', 'close'):
            ctx.prove(not is_dump(op[1]), 'C09+C06:O9.2.dump-path-only-renamed-onto', info=repr(op[:2]))
    # O9.5 (receiver, file mode): a chunk flagged isFirst starts the accumulation afresh - the scratch file is (re)opened for writing, which
    # truncates it, before the chunk is written; bytes of an interrupted earlier transfer never precede it
    writes = [k_ for k_, op in enumerate(ops) if op[0] == 'write' and op[2] is chunk]
    opens = [k_ for k_, op in enumerate(ops) if op[0] == 'open' and 'w' in str(op[2]) and 'a' not in str(op[2])]
    if writes:
        ctx.prove(Implies(first, bool(opens) and opens[0] < writes[0]) if not (opens and opens[0] < writes[0]) else True,
                  'C09+C01:O9.5.first-chunk-restarts-the-scratch-file', info=repr([o[:2] for o in ops]))
        ctx.prove(Implies(Not(first), not opens) if opens else True, 'C09:O9.5.later-chunks-append-to-the-open-scratch-file')
    rn = [op for op in ops if op[0] == 'rename']
    ctx.prove(len(rn) <= 1 and all(is_dump(op[2]) and not is_dump(op[1]) for op in rn), 'C09+C06:O9.2.single-rename-of-tmp-onto-dump')
    if rn:
        k = ops.index(rn[0])
        before = ops[:k]
        ctx.prove(any(o[0] == 'write' and o[2] is chunk for o in before) and any(o[0] == 'close' for o in before),
                  'C09+C06:O9.2.rename-after-last-chunk-written-and-closed')
        ctx.prove(last, 'C09:O9.5.rename-only-on-last-chunk')
    ctx.prove(Implies(res, len(rn) == 1) if len(rn) != 1 else True, 'C09+C01:O9.5.true-only-after-rename')
    ctx.prove(Implies(res, last), 'C09+C01:O9.5.true-only-on-last-chunk')
    # O9.8: an own dump that a forked child is still writing is older than the snapshot being installed.  If it were allowed to finish, its rename
    # would put the older dump over the newer one, and a restart would then replace the journal (which starts after the newer snapshot) by the
    # older dump's entries - acknowledged entries would be gone (C06).  So before the dump path is replaced the child is stopped for good.
    pid1 = ctx.cell(ser).fields[SF('pid')]
    if rn and ctx.decide(pid0 > 0, 'own-dump-child-running'):
        k = ops.index(rn[0])
        stopped = [o for o in ops[:k] if o[0] in ('kill', 'waitpid')]
        tried = any(o[0] == 'kill' and o[1] is pid0 for o in stopped) or _path_has(ctx, 'kill-raises')
        ctx.prove(tried and Eq(pid1, 0), 'C09+C06:O9.8.own-dump-child-stopped-before-a-newer-snapshot-replaces-the-dump-file', info=repr([o[:2] for o in ops]))
        if any(o[0] == 'kill' for o in stopped) and not _path_has(ctx, 'waitpid-raises'):
            ctx.prove(any(o[0] == 'waitpid' and o[1] is pid0 and o[2] in (0, None) for o in stopped), 'C09+C06:O9.8.the-stopped-child-is-reaped-synchronously', info=repr(stopped))
    ctx.prove(Implies(pid0 <= 0, Eq(pid1, pid0)), 'C09:O9.8.no-child-no-change-of-the-dump-state')
    for o in ops:
        if o[0] == 'kill':
            ctx.prove(And(o[1] is pid0, pid0 > 0), 'C09+C06:O9.8.only-the-own-dump-child-is-ever-signalled', info=repr(o[:2]))


def _path_has(ctx, label):
    """True iff the current path took the branch `label`"""
    return any(t.startswith(label) and t.endswith('=T') for t in ctx.trace)


def _mut_tmp_is_dump(fn):
    cnt = 0
    for n in ast.walk(fn):
        if isinstance(n, ast.Assign) and isinstance(n.targets[0], ast.Name) and n.targets[0].id == 'tmpFile':
            n.value = ast.parse('self.__fileName').body[0].value
            cnt += 1
    return cnt


class GzCtx(object):
    def __init__(self, target):
        self.target = target

    def call_method(self, I, ref, name, args, kw):
        return None


@unit(name='serializer.serialize', relpath=SMOD, qual=['Serializer.serialize'], props=['C09', 'C06'],
      cases=[dict(mode=m) for m in ('memory', 'file', 'fork', 'user')],
      doc='O9.2: serialize does nothing while a dump is in progress; memory mode stores the gzip-pickled data and reports success; '
          'file modes write the complete dump to <dump>.tmp, then atomicReplace it onto the dump path, and only then report success '
          '(pid -1 / child exit 0); any failure reports FAILED (pid -2 / child exit -1) and never touches the dump path',
      trusted=['T-PICKLE, T-GZIP, T-FORK, T-RENAME, T-FILE'],
      canaries=[('no-tmp', lambda mod: mutate_function(mod, 'Serializer.serialize', _mut_ser_no_tmp), ['O9.2.dump-path-only-renamed-onto'])])
def ser_serialize(ctx, mode):
    file_mode = mode != 'memory'
    ser, data, B, pid = mk_ser(ctx, file_mode)
    c = ctx.cell(ser)
    c = c.with_field(SF('useFork'), mode == 'fork')
    if mode == 'user':
        c = c.with_field(SF('serializer'), Callable_('user:serializer'))
    ctx.setcell(ser, c)
    payload = (Opaque('state', FreshInt('state')), ('e1',), ('e0',), Opaque('cluster', FreshInt('cluster')))
    did = FreshInt('dumpId')

    def atomic(I, args, kw):
        if I.ctx.decide(FreshBool('renameFails'), 'rename-raises'):
            I.raise_('OSError')
        I.ctx.ghost['fileops'] = I.ctx.glist('fileops') + [('rename', args[0], args[1])]

    def opener(I, args, kw):
        if I.ctx.decide(FreshBool('openFails'), 'open-raises'):
            I.raise_('OSError')
        I.ctx.ghost['fileops'] = I.ctx.glist('fileops') + [('open', args[0], args[1])]
        return I.ctx.alloc(FileObj(args[0], args[1]))

    def gz(I, args, kw):
        return I.ctx.alloc(GzCtx(kw.get('fileobj')))

    def bytesio(I, args, kw):
        return I.ctx.alloc(PObj('BytesIO', {'value': None}))

    def dump(I, args, kw):
        # in memory mode the body has no handler: the object state is assumed picklable there (A-USERCODE)
        if mode != 'memory' and I.ctx.decide(FreshBool('pickleFails'), 'pickle-dump-raises'):
            I.raise_('ArbitraryError')     # pickling arbitrary user state may fail with any exception type
        g = I.ctx.cell(args[1])
        tgt = g.target
        tc = I.ctx.cell(tgt)
        if isinstance(tc, FileObj):
            I.ctx.ghost['fileops'] = I.ctx.glist('fileops') + [('write', tc.name, ('GZ', args[0]))]
        else:
            I.ctx.setcell(tgt, tc.with_field('value', ('GZ', args[0])))
        return None

    def fork(I, args, kw):
        child = I.ctx.decide(FreshBool('inChild'), 'fork-child')
        if child:
            I.ctx.ghost['in_child'] = [True]
            return 0
        p = FreshInt('childPid')
        I.ctx.assume(p > 0)
        return p

    def exit_(I, args, kw):
        I.ctx.ghost['exit'] = I.ctx.glist('exit') + [args[0]]
        I.raise_('ProcessExit')

    def user_ser(I, f, args, kw):
        if I.ctx.decide(FreshBool('userSerializerFails'), 'user-serializer-raises'):
            I.raise_('ArbitraryError')
        I.ctx.ghost['fileops'] = I.ctx.glist('fileops') + [('write', args[0], ('USER', args[1]))]
    reg = {'BytesIO.getvalue': lambda I, s, a, k: I.ctx.cell(s).fields['value']}
    mod = source.load(SMOD)
    fn, ci = mod.find('Serializer.serialize')
    ext = {'open': opener, 'atomicReplace': atomic, 'atomic_replace.atomicReplace': atomic, 'gzip.GzipFile': gz, 'BytesIO': bytesio, 'io.BytesIO': bytesio, 'pickle.dump': dump,
           'os.fork': fork, 'os._exit': exit_}
    from pyvc.interp import EXC_PARENT
    EXC_PARENT.setdefault('ProcessExit', 'BaseException')
    I = Interp(ctx, registry=reg, externals=ext, hooks={'call:user': user_ser})
    try:
        I.call_funcdef(fn, mod, 'Serializer', ser, [payload, did], {}, None, 'Serializer.serialize')
        outcome = 'ok'
    except PyExc as e:
        outcome = e.typ
    ops = ctx.glist('fileops')
    exits = ctx.glist('exit')
    c1 = ctx.cell(ser)
    pid1 = c1.fields[SF('pid')]
    ctx.prove(outcome in ('ok', 'ProcessExit'), 'C09:O9.2.serialize.no-exception-escapes', info=outcome)
    if ctx.decide(pid != 0, 'busy'):
        ctx.prove(len(ops) == 0 and Eq(pid1, pid) and Eq(c1.fields[SF('currentID')], c.fields[SF('currentID')]), 'C09:O9.3.serialize-ignored-while-busy')
        return
    ctx.prove(Eq(c1.fields[SF('currentID')], did), 'C09:O9.3.id-recorded')
    for op in ops:
        if op[0] in ('open', 'write', 'close'):
            ctx.prove(op[1] != 'dump.bin', 'C09+C06:O9.2.dump-path-only-renamed-onto', info=repr(op[:2]))
    rn = [op for op in ops if op[0] == 'rename']
    if mode == 'memory':
        ctx.prove(len(ops) == 0 and Eq(pid1, -1) and c1.fields[SF('inMemorySerializedData')] == ('GZ', payload) if outcome == 'ok' else True,
                  'C09:O9.2.memory-dump-is-gzip-pickle-of-data')
        return
    in_child = bool(ctx.glist('in_child'))
    if mode == 'fork' and not in_child:
        ctx.prove(len(ops) == 0 and outcome == 'ok', 'C09:O9.2.parent-writes-nothing')
        return
    success = (exits and exits[-1] == 0) if mode == 'fork' else (Eq(pid1, -1) is True or (not is_sym(pid1) and pid1 == -1))
    failure = (exits and exits[-1] == -1) if mode == 'fork' else (not is_sym(pid1) and pid1 == -2)
    ctx.prove(bool(success) != bool(failure), 'C09:O9.3.reports-success-xor-failure', info='pid=%r exits=%r' % (pid1, exits))
    if success:
        ctx.prove(len(rn) == 1 and rn[0][2] == 'dump.bin', 'C09+C06:O9.2.success-only-after-rename-onto-dump')
        if rn:
            k = ops.index(rn[0])
            wr = [o for o in ops[:k] if o[0] == 'write']
            ctx.prove(len(wr) == 1 and wr[0][1] == rn[0][1], 'C09+C06:O9.2.renamed-file-is-the-one-written')
            if wr:
                want = ('GZ', payload) if mode != 'user' else ('USER', payload[1:])
                ctx.prove(wr[0][2] == want, 'C09:O9.2.written-dump-is-the-data-handed-over', info=repr(wr[0][2])[:80])
    else:
        ctx.prove(len(rn) == 0, 'C09+C06:O9.2.failure-never-replaces-dump')


def _mut_ser_no_tmp(fn):
    cnt = 0
    for n in ast.walk(fn):
        if isinstance(n, ast.Assign) and isinstance(n.targets[0], ast.Name) and n.targets[0].id == 'tmpFile':
            n.value = ast.parse('self.__fileName').body[0].value
            cnt += 1
    return cnt


@unit(name='serializer.checkSerializing', relpath=SMOD, qual=['Serializer.checkSerializing'], props=['C09', 'C06'],
      cases=[dict(mode=m) for m in ('memory', 'fork')],
      doc='O9.3: SUCCESS/FAILED reported exactly once per serialize (pid returns to 0), transmissions reset on SUCCESS; NOT_SERIALIZING '
          'when idle; SERIALIZING while the child runs',
      canaries=[('success-keeps-pid', lambda mod: mutate_function(mod, 'Serializer.checkSerializing', _mut_keep_pid), ['O9.3.reported-once'])])
def ser_check_serializing(ctx, mode):
    ser, data, B, pid = mk_ser(ctx, mode != 'memory')
    c = ctx.cell(ser)
    ctx.setcell(ser, c.with_field(SF('useFork'), mode == 'fork').with_field(SF('transmissions'), ctx.alloc(KVDict([(True, NodeV(0), 'tx')]))))
    ctx.assume(And(pid >= -2, pid <= 0) if mode == 'memory' else pid >= 0)

    def waitpid(I, args, kw):
        if I.ctx.decide(FreshBool('waitpidFails'), 'waitpid-raises'):
            I.raise_('OSError')
        done = FreshBool('childDone')
        st = FreshInt('childStatus')
        I.ctx.assume(z3.And(st >= 0, st < 65536))
        I.ctx.track('childStatus', st)
        I.ctx.ghost['wait'] = [(done, st)]
        return (Ite(done, args[0], 0), st)
    # POSIX wait status encoding (T-FORK): low 7 bits = terminating signal (0 if exited), next byte = exit code
    def wexitstatus(I, a, k):
        return (to_z3(a[0]) / 256) % 256

    def wifexited(I, a, k):
        return to_z3(a[0]) % 128 == 0

    def wifsignaled(I, a, k):
        return to_z3(a[0]) % 128 != 0

    def wtermsig(I, a, k):
        return to_z3(a[0]) % 128
    outcome, r, I = run_ser(ctx, ser, 'checkSerializing', [], externals={'os.waitpid': waitpid, 'os.WNOHANG': 1, 'os.WEXITSTATUS': wexitstatus,
                                                                       'os.WIFEXITED': wifexited, 'os.WIFSIGNALED': wifsignaled, 'os.WTERMSIG': wtermsig})
    ctx.prove(outcome == 'ok', 'C09:O9.3.no-exception-escapes', info=outcome)
    if outcome != 'ok':
        return
    state, sid = r
    c1 = ctx.cell(ser)
    pid1 = c1.fields[SF('pid')]
    tx1 = ctx.cell(c1.fields[SF('transmissions')])
    ctx.prove(Iff(Eq(pid, 0), Eq(state, NOT_SERIALIZING)), 'C09+C06:O9.3.idle-iff-not-serializing')
    ctx.prove(Implies(Or(Eq(state, SUCCESS), Eq(state, FAILED)), Eq(pid1, 0)), 'C09+C06:O9.3.reported-once')
    ctx.prove(Implies(Eq(state, SUCCESS), Eq(I.truth_expr(c1.fields[SF('transmissions')]), False)), 'C09:O9.3.transmissions-reset-on-success')
    ctx.prove(Implies(Eq(state, SERIALIZING), Eq(pid1, pid)), 'C09:O9.3.still-serializing-keeps-pid')
    if mode == 'memory':
        ctx.prove(Implies(Eq(state, SUCCESS), pid == -1), 'C09+C06:O9.3.success-only-after-completed-dump')
    else:
        w = ctx.glist('wait')
        if w:
            done, st = w[0]
            ctx.prove(Implies(Eq(state, SUCCESS), And(done, st == 0)), 'C09+C06:O9.3.success-only-after-child-exit-0')


def _mut_keep_pid(fn):
    cnt = 0
    for n in ast.walk(fn):
        body = getattr(n, 'body', None)
        if isinstance(body, list):
            for s in list(body):
                if isinstance(s, ast.Assign) and isinstance(s.targets[0], ast.Attribute) and s.targets[0].attr == '__pid' and len(body) > 1:
                    body.remove(s)
                    cnt += 1
    return cnt


# ------------------------------------------------------------------------------------------------ L-CHUNK
def lemma_chunk():
    """L-CHUNK over the two chunk contracts: sender position t, receiver accumulation acc.  Invariant: acc == dump[:t].
    Step: the chunk at t (dump[t:t+B], clipped) appended to acc gives dump[:t+len]; when the chunk is empty (isLast) t >= len(dump),
    hence acc == dump: the receiver completes exactly with a complete dump, for every B >= 1."""
    import time
    out = []
    D, ACC, ACC2 = z3.Const('D', ARR), z3.Const('ACC', ARR), z3.Const('ACC2', ARR)
    n, t, B, ln, j = z3.Ints('n t B ln j')
    s = z3.Solver()
    s.set('timeout', 20000)
    t0 = time.time()
    s.add(n >= 0, t >= 0, t <= n, B >= 1, ln == z3.If(t + B <= n, B, n - t))
    s.add(z3.ForAll([j], z3.Implies(z3.And(j >= 0, j < t), z3.Select(ACC, j) == z3.Select(D, j))))          # acc == dump[:t]
    s.add(z3.ForAll([j], z3.Select(ACC2, j) == z3.If(j < t, z3.Select(ACC, j), z3.Select(D, t + (j - t)))))  # acc' = acc ++ chunk
    k = z3.Int('k')
    goal = z3.And(z3.Implies(z3.And(k >= 0, k < t + ln), z3.Select(ACC2, k) == z3.Select(D, k)), z3.Implies(ln == 0, t == n))
    s.add(z3.Not(goal))
    r = s.check()
    out.append(dict(id='C09:L-CHUNK.accumulation-is-dump-prefix-and-complete-at-last-chunk', unit='lemma.L-CHUNK', path='lemma',
                    status='discharged' if r == z3.unsat else ('failed' if r == z3.sat else 'unknown'), solver='z3py-%s' % z3.get_version_string(),
                    secs=time.time() - t0, model=None, info=None, line=None))
    return out


@unit(name='serializer.scratch-files', relpath=SMOD, qual=['Serializer.serialize', 'Serializer.setTransmissionData'], props=['C09', 'C06'],
      doc='O9.2 across the two writers of the dump path: the scratch file of the node\'s own serialize() and the scratch file of an incoming '
          'chunked snapshot are different files (and neither is the dump path), so a compaction that runs while a transfer is half received '
          'cannot truncate or rename the file the transfer is still writing - the dump path stays a complete old or new snapshot',
      trusted=['T-FILE', 'T-RENAME'])
def ser_scratch_files(ctx):
    names = {}

    def opener(tag):
        def _open(I, args, kw):
            names.setdefault(tag, []).append((args[0], args[1] if len(args) > 1 else 'r'))
            return I.ctx.alloc(FileObj(args[0], args[1] if len(args) > 1 else 'r'))
        return _open

    def gz(I, args, kw):
        return I.ctx.alloc(GzCtx(kw.get('fileobj')))
    # own dump (file mode, no fork), on an object built by the real constructor
    ser, B = mk_ser_real(ctx, True, False)
    mod = source.load(SMOD)
    ext = {'open': opener('serialize'), 'atomicReplace': lambda I, a, k: None, 'atomic_replace.atomicReplace': lambda I, a, k: None,
           'gzip.GzipFile': gz, 'pickle.dump': lambda I, a, k: None}
    I = Interp(ctx, externals=ext)
    fn, ci = mod.find('Serializer.serialize')
    I.call_funcdef(fn, mod, 'Serializer', ser, [('state', 'e1', 'e0', 'cluster'), 5], {}, None, 'Serializer.serialize')
    # incoming first chunk on an object built the same way
    ser2, B2 = mk_ser_real(ctx, True, False)
    ext2 = dict(ext)
    ext2['open'] = opener('incoming')
    ext2['pickle.to_bytes'] = lambda I, a, k: a[0]
    I2 = Interp(ctx, externals=ext2)
    fn2, ci2 = mod.find('Serializer.setTransmissionData')
    I2.call_funcdef(fn2, mod, 'Serializer', ser2, [(fresh_win(ctx, 'chunk'), True, False)], {}, None, 'Serializer.setTransmissionData')
    a = [n for n, m in names.get('serialize', []) if 'w' in m]
    b = [n for n, m in names.get('incoming', []) if 'w' in m]
    ctx.prove(len(a) == 1 and len(b) == 1, 'C09:O9.2.each-writer-opens-one-scratch-file', info=repr(names))
    if a and b:
        ctx.prove(isinstance(a[0], str) and isinstance(b[0], str) and a[0] != b[0], 'C09+C06:O9.2.scratch-files-of-the-two-writers-are-distinct', info='%r vs %r' % (a[0], b[0]))
        ctx.prove(a[0] != 'dump.bin' and b[0] != 'dump.bin', 'C09+C06:O9.2.dump-path-only-renamed-onto')


@unit(name='serializer.deserialize', relpath=SMOD, qual=['Serializer.deserialize'], props=['C09', 'C06'], cases=[dict(mode=m) for m in ('memory', 'file', 'user')],
      doc='O9.2 (inverse): deserialize reads the stored dump - the in-memory bytes, or the dump path itself (never a scratch file) - through '
          'gzip+pickle (T-GZIP/T-PICKLE: the value handed to serialize), or hands the dump path to the user deserializer and prefixes None')
def ser_deserialize(ctx, mode):
    ser, data, B, pid = mk_ser(ctx, mode != 'memory')
    if mode == 'user':
        ctx.setcell(ser, ctx.cell(ser).with_field(SF('deserializer'), Callable_('user:deserializer')))
    opened = []

    def opener(I, args, kw):
        opened.append((args[0], args[1] if len(args) > 1 else 'r'))
        return I.ctx.alloc(FileObj(args[0], args[1] if len(args) > 1 else 'r'))

    def gz(I, args, kw):
        return I.ctx.alloc(GzCtx(kw.get('fileobj', args[0] if args else None)))

    def bytesio(I, args, kw):
        return I.ctx.alloc(PObj('BytesIO', {'value': args[0] if args else None}))

    def load(I, args, kw):
        g = I.ctx.cell(args[0])
        src = I.ctx.cell(g.target)
        return ('UNGZ', src.name if isinstance(src, FileObj) else src.fields['value'])
    users = []

    def user_deser(I, f, args, kw):
        users.append(tuple(args))
        return ('e1', 'e0', 'cluster')
    mod = source.load(SMOD)
    fn, ci = mod.find('Serializer.deserialize')
    I = Interp(ctx, externals={'open': opener, 'gzip.GzipFile': gz, 'BytesIO': bytesio, 'io.BytesIO': bytesio, 'pickle.load': load},
               hooks={'call:user': user_deser})
    r = I.call_funcdef(fn, mod, 'Serializer', ser, [], {}, None, 'Serializer.deserialize')
    if mode == 'memory':
        ctx.prove(r == ('UNGZ', data) and not opened, 'C09:O9.2.memory-dump-is-read-back')
    elif mode == 'file':
        ctx.prove(r == ('UNGZ', 'dump.bin') and opened == [('dump.bin', 'rb')], 'C09+C06:O9.2.file-dump-read-from-the-dump-path', info=repr(opened))
    else:
        ctx.prove(users == [('dump.bin',)] and r == (None, 'e1', 'e0', 'cluster') and not opened, 'C09:O9.2.user-deserializer-gets-the-dump-path')


@unit(name='serializer.init', relpath=SMOD, qual=['Serializer.__init__'], props=['C09', 'C06'],
      doc='the constructor establishes what the serializer units start from: no dump in progress (pid 0), id 0, no outgoing transfers, no incoming '
          'transfer, no in-memory dump; fork is used only when requested, available and no user serializer is given')
def ser_init(ctx):
    mod = source.load(SMOD)
    fn, ci = mod.find('Serializer.__init__')
    ser = ctx.alloc(PObj('Serializer', {}))
    want_fork, has_fork = FreshBool('tryUseFork'), FreshBool('osHasFork')
    user_ser = Opt(FreshBool('noUserSerializer'), Callable_('user:serializer'))
    I = Interp(ctx, externals={'hasattr': lambda I_, a, k: has_fork})
    I.cur_mod = mod
    B = FreshInt('batch')
    I.call_funcdef(fn, mod, 'Serializer', ser, ['dump.bin', B, want_fork, user_ser, None, None], {}, None, 'Serializer.__init__')
    f = ctx.cell(ser).fields
    ctx.prove(f.get(SF('pid')) == 0 and f.get(SF('currentID')) == 0, 'C09+C06:init.no-dump-in-progress')
    tx = f.get(SF('transmissions'))
    txc = ctx.cell(tx) if isinstance(tx, Ref) else None
    ctx.prove(txc is not None and len(getattr(txc, 'items', None) or getattr(txc, 'entries', None) or []) == 0, 'C09:init.no-outgoing-transfers')
    ctx.prove(f.get(SF('incomingTransmissionFile')) is None and f.get(SF('inMemorySerializedData')) is None, 'C09:init.no-incoming-transfer-no-dump')
    ctx.prove(f.get(SF('fileName')) == 'dump.bin' and f.get(SF('transmissionBatchSize')) is B, 'C09:init.configuration-kept')
    uf = I.truth_expr(f.get(SF('useFork')))
    ctx.prove(Iff(uf, And(want_fork, has_fork, user_ser.isnone)), 'C09+C06:init.fork-only-when-requested-available-and-no-user-serializer')
