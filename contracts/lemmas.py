"""L2 lemmas over the contract clauses (pure solver queries)."""
import time
import z3


def _res(pid, name, r, t0, model=None, info=None):
    return dict(id='%s:%s' % (pid, name), unit='lemma', path='lemma', status='discharged' if r == z3.unsat else ('failed' if r == z3.sat else 'unknown'),
                solver='z3py-%s' % z3.get_version_string(), secs=time.time() - t0, model=model, info=info, line=None)


def lemma_elect():
    """L-ELECT: with the node-local rules proved on the code -
       (R2.single-vote-per-term, R1.vote-changes-only-from-none-or-new-term)  granted_v[t] is write-once,
       (A4.candidate-state)                                                    a candidate of term t has granted_c[t] == c,
       (R3.vote-counted-once, R3.stale-vote-ignored, T-TRANSPORT at-most-once) votes_c <= |{v : granted_v[t] == c}|,
       (R3.leader-only-with-majority)                                          leader_c(t) ==> votes_c > (n+1-1+1)/2 = n/2 ... with the code's
                                                                               n' = len(otherNodes) and test votes > (n'+1)/2, cluster size n'+1 -
       two different nodes cannot both be leader of term t.  Exhaustive over cluster sizes 1..5, unbounded in terms."""
    out = []
    for n in range(1, 6):
        t0 = time.time()
        s = z3.Solver()
        g = [z3.Int('granted_%d' % v) for v in range(n)]      # whom node v voted for in term t (-1 none)
        c1, c2 = z3.Int('c1'), z3.Int('c2')
        votes1, votes2 = z3.Int('votes1'), z3.Int('votes2')
        for v in range(n):
            s.add(g[v] >= -1, g[v] < n)
        s.add(c1 >= 0, c1 < n, c2 >= 0, c2 < n, c1 != c2)
        sup1 = z3.Sum([z3.If(g[v] == c1, 1, 0) for v in range(n)])
        sup2 = z3.Sum([z3.If(g[v] == c2, 1, 0) for v in range(n)])
        s.add(votes1 <= sup1, votes2 <= sup2)
        # majority test of the code: votesCount > (len(otherNodes) + 1) / 2 with len(otherNodes) == n - 1
        s.add(z3.ToReal(votes1) > z3.RealVal(n) / 2, z3.ToReal(votes2) > z3.RealVal(n) / 2)
        r = s.check()
        out.append(_res('C03', 'L-ELECT.two-leaders-in-one-term-impossible.n=%d' % n, r, t0, model=(str(s.model()) if r == z3.sat else None)))
    # the same with the majority test weakened to >= must be refutable (non-vacuity of the lemma)
    t0 = time.time()
    s = z3.Solver()
    n = 4
    g = [z3.Int('granted_%d' % v) for v in range(n)]
    c1, c2 = z3.Int('c1'), z3.Int('c2')
    for v in range(n):
        s.add(g[v] >= -1, g[v] < n)
    s.add(c1 >= 0, c1 < n, c2 >= 0, c2 < n, c1 != c2)
    s.add(z3.Sum([z3.If(g[v] == c1, 1, 0) for v in range(n)]) * 2 >= n, z3.Sum([z3.If(g[v] == c2, 1, 0) for v in range(n)]) * 2 >= n)
    r = s.check()
    out.append(dict(id='C03:L-ELECT.cover.weaker-majority-would-admit-two-leaders', unit='lemma', path='lemma',
                    status='discharged' if r == z3.sat else 'failed', solver='z3py', secs=time.time() - t0, model=None, info=None, line=None))
    return out
