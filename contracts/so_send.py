"""Contracts on the leader send loop __sendAppendEntries (C01 G_AE, C11 O11.2/O11.3, C09 O9.6)."""
import ast
import z3
from pyvc.values import *   # noqa
from pyvc.harness import unit, mutate_function, replace_compare
from pyvc.loops import LoopSpec, loop_table, Sel
from pyvc.ctx import Undecided
from pyvc.interp import _Break, _Continue
from .so_common import *    # noqa
from .so_common import F, _clen, _ctype
from .so_model import Pickled, PickledSlice
from .so_submit import _loop_body
from .so_msg import peer
from .so_tick import LEADER

SEND = 'SyncObj.__sendAppendEntries'


def getTransmissionData_ext(I, selfv, args, kwargs):
    """Serializer.getTransmissionData (contract proved in unit serializer.getTransmissionData): None while a
    dump is being written, on failure to open it or on a read error, else (data, isFirst, isLast)"""
    ctx = I.ctx
    node = I.unwrap(args[0], 'transmission-id')
    tr = ctx.ghost.get('transmitting')

    def set_bit(val):
        if tr is not None and isinstance(node, NodeV):
            ctx.ghost['transmitting'] = [Ite(Eq(node.idx, i), val, b) if is_sym(Eq(node.idx, i)) else (val if Eq(node.idx, i) else b)
                                         for i, b in enumerate(ctx.ghost['transmitting'])]
    ctx.ghost['transmission_calls'] = ctx.glist('transmission_calls') + [node]
    if ctx.decide(FreshBool('dumpBeingWritten'), 'transmission-none'):
        return None                      # __pid != 0: nothing touched
    if ctx.decide(FreshBool('transmissionReadError'), 'transmission-read-error'):
        set_bit(False)                   # open/read error: the transfer state is dropped
        return None
    last = FreshBool('isLastChunk')
    had = Or(*[And(Eq(node.idx, i), b) for i, b in enumerate(tr)]) if tr is not None and isinstance(node, NodeV) else FreshBool('hadTransmission')
    set_bit(Not(last))                   # the last (empty) chunk removes the transfer state
    ctx.ghost['chunks'] = ctx.glist('chunks') + [last]
    ctx.ghost['first_flags'] = ctx.glist('first_flags') + [(had,)]
    # isFirst is true for a new transfer (unit serializer.getTransmissionData, O9.5.isFirst-iff-nothing-transmitted)
    first = FreshBool('isFirstChunk')
    ctx.assume(Implies(Not(had), first))
    return ('chunk-bytes', first, last)


def _chunk_loop_spec(so, ctx):
    """loop #2: `for pos in xrange(0, len(entry), batchSizeBytes)`: per-iteration obligations on the emitted chunk"""
    def inv(I, fr, it):
        return []

    def check(I, fr, it):
        k = it['k']
        if not is_sym(k):
            return []
        out = [m for to, m in I.ctx.glist('outbox') if isinstance(m, PDict) and 'transmission' in m.items]
        if not out:
            return [('O11.3.chunk-emitted', False)]
        m = out[-1].items
        pos = it['x'] - to_z3(fr.locals['batchSizeBytes'])
        B = to_z3(fr.locals['batchSizeBytes'])
        ent = fr.locals['entry']
        L = to_z3(ent.n)
        tag = m['transmission']
        is_last = pos + B >= L
        want = 'start' if None else None
        cl = []
        cl.append(('O11.3.first-chunk-is-start', Iff(pos == 0, tag == 'start') if isinstance(tag, str) else False))
        cl.append(('O11.3.finish-exactly-on-last-chunk', Implies(pos > 0, Iff(is_last, tag == 'finish')) if isinstance(tag, str) else False))
        cl.append(('O11.3.start-is-not-last', Implies(pos == 0, Not(is_last))))
        data = m['data']
        cl.append(('O11.3.chunk-is-the-slice-at-pos', isinstance(data, PickledSlice) and data.p is ent and
                   And(Eq(data.lo, pos), Eq(data.hi, pos + B))))
        cl.append(('G.chunk-carries-term-commit-prev', And(Eq(m['term'], so.get('raftCurrentTerm')), Eq(m['commit_index'], so.get('raftCommitIndex')))))
        return cl
    return LoopSpec('C11+C01:chunk-loop', inv, check=check)


@unit(name='sendAppendEntries', relpath=MOD, qual=[SEND, 'SyncObj.__getPrevLogIndexTerm'], props=['C01', 'C11', 'C09', 'C18'],
      kind='body of the per-node `while` loop of __sendAppendEntries from an arbitrary leader state satisfying INV '
           '(loop invariant: nextNodeIndex == raftNextIndex[node])',
      doc='G_AE: every append_entries put on the wire carries the leader term and commit index, the true predecessor '
          '(prevLogIdx, prevLogTerm) and a contiguous non-empty batch starting at nextIndex; nextIndex advances to the last '
          'sent index + 1; a single big entry is split into start/process*/finish chunks with finish exactly on the last one; '
          'the snapshot branch resets nextIndex to the entry after the snapshot point',
      assumptions=['universe', 'T-PICKLE: len(dumps(entry)) > len(command)', 'A-PROTO-4: nextIndex <= first journal index only for a compacted journal (>= 2 entries)'], trusted=['T-TRANSPORT', 'T-PICKLE'],
      canaries=[
          ('finish-gt', lambda mod: mutate_function(mod, SEND, lambda fn: replace_compare(
              fn, lambda n: isinstance(n.left, ast.BinOp) and any(isinstance(x, ast.Name) and x.id == 'pos' for x in ast.walk(n.left)), ast.GtE, ast.Gt, 0)),
           ['chunk-loop.step.O11.3.finish-exactly-on-last-chunk']),
          ('stale-commit', lambda mod: mutate_function(mod, SEND, _mut_stale_prev), ['G.prev-is-true-predecessor']),
      ])
def send_append_entries(ctx):
    so = SO(ctx, UNIVERSE())
    so.assume_inv()
    ctx.assume(so.get('raftState') == LEADER)
    node = peer(ctx, so)
    U = so.U
    voters, obs, conn = so.cell('otherNodes').bits, so.cell('readonlyNodes').bits, so.cell('connectedNodes').bits
    nx = so.cell('raftNextIndex')
    nni = I_select(nx, node)
    # loop invariant of the per-node while loop (established by the `if node not in connectedNodes: continue` guard in front of it,
    # re-established below): the node is connected, or - after a send found the connection dead inside the chunk loop - its
    # nextIndex is beyond the snapshot branch
    ctx.assume(Or(*[And(Eq(node.idx, i), Or(voters[i], obs[i]), Or(conn[i], nni > to_z3(so.log().first))) for i in range(U)]))
    # A-PROTO-4: a follower's nextIndex is at or below the first journal index only after a compaction, and a compacted
    # journal holds at least the two entries of its snapshot point
    ctx.assume(Implies(nni <= to_z3(so.log().first), to_z3(so.log().n) >= 2))
    # I10 (ghost): leader-side transfer state exists only for nodes that have been connected ever since it was created;
    # loop invariant of the per-node while loop: the node is connected, or its nextIndex is beyond the snapshot branch
    tr0 = [FreshBool('transmitting%d' % i) for i in range(U + 1)]
    ctx.assume(And(*[Implies(tr0[i], conn[i]) for i in range(U)]))
    ctx.assume(Not(tr0[U]))
    ctx.ghost['transmitting'] = list(tr0)
    old = so.snapshot()
    olog = old.get('raftLog')
    loop = _loop_body(so.mod, SEND, 1)
    if not isinstance(loop, ast.While):
        raise Undecided('loop #1 of __sendAppendEntries is not the per-node while loop any more')
    loops = {SEND: loop_table(so.mod, SEND, {Sel('for', header=('range',), body=('transmission',)): _chunk_loop_spec(so, ctx)})}
    reg = dict(SUMMARIES)
    del reg['SyncObj.__sendAppendEntries']
    reg['Serializer.getTransmissionData'] = getTransmissionData_ext
    I = make_interp(ctx, so, registry=reg, loops=loops)
    B = so.conf('appendEntriesBatchSizeBytes')
    loc = {'node': node, 'nextNodeIndex': nni, 'sendSingle': FreshBool('sendSingle'), 'sendingSerialized': FreshBool('sendingSerialized'),
           'batchSizeBytes': B, 'startTime': FreshReal('startTime')}
    left_loop = False
    try:
        kind, v, fr = run_region(I, so, SEND, loop.body, loc, loop=loop)
    except (_Break, _Continue) as e:
        kind, v = 'ok', None
        left_loop = isinstance(e, _Break)
    if kind == 'not-entered':
        return          # the loop test is false for this state: no round happens
    ctx.prove(kind == 'ok', 'C11+C01+C09:O11.5.send-loop.no-exception', info=getattr(v, 'typ', None))
    if kind != 'ok':
        return
    first, last = to_z3(olog.first), olog.last_idx()
    term, commit = old.get('raftCurrentTerm'), old.get('raftCommitIndex')
    out = [(to, m) for to, m in ctx.glist('outbox') if isinstance(m, PDict)]
    nx1 = I_select(so.cell('raftNextIndex'), node)
    ctx.prove(len(out) >= 1 or len(ctx.glist('chunk_iters')) > 0 or True, 'C01:send-loop.progress')
    for to, m in out:
        it = m.items
        ctx.prove(And(Eq(to, node), it.get('type') == 'append_entries', Eq(it['term'], term), Eq(it['commit_index'], commit)),
                  'C01+C04:G.append_entries-carries-term-and-commit')
        if 'prevLogIdx' in it:
            ctx.prove(nni > first, 'C01:G.entries-branch-only-above-first')
            pi, pt = it['prevLogIdx'], it['prevLogTerm']
            inlog = And(nni - 1 >= first, nni - 1 <= last)
            ctx.prove(Implies(inlog, And(Eq(pi, nni - 1), Eq(pt, olog.term_at(nni - 1)))), 'C01+C04:G.prev-is-true-predecessor')
            if 'entries' in it:
                E = it['entries']
                Ec = as_slist(ctx.cell(E)) if isinstance(E, Ref) else None
                en = Ec.n
                ctx.prove(Iff(nni <= last, to_z3(en) >= 1), 'C11+C01:O11.2.batch-non-empty-iff-behind')
                j = FreshInt('j')
                if is_sym(en) or en > 0:
                    ctx.assume(And(j >= 0, j < to_z3(en)))
                    e = Ec.get(j)
                    ctx.prove(And(e[1] == nni + j, e[2] == olog.term_at(nni + j), Eq(e[0].id, olog.cmd_at(nni + j)), nni + j <= last),
                              'C01+C04:G.entries-are-the-log-suffix-at-nextIndex')
                ctx.prove(Implies(nni <= last, nx1 == nni + to_z3(en)), 'C01:G.nextIndex-advances-past-sent-batch')
        elif 'serialized' in it:
            ctx.prove(nni <= first, 'C09+C01:G.snapshot-only-when-follower-behind-log-start')
    # O9.7 / I10 kept by the send loop: transfer state is created only for a connected node and is gone again whenever the
    # connection is found dead during a send, so an interrupted transfer restarts with its first chunk
    cn1 = so.cell('connectedNodes').bits
    tr1 = ctx.ghost['transmitting']
    for i in range(U):
        ctx.prove(Implies(tr1[i], cn1[i]), 'C09:O9.7.transfer-state-only-for-connected-nodes')
    for nd in ctx.glist('transmission_calls'):
        ctx.prove(isinstance(nd, NodeV) and Eq(nd.idx, node.idx), 'C09:O9.7.transfer-keyed-by-the-receiving-node')
    if not left_loop:
        still_ = Or(*[And(Eq(node.idx, i), cn1[i]) for i in range(U)])
        ctx.prove(Or(still_, nx1 > first), 'C09:O9.7.loop-invariant.connected-or-beyond-snapshot-branch')
    chunks = ctx.glist('chunks')
    if chunks:
        still = Or(*[And(Eq(node.idx, i), so.cell('connectedNodes').bits[i]) for i in range(U)])
        ctx.prove(Implies(And(chunks[-1], still), nx1 == first + 2), 'C09+C01:O9.6.nextIndex-after-snapshot')
    # frame: only nextIndex[node] may change among the maps
    n0, n1 = old.get('raftNextIndex'), so.cell('raftNextIndex')
    for i in range(U):
        ctx.prove(Implies(Not(Eq(node.idx, i)), And(Iff(n1.pres[i], n0.pres[i]), Implies(n0.pres[i], Eq(n1.vals[i], n0.vals[i])))),
                  'C01:send-loop.other-nextIndex-untouched')
    for n, b in field_unchanged(old, so, ['raftLog', 'raftCommitIndex', 'raftCurrentTerm', 'raftState', 'raftMatchIndex', 'otherNodes',
                                          'raftLastApplied', 'votedForNodeId', 'lastResponseTime']):
        ctx.prove(b, 'C01+C04+C03+C20:O20.2.send-loop.frame.%s' % n)


@unit(name='sendAppendEntries.per-node-guard', relpath=MOD, qual=[SEND], props=['C09'],
      kind='statements of the per-node `for` loop of __sendAppendEntries in front of the `while` loop, for an arbitrary member or observer',
      doc='O9.7: establishes the invariant of the per-node send loop - the loop is entered only for a connected node, with '
          'nextNodeIndex == raftNextIndex[node], sendSingle set and sendingSerialized clear; a node that is not connected gets nothing sent '
          'and keeps no snapshot transfer state (I10 kept)',
      trusted=['T-TRANSPORT'])
def send_guard(ctx):
    so = SO(ctx, UNIVERSE())
    so.assume_inv()
    ctx.assume(so.get('raftState') == LEADER)
    node = peer(ctx, so)
    U = so.U
    voters, obs, conn = so.cell('otherNodes').bits, so.cell('readonlyNodes').bits, so.cell('connectedNodes').bits
    ctx.assume(Or(*[And(Eq(node.idx, i), Or(voters[i], obs[i])) for i in range(U)]))
    tr0 = [FreshBool('transmitting%d' % i) for i in range(U + 1)]
    ctx.assume(And(*[Implies(tr0[i], conn[i]) for i in range(U)]))
    ctx.assume(Not(tr0[U]))
    ctx.ghost['transmitting'] = list(tr0)
    outer = _loop_body(so.mod, SEND, 0)
    if not isinstance(outer, ast.For) or not outer.body or not isinstance(outer.body[-1], ast.While):
        raise Undecided('loop #0 of __sendAppendEntries is not the per-node for loop ending in the send loop any more')
    old = so.snapshot()
    I = make_interp(ctx, so, registry=dict(SUMMARIES))
    skipped = False
    fr = None
    try:
        kind, v, fr = run_region(I, so, SEND, outer.body[:-1], {'node': node})
    except _Continue:
        kind, v, skipped = 'ok', None, True
    ctx.prove(kind == 'ok', 'C09:O9.7.guard.no-exception', info=getattr(v, 'typ', None))
    if kind != 'ok':
        return
    isconn = Or(*[And(Eq(node.idx, i), conn[i]) for i in range(U)])
    ctx.prove(Iff(isconn, True) if not skipped else Not(isconn), 'C09+C01:O9.7.send-loop-entered-iff-node-connected')
    ctx.prove(len(ctx.glist('outbox')) == 0, 'C09:O9.7.guard.nothing-sent-before-the-loop')
    tr1 = ctx.ghost['transmitting']
    cn1 = so.cell('connectedNodes').bits
    for i in range(U):
        ctx.prove(Implies(tr1[i], cn1[i]), 'C09:O9.7.transfer-state-only-for-connected-nodes')
        ctx.prove(Implies(And(tr0[i], Not(Eq(node.idx, i))), tr1[i]), 'C09:O9.7.guard.other-transfers-untouched')
    if not skipped:
        nni = I_select(old.get('raftNextIndex'), node)
        ctx.prove(Eq(fr.locals.get('nextNodeIndex'), nni), 'C09+C01:O9.7.guard.nextNodeIndex-is-the-node\'s-nextIndex')
        ctx.prove(fr.locals.get('sendSingle') is True and fr.locals.get('sendingSerialized') is False, 'C09:O9.7.guard.flags-initialised')
    for n, b in field_unchanged(old, so, ['raftLog', 'raftCommitIndex', 'raftCurrentTerm', 'raftState', 'raftMatchIndex', 'raftNextIndex', 'otherNodes',
                                          'connectedNodes']):
        ctx.prove(b, 'C09+C01:O9.7.guard.frame.%s' % n)


def I_select(nm, node):
    cands = [(i, v) for i, v in enumerate(nm.vals)]
    r = cands[-1][1]
    for i, v in reversed(cands[:-1]):
        r = ite_val(Eq(node.idx, i), v, r)
    return r


def _mut_stale_prev(fn):
    cnt = 0
    for n in ast.walk(fn):
        if isinstance(n, ast.Call) and isinstance(n.func, ast.Attribute) and n.func.attr == '__getPrevLogIndexTerm':
            n.args = [ast.BinOp(left=n.args[0], op=ast.Sub(), right=ast.Constant(value=1))]
            cnt += 1
    return cnt
