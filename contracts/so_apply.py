"""Contracts on the apply path: __applyLogEntries, __doApplyCommand (C01 O1.2/O1.3, C02 O2.4, C12, C17 O17.3/O17.5)."""
import ast
import z3
from pyvc.values import *   # noqa
from pyvc.harness import unit, mutate_function, replace_compare
from pyvc.loops import LoopSpec, loop_table, Sel
from pyvc.ctx import Undecided
from .so_common import *    # noqa
from .so_common import F, _clen, _ctype
from .so_model import _ver, _rkind, _rnode, _shape, _fid, ArgsV, KwV
from .so_tick import LEADER, CAND, FOLL

APPLY = 'SyncObj.__applyLogEntries'
DOAPPLY = 'SyncObj.__doApplyCommand'


def onSetCodeVersion_summary(I, selfv, args, kwargs):
    """__onSetCodeVersion(v): the name table becomes VT(v) (proved on the body in unit onSetCodeVersion)"""
    ctx = I.ctx
    so = I.hooks['so']
    c = ctx.cell(so.selfref)
    ctx.setcell(so.selfref, c.with_field(F('currentVersionFuncNames'), ('VT', args[0])))
    ctx.ghost['setver'] = ctx.glist('setver') + [args[0]]
    return None


def doChangeCluster_summary(I, selfv, args, kwargs):
    """__doChangeCluster(request, reverse=False): exact effect on the member set and the leader maps (O10.2),
    proved on the body in unit doChangeCluster"""
    ctx = I.ctx
    so = I.hooks['so']
    req = args[0]
    reverse = kwargs.get('reverse', args[1] if len(args) > 1 else False)
    rc = ctx.cell(req)
    kind, nid, node = rc.items[0], rc.items[1], rc.items[2]
    ctx.ghost['membership'] = ctx.glist('membership') + [(kind, node, reverse)]
    if kind not in ('add', 'rem'):
        return False
    adding = (kind == 'add') != bool(reverse) if isinstance(reverse, bool) else None
    if adding is None:
        raise Undecided('symbolic reverse flag')
    voters = so.cell('otherNodes')
    U = so.U
    isself = Eq(node.idx, U)
    member = Or(*[And(Eq(node.idx, i), voters.bits[i]) for i in range(U)])
    if adding:
        ok = And(Not(isself), Not(member))
        if not (ctx.decide(ok, 'can-add') if is_sym(ok) else ok):
            return False
        hit = [Eq(node.idx, i) for i in range(U)] + [False]
        ctx.setcell(so.get('otherNodes'), NSet([Or(b, h) for b, h in zip(voters.bits, hit)]))
        nx, mt, lr = so.cell('raftNextIndex'), so.cell('raftMatchIndex'), so.cell('lastResponseTime')
        last1 = so.log().last_idx() + 1
        ctx.setcell(so.get('raftNextIndex'), NMap([Or(p, h) for p, h in zip(nx.pres, hit)], [Ite(h, last1, v) for h, v in zip(hit, nx.vals)]))
        ctx.setcell(so.get('raftMatchIndex'), NMap([Or(p, h) for p, h in zip(mt.pres, hit)], [Ite(h, 0, v) for h, v in zip(hit, mt.vals)]))
        isl = so.get('raftState') == 2
        now = clock(I)
        ctx.setcell(so.get('lastResponseTime'), NMap([Or(p, And(isl, h)) for p, h in zip(lr.pres, hit)],
                                                      [Ite(And(isl, h), now, v) for h, v in zip(hit, lr.vals)]))
        return True
    ok = And(Not(isself), member)
    if not (ctx.decide(ok, 'can-remove') if is_sym(ok) else ok):
        return False
    hit = [Eq(node.idx, i) for i in range(U)] + [False]
    ctx.setcell(so.get('otherNodes'), NSet([And(b, Not(h)) for b, h in zip(voters.bits, hit)]))
    nx, mt = so.cell('raftNextIndex'), so.cell('raftMatchIndex')
    ctx.setcell(so.get('raftNextIndex'), NMap([And(p, Not(h)) for p, h in zip(nx.pres, hit)], nx.vals))
    ctx.setcell(so.get('raftMatchIndex'), NMap([And(p, Not(h)) for p, h in zip(mt.pres, hit)], mt.vals))
    return True


APPLY_REG = dict(SUMMARIES)
APPLY_REG['SyncObj.__onSetCodeVersion'] = onSetCodeVersion_summary
APPLY_REG['SyncObj.__doChangeCluster'] = doChangeCluster_summary


def _apply_loop_spec(so, old):
    a0 = old.get('raftLastApplied')

    def inv(I, fr, it):
        return [('applied-is-start-plus-iterations', so.get('raftLastApplied') == a0 + it['k'])]

    def havoc(I, fr):
        # state the body may change through callees: member set / maps (membership entries), code version, name table,
        # the subscriber map (pop); the journal itself is never written by the apply loop (checked by the frame clause)
        ctx = I.ctx
        from pyvc.loops import havoc_like
        for nm in ('otherNodes', 'raftNextIndex', 'raftMatchIndex', 'lastResponseTime'):
            havoc_like(ctx, so.get(nm), nm)
        v = so.cell('otherNodes')
        ctx.setcell(so.get('otherNodes'), NSet(v.bits[:so.U] + [False]))
        c = ctx.cell(so.selfref)
        c = c.with_field(F('enabledCodeVersion'), FreshInt('enabledVer'))
        c = c.with_field(F('currentVersionFuncNames'), ('VT', FreshInt('tableVer')))
        ctx.setcell(so.selfref, c)
        wc = so.cell('commandsWaitingCommit')
        # earlier iterations popped the keys below the current index; nothing is known about them any more and
        # nothing about later keys changed
        ctx.ghost['cb'] = []
        ctx.ghost['applied'] = []
        ctx.ghost['membership'] = []
        ctx.ghost['setver'] = []
    return LoopSpec('C01+C02+C12+C17:O1.2.apply-loop', inv, havoc=havoc)


def _check_iteration(I, fr, so, old, entry, tag):
    """obligations on one arbitrary iteration of the apply loop, evaluated at its end"""


@unit(name='applyLogEntries', relpath=MOD, qual=[APPLY, DOAPPLY], props=['C01', 'C02', 'C12', 'C17', 'C04'],
      doc='O1.2/R11: the apply loop executes exactly log[applied+1..applied\'] in order, applied\' <= commit; O2.4: subscribers '
          'of an index are popped and each invoked exactly once, SUCCESS with this execution\'s result iff the terms agree; '
          'C12: a raising method does not stop the loop; O17.5: an unsupported VERSION entry stops the batch',
      assumptions=['A-USERCODE', 'universe', 'A-I2: the applied position lies inside the journal (first <= lastApplied <= last); see unit tryLogCompaction'], trusted=['T-PICKLE'],
      canaries=[
          ('applied-every-second', lambda mod: mutate_function(mod, APPLY, _mut_applied_plus_two), ['O1.2.apply-loop.step.applied-is-start-plus-iterations']),
          ('success-term-le', lambda mod: mutate_function(mod, APPLY, lambda fn: replace_compare(
              fn, lambda n: isinstance(n.left, ast.Name) and n.left.id == 'subscribeTermID', ast.Eq, ast.LtE, 0)), ['O2.4.callback-outcome']),
      ])
def apply_log_entries(ctx):
    so = SO(ctx, UNIVERSE())
    so.assume_inv()
    a0, c0 = so.get('raftLastApplied'), so.get('raftCommitIndex')
    log0 = so.log()
    # I2: the applied position lies inside the journal (established by __init__/__loadDumpFile, kept by every unit)
    ctx.assume(And(a0 >= to_z3(log0.first), a0 <= log0.last_idx()))
    old = so.snapshot()
    loops = {APPLY: loop_table(so.mod, APPLY, {Sel('for', header=('entries',), body=('__doApplyCommand',)): _apply_loop_spec(so, old)})}
    it_obs = []

    def after_method(I, f, args, kw, orig=user_method):
        return orig(I, f, args, kw)
    I = make_interp(ctx, so, registry=APPLY_REG, inline={DOAPPLY}, loops=loops)
    # observe the loop body: obligations at the end of the arbitrary iteration are attached through the loop's check hook
    spec = loops[APPLY][0]

    def check(I_, fr, it):
        out = []
        k = it['k']
        if not is_sym(k) or 'entry' not in fr.locals or fr.locals['entry'] is None:
            return out
        km1 = k - 1
        ent = fr.locals.get('entry')
        if not isinstance(ent, tuple):
            return out
        idx = ent[1]
        app = ctx.glist('applied')
        cbs = ctx.glist('cb')
        out.append(('entry-is-next-index', idx == a0 + km1 + 1))
        out.append(('at-most-one-method-call', len(app) <= 1))
        cid = to_z3(ent[0].id)
        if app:
            out.append(('method-of-this-entry', And(_ctype(cid) == 0, Eq(app[0][0], _fid(cid)))))
            out.append(('called-with-doApply', app[0][2].get('_doApply') is True))
        out.append(('regular-command-executes-method', Implies(_ctype(cid) == 0, len(app) == 1)))
        # O2.4 callbacks of this index
        subs = old.get('commandsWaitingCommit').lookup(I_, idx)
        for g, (t, cb) in subs:
            fired = [(f, a) for f, a in cbs if f.tag == cb.tag]
            want_success = Eq(t, ent[2])
            for f, a in fired:
                res_ok = True
                if app:
                    res_ok = Eq(a[0], Opaque('result', app[0][3])) if isinstance(a[0], Opaque) else (a[0] is None)
                out.append(('callback-outcome', And(g, Ite(want_success, And(Eq(a[1], 0), (res_ok if isinstance(a[0], Opaque) or a[0] is None else False)),
                                                             And(a[0] is None, Eq(a[1], 3))))))
            out.append(('subscriber-fired-exactly-once', Implies(g, len(fired) == 1)))
            out.append(('absent-subscriber-not-fired', Implies(Not(g), len(fired) == 0) if len(fired) else True))
        return [('O2.4.' + a if a.startswith(('callback', 'subscriber', 'absent')) else 'O1.2.' + a, b) for a, b in out]
    spec.check = check
    spec.name = 'C01+C02+C12+C17:O1.2.apply-loop'
    kind, v = run_method(I, so, APPLY, [])
    ctx.prove(kind == 'ok', 'C12+C01+C02:O12.no-exception-escapes-apply-loop', info=getattr(v, 'typ', None))
    if kind != 'ok':
        return
    a1 = so.get('raftLastApplied')
    ctx.prove(And(a1 >= a0, a1 <= Max(c0, a0)), 'C01+C04:R11.applied-monotone-and-within-commit')
    ctx.prove(so.get('raftCommitIndex') == c0, 'C04+C01:R11.commit-untouched')
    ctx.prove(Implies(c0 <= log0.last_idx(), And(a1 >= to_z3(log0.first), a1 <= log0.last_idx())), 'C01+C04:I2.applied-within-journal-kept-by-the-apply-loop')
    ctx.prove(log_same(old.get('raftLog'), so.log()), 'C01:R11.journal-untouched')
    # O17.5 / C12 progress: the loop ends either at the commit index or in front of an unsupported VERSION entry
    stopped_at = a1 + 1
    lg = so.log()
    unsupported = And(lg.has(stopped_at), _ctype(lg.cmd_at(stopped_at)) == 3, _ver(lg.cmd_at(stopped_at)) > so.get('selfCodeVersion'))
    ctx.prove(Implies(And(c0 > a0, c0 <= lg.last_idx()), Or(a1 == c0, unsupported)), 'C12+C17+C01:O17.5.stops-only-at-commit-or-unsupported-version')


def _mut_applied_plus_two(fn):
    cnt = 0
    for n in ast.walk(fn):
        if isinstance(n, ast.AugAssign) and isinstance(n.target, ast.Attribute) and n.target.attr == '__raftLastApplied':
            n.value = ast.Constant(value=2)
            cnt += 1
    return cnt


@unit(name='doApplyCommand', relpath=MOD, qual=[DOAPPLY], props=['C01', 'C17', 'C10', 'C11'],
      doc='O1.3: a REGULAR command executes exactly _idToMethod[funcID](*args, _doApply=True, **kwargs); NO_OP/MEMBERSHIP/VERSION '
          'execute no user method; O17.3: VERSION raises the unsupported-version error and changes nothing if newer than the '
          'own code, else enables it and rebuilds the name table for that version',
      assumptions=['A-USERCODE', 'A-CMD: commands are non-empty'], trusted=['T-PICKLE'],
      canaries=[
          ('version-check-le', lambda mod: mutate_function(mod, DOAPPLY, lambda fn: replace_compare(
              fn, lambda n: isinstance(n.left, ast.Attribute) and n.left.attr == '__selfCodeVersion', ast.Lt, ast.LtE, 0)), ['O17.3.version-enabled', 'O17.3.raises-only-for-newer-version']),
          ('table-for-old-version', lambda mod: mutate_function(mod, DOAPPLY, _mut_table_old_version), ['O17.3.name-table-for-new-version']),
      ])
def do_apply_command(ctx):
    so = SO(ctx, UNIVERSE())
    so.assume_inv()
    cid = FreshInt('cmd')
    ctx.track('cmd.type', _ctype(cid))
    ctx.track('cmd.ver', _ver(cid))
    old = so.snapshot()
    I = make_interp(ctx, so, registry=APPLY_REG, hooks={'method_may_raise': False})
    kind, v = run_method(I, so, DOAPPLY, [CmdV(cid)])
    t = _ctype(cid)
    app = ctx.glist('applied')
    cbs = ctx.glist('cb')
    sv = so.get('selfCodeVersion')
    ev0, ev1 = old.get('enabledCodeVersion'), so.get('enabledCodeVersion')
    if kind == 'raise':
        ctx.prove(v.typ == 'SyncObjExceptionWrongVer', 'C17+C01:O17.3.only-unsupported-version-raises', info=v.typ)
        ctx.prove(And(t == 3, _ver(cid) > sv), 'C17:O17.3.raises-only-for-newer-version')
        ctx.prove(And(ev1 == ev0, len(app) == 0, len(ctx.glist('setver')) == 0), 'C17:O17.3.unsupported-version-changes-nothing')
        return
    ctx.prove(Implies(t == 3, _ver(cid) <= sv), 'C17:O17.3.supported-only')
    if ctx.decide(t == 3, 'is-version'):
        ctx.prove(ev1 == _ver(cid), 'C17:O17.3.version-enabled')
        sets = ctx.glist('setver')
        ctx.prove(And(len(sets) == 1, Eq(sets[0], _ver(cid)) if sets else False), 'C17:O17.3.name-table-for-new-version')
        ctx.prove(len(app) == 0, 'C17+C01:O1.3.version-entry-runs-no-user-method')
        vc = [(f, a) for f, a in cbs if f.tag == 'user:onCodeVersionChanged']
        has = Not(ctx.cell(so.confref).fields['onCodeVersionChanged'].isnone)
        ctx.prove(Implies(has, len(vc) == 1) if len(vc) != 1 else True, 'C17:O17.3.version-callback-once')
        for f, a in vc:
            ctx.prove(And(Eq(a[0], ev0), Eq(a[1], _ver(cid))), 'C17:O17.3.version-callback-old-new')
        return
    ctx.prove(ev1 == ev0, 'C17:O17.3.other-commands-keep-version')
    if ctx.decide(t == 0, 'is-regular'):
        ctx.prove(len(app) == 1, 'C01+C11:O1.3.regular-runs-exactly-one-method')
        if app:
            fid, args, kw, rid = app[0]
            ctx.prove(Eq(fid, _fid(cid)), 'C01+C11:O1.3.method-is-idToMethod-of-funcID')
            ctx.prove(kw.get('_doApply') is True, 'C01+C11:O1.3.doApply-flag')
            sh = _shape(cid)
            nargs = [a for a in args if isinstance(a, ArgsV)]
            ctx.prove(Implies(sh >= 1, len(nargs) == 1 and nargs[0].cid is cid or z3.eq(nargs[0].cid, cid)) if nargs else (sh == 0), 'C11:O11.1.args-forwarded')
            ctx.prove(Iff(sh == 2, '**' in kw), 'C11:O11.1.kwargs-forwarded')
            ctx.prove(Eq(v, Opaque('result', rid)), 'C02+C01:O1.3.returns-method-result')
    else:
        ctx.prove(len(app) == 0, 'C01:O1.3.non-regular-runs-no-user-method')
        ctx.prove(v is None, 'C01:O1.3.non-regular-returns-none')
        mem = ctx.glist('membership')
        ctx.prove(Implies(t != 2, len(mem) == 0) if mem else True, 'C10:O10.4.membership-only-for-membership-entries')
        # O10.4: a committed membership entry is (re-)applied whenever it is executed - after a restart this is the only place where
        # entries loaded from the journal take effect, and for entries already applied at append time __doChangeCluster is idempotent
        ctx.prove(Implies(t == 2, len(mem) == 1) if len(mem) != 1 else True, 'C10:O10.4.committed-membership-entry-applied')
        for kind_, node_, rev_ in mem:
            ctx.prove(rev_ is False, 'C10:O10.4.committed-membership-entry-applied-forward')
            ctx.prove(Eq(node_.idx, _rnode(cid)) if hasattr(node_, 'idx') else False, 'C10:O10.4.applied-request-is-the-entry-payload')
    ctx.prove(log_same(old.get('raftLog'), so.log()), 'C01:O1.3.journal-untouched')
    for n, b in field_unchanged(old, so, ['raftCommitIndex', 'raftLastApplied', 'raftCurrentTerm']):
        ctx.prove(b, 'C01+C04:O1.3.frame.%s' % n)


def _mut_table_old_version(fn):
    cnt = 0
    for n in ast.walk(fn):
        if isinstance(n, ast.Call) and isinstance(n.func, ast.Attribute) and n.func.attr == '__onSetCodeVersion':
            n.args = [ast.Name(id='oldVer', ctx=ast.Load())]
            cnt += 1
    return cnt
