"""Contracts on the submission path (C02): FastQueue, _applyCommand, _checkCommandsToApply, apply_command(_response),
__onLeaderChanged, __callErrCallback."""
import ast
import z3
from pyvc.values import *   # noqa
from pyvc.harness import unit, mutate_function, replace_compare
from pyvc.loops import LoopSpec, loop_table
from pyvc.ctx import Undecided
from pyvc import source
from .so_common import *    # noqa
from .so_common import F, _clen, _ctype
from .so_apply import APPLY_REG
from .so_msg import HANDLER, mk_msg, sent, peer, common_frame, INL
from .so_tick import LEADER, CAND, FOLL

FQ = 'pysyncobj/fast_queue.py'
CHECK = 'SyncObj._checkCommandsToApply'


# ------------------------------------------------------------------------------------------ FastQueue
def _mkqueue(ctx, items, maxsize):
    q = ctx.alloc(PList(items))
    return ctx.alloc(PObj('FastQueue', {'_FastQueue__queue': q, '_FastQueue__lock': ctx.alloc(PObj('Lock', {})),
                                        '_FastQueue__maxSize': maxsize})), q


@unit(name='FastQueue', relpath=FQ, qual=['FastQueue.put_nowait', 'FastQueue.get_nowait'], props=['C02'],
      cases=[dict(n=n) for n in range(0, 4)],
      doc='O2.1: put appends or raises Full leaving the queue unchanged; get pops the head or raises Empty',
      assumptions=['sequential execution under the queue lock (C19 not claimed)'])
def fast_queue(ctx, n):
    from pyvc.interp import Interp, PyExc
    mod = source.load(FQ)
    items = [Opaque('item', FreshInt('item%d' % i)) for i in range(n)]
    mx = FreshInt('maxSize')
    ctx.track('maxSize', mx)
    qref, lst = _mkqueue(ctx, items, mx)
    I = Interp(ctx, inline={'FastQueue.put_nowait', 'FastQueue.get_nowait'}, externals={'deque': None})
    x = Opaque('item', FreshInt('new'))
    fn, ci = mod.find('FastQueue.put_nowait')
    try:
        I.call_funcdef(fn, mod, 'FastQueue', qref, [x], {}, None, 'FastQueue.put_nowait')
        outcome = 'ok'
    except PyExc as e:
        outcome = e.typ
    after = ctx.cell(lst).items
    if outcome == 'ok':
        ctx.prove(len(after) == n + 1 and all(a is b for a, b in zip(after, items + [x])), 'C02:O2.1.put-appends-at-tail')
    else:
        ctx.prove(outcome == 'Full', 'C02:O2.1.put-raises-only-Full', info=outcome)
        ctx.prove(len(after) == n and all(a is b for a, b in zip(after, items)), 'C02:O2.1.full-leaves-queue')
        ctx.prove(n > mx, 'C02:O2.1.full-only-beyond-limit')
    # get on a fresh copy
    qref2, lst2 = _mkqueue(ctx, items, mx)
    fn, ci = mod.find('FastQueue.get_nowait')
    try:
        r = I.call_funcdef(fn, mod, 'FastQueue', qref2, [], {}, None, 'FastQueue.get_nowait')
        outcome = 'ok'
    except PyExc as e:
        outcome = e.typ
    after = ctx.cell(lst2).items
    if n == 0:
        ctx.prove(outcome == 'Empty', 'C02:O2.1.get-on-empty-raises-Empty', info=outcome)
    else:
        ctx.prove(outcome == 'ok' and r is items[0] and len(after) == n - 1 and all(a is b for a, b in zip(after, items[1:])),
                  'C02:O2.1.get-pops-head-fifo')


# ------------------------------------------------------------------------------------------ queue summaries for SyncObj units
def put_nowait_summary(I, selfv, args, kwargs):
    """FastQueue.put_nowait (proved in unit FastQueue): appends, or raises Full and changes nothing"""
    ctx = I.ctx
    if ctx.decide(FreshBool('queueFull'), 'queue-full'):
        I.raise_('Full')
    ctx.ghost['enqueued'] = ctx.glist('enqueued') + [args[0]]
    return None


def callback_shapes(ctx, so, name='cb'):
    """the three shapes a queued callback can have: None, a user callable, (requestNode, requestID)"""
    return [('none', None), ('user', Callable_('user:' + name)), ('forwarded', (node_in_universe(ctx, name + 'Node', so.U), FreshInt(name + 'ReqId')))]


@unit(name='applyCommand', relpath=MOD, qual=['SyncObj._applyCommand', 'SyncObj.__callErrCallback'], props=['C02'],
      cases=[dict(shape=s, typed=t) for s in (0, 1, 2) for t in (False, True)],
      doc='O2.2: a submission is enqueued xor reported QUEUE_FULL exactly once, never both',
      canaries=[('swallow-full', lambda mod: mutate_function(mod, 'SyncObj._applyCommand', _mut_swallow_full), ['O2.2.full-reported-once'])])
def apply_command(ctx, shape, typed):
    so = SO(ctx, UNIVERSE())
    so.assume_inv()
    sname, cb = callback_shapes(ctx, so)[shape]
    cmd = CmdV(FreshInt('cmd'))
    old = so.snapshot()
    I = make_interp(ctx, so, registry={'FastQueue.put_nowait': put_nowait_summary})
    from .so_model import Pickled
    if typed:
        args = [Pickled('payload', FreshInt('plen')), cb, 0]
    else:
        args = [cmd, cb]
    kind, v = run_method(I, so, 'SyncObj._applyCommand', args)
    ctx.prove(kind == 'ok', 'C02:O2.2.no-exception', info=getattr(v, 'typ', None))
    enq = ctx.glist('enqueued')
    cbs = ctx.glist('cb')
    out = sent(ctx)
    reported = len(cbs) + len(out)
    ctx.prove(len(enq) + reported <= 1 if sname != 'none' else len(enq) <= 1, 'C02:O2.2.enqueued-xor-reported')
    if enq:
        item = enq[0]
        ctx.prove(isinstance(item, tuple) and len(item) == 2 and (item[1] is cb or Eq(item[1], cb) is True), 'C02:O2.2.callback-travels-with-command')
        if typed:
            ctx.prove(isinstance(item[0], CmdV), 'C02+C11:O2.2.type-byte-prefixed')
        else:
            ctx.prove(item[0] is cmd, 'C02+C11:O2.2.forwarded-command-unchanged')
        ctx.prove(reported == 0, 'C02:O2.2.no-error-when-enqueued')
    else:
        if sname == 'user':
            ctx.prove(len(cbs) == 1 and cbs[0][1][0] is None and Eq(cbs[0][1][1], 1) is True, 'C02:O2.2.full-reported-once')
        elif sname == 'forwarded':
            ok = len(out) == 1 and out[0][1].items.get('type') == 'apply_command_response'
            ctx.prove(ok and And(Eq(out[0][0], cb[0]), Eq(out[0][1].items['request_id'], cb[1]), Eq(out[0][1].items['error'], 1)),
                      'C02:O2.2.full-reported-once')
    for n, b in field_unchanged(old, so, ['raftLog', 'raftCommitIndex', 'commandsWaitingCommit', 'commandsWaitingReply']):
        ctx.prove(b, 'C02:O2.2.frame.%s' % n)


def _mut_swallow_full(fn):
    cnt = 0
    for n in ast.walk(fn):
        if isinstance(n, ast.ExceptHandler):
            n.body = [ast.Pass()]
            cnt += 1
    return cnt


# ------------------------------------------------------------------------------------------ _checkCommandsToApply
def get_nowait_summary_factory(ctx, so, shape):
    st = {}

    def get_nowait(I, selfv, args, kwargs):
        if ctx.decide(FreshBool('queueEmpty'), 'queue-empty'):
            I.raise_('Empty')
        sname, cb = callback_shapes(ctx, so, 'qcb')[shape]
        cmd = CmdV(FreshInt('queuedCmd'))
        ctx.track('queued.cmd.type', _ctype(to_z3(cmd.id)))
        st['item'] = (cmd, cb, sname)
        ctx.ghost['dequeued'] = ctx.glist('dequeued') + [(cmd, cb, sname)]
        return (cmd, cb)
    return get_nowait


def _loop_body(mod, qual, ordinal=0):
    fn, ci = mod.find(qual)
    if fn is None:
        raise Undecided('%s not found' % qual)
    loops = sorted([n for n in ast.walk(fn) if isinstance(n, (ast.For, ast.While))], key=lambda n: (n.lineno, n.col_offset))
    if ordinal >= len(loops):
        raise Undecided('%s has no loop #%d' % (qual, ordinal))
    return loops[ordinal]


@unit(name='checkCommandsToApply', relpath=MOD, qual=[CHECK, 'SyncObj.__changeCluster', 'SyncObj.__callErrCallback'], props=['C02', 'C10', 'C18', 'C01'],
      cases=[dict(shape=s) for s in (0, 1, 2)],
      kind='body of the dequeue loop of _checkCommandsToApply, from an arbitrary state satisfying INV (the loop invariant is INV)',
      doc='O2.3: every dequeued submission gets exactly one disposition: appended by the leader (+subscription or success reply), '
          'refused, forwarded, NOT_LEADER, or MISSING_LEADER; the journal changes only in the first case',
      assumptions=['A-USERCODE', 'universe'], trusted=['T-TRANSPORT', 'T-PICKLE'],
      canaries=[
          ('denied-also-appends', lambda mod: mutate_function(mod, CHECK, _mut_denied_appends), ['O2.3b.refused-leaves-journal']),
          ('wrong-term-subscribed', lambda mod: mutate_function(mod, CHECK, _mut_subscribe_wrong_term), ['O2.3a.subscription-records-entry-term']),
      ])
def check_commands(ctx, shape):
    so = SO(ctx, UNIVERSE())
    so.assume_inv()
    # I4 for non-leaders is irrelevant; leader maps are used by __doChangeCluster only
    old = so.snapshot()
    olog = old.get('raftLog')
    loop = _loop_body(so.mod, CHECK, 0)
    reg = dict(APPLY_REG)
    reg['FastQueue.get_nowait'] = get_nowait_summary_factory(ctx, so, shape)
    I = make_interp(ctx, so, registry=reg, inline={'SyncObj.__changeCluster'})
    from pyvc.interp import _Break, _Continue
    fr_locals = {'startTime': FreshReal('startTime')}
    try:
        kind, v, fr = run_region(I, so, CHECK, loop.body, fr_locals, loop=loop)
    except (_Break, _Continue):
        kind, v = 'ok', None
    if kind == 'not-entered':
        return          # the time budget of the dequeue loop is used up: no round happens
    ctx.prove(kind == 'ok', 'C02+C11:O2.3.no-exception', info=getattr(v, 'typ', None))
    if kind != 'ok':
        return
    deq = ctx.glist('dequeued')
    log = so.log()
    out = [(to, m) for to, m in sent(ctx) if isinstance(m, PDict)]
    cbs = ctx.glist('cb')
    subs = [e for e in ctx.glist('wait_ops')]
    r0 = old.get('raftState')
    leader0 = old.get('raftLeader')
    noleader = leader0.isnone
    if not deq:
        ctx.prove(log_same(olog, log), 'C02:O2.3.nothing-dequeued-nothing-done.journal')
        ctx.prove(len(out) == 0 and len(cbs) == 0, 'C02:O2.3.nothing-dequeued-nothing-done.silent')
        return
    ctx.prove(Not(And(noleader, so.conf('commandsWaitLeader'))), 'C02:O2.3.waits-for-leader-when-configured')
    cmd, cb, sname = deq[0]
    appended = [op for op in ctx.glist('log_ops') if op[0] == 'add']
    others = [op for op in ctx.glist('log_ops') if op[0] not in ('add',)]
    ctx.prove(len(others) == 0, 'C02+C03:R5.submission-never-deletes-journal-entries')
    ctx.prove(len(appended) <= 1, 'C02:O2.3.at-most-one-append-per-submission')
    resp = [(to, m) for to, m in out if m.items.get('type') == 'apply_command_response']
    fwd = [(to, m) for to, m in out if m.items.get('type') == 'apply_command']
    term = old.get('raftCurrentTerm')
    if appended:
        _, idx, t, c = appended[0]
        ctx.prove(r0 == LEADER, 'C02+C03+C18:O2.3a.only-leader-appends')
        ctx.prove(And(Eq(idx, olog.last_idx() + 1), Eq(t, term), c is cmd), 'C02+C03:O2.3a.appended-at-end-with-own-term')
        ctx.prove(And(log.n == olog.n + 1, Eq(log.first, olog.first)), 'C02:O2.3a.journal-grows-by-one')
        if sname == 'user':
            ok = len(subs) == 1 and subs[0][0] == 'subscribe'
            ctx.prove(ok and And(Eq(subs[0][1], idx), Eq(subs[0][2][0], t)) , 'C02:O2.3a.subscription-records-entry-term')
            ctx.prove(ok and subs[0][2][1] is cb, 'C02:O2.3a.subscription-records-callback')
        else:
            ctx.prove(len(subs) == 0, 'C02:O2.3a.no-subscription-without-local-callback')
        if sname == 'forwarded':
            ok = len(resp) == 1
            ctx.prove(ok and And(Eq(resp[0][0], cb[0]), Eq(resp[0][1].items['request_id'], cb[1]), Eq(resp[0][1].items['log_idx'], idx),
                                 Eq(resp[0][1].items['log_term'], t), 'error' not in resp[0][1].items), 'C02:O2.3a.success-reply-names-entry')
        else:
            ctx.prove(len(resp) == 0, 'C02:O2.3a.no-reply-for-local-submission')
        ctx.prove(len(cbs) == 0, 'C02:O2.3a.no-callback-before-commit')
        ctx.prove(len(fwd) == 0, 'C02:O2.3a.leader-does-not-forward')
        return
    ctx.prove(log_same(olog, log) if not ctx.glist('membership') else And(Eq(log.n, olog.n), Eq(log.first, olog.first)),
              'C02:O2.3b.refused-leaves-journal')
    ctx.prove(len(subs) == 0, 'C02:O2.3.no-subscription-without-append')
    # which error / forward
    if ctx.decide(r0 == LEADER, 'was-leader'):
        code = 6
        tagn = 'O2.3b.request-denied-once'
    elif ctx.decide(Not(noleader), 'leader-known'):
        if sname == 'forwarded':
            code = 4
            tagn = 'O2.3d.not-leader-once'
        else:
            ctx.prove(len(fwd) == 1 and len(resp) == 0 and len(cbs) == 0, 'C02+C18:O2.3c.forwarded-to-leader-once')
            if fwd:
                to, m = fwd[0]
                ctx.prove(And(Eq(to, leader0.val), m.items['command'] is cmd), 'C02+C11:O2.3c.forward-carries-command-to-leader')
                wr0, wr1 = old.get('commandsWaitingReply').entries, so.cell('commandsWaitingReply').entries
                if sname == 'user':
                    ctx.prove('request_id' in m.items and len(wr1) == len(wr0) + 1 and wr1[-1][2] is cb and
                              Eq(wr1[-1][1], m.items['request_id']) is not False, 'C02:O2.3c.reply-slot-registered')
                    rid = m.items['request_id']
                    ctx.prove(And(*[Implies(p, Not(Eq(i, rid))) for p, i, c_ in wr0]) if True else True, 'C02:O2.3c.request-id-fresh')
                    ctx.prove(And(Eq(rid, old.get('commandsLocalCounter') + 1), Eq(so.get('commandsLocalCounter'), rid)),
                              'C02:O2.3c.request-id-is-next-counter-value-never-reused')
                else:
                    ctx.prove('request_id' not in m.items and len(wr1) == len(wr0), 'C02:O2.3c.no-slot-without-callback')
            return
    else:
        code = 2
        tagn = 'O2.3e.missing-leader-once'
    if sname == 'user':
        ctx.prove(len(cbs) == 1 and len(resp) == 0 and cbs[0][0] is cb and cbs[0][1][0] is None and Eq(cbs[0][1][1], code) is True, 'C02:' + tagn)
    elif sname == 'forwarded':
        ctx.prove(len(resp) == 1 and len(cbs) == 0 and And(Eq(resp[0][0], cb[0]), Eq(resp[0][1].items['request_id'], cb[1]),
                                                          Eq(resp[0][1].items.get('error'), code)), 'C02:' + tagn)
    else:
        ctx.prove(len(cbs) == 0 and len(resp) == 0, 'C02:' + tagn)
    ctx.prove(len(fwd) == 0, 'C02:O2.3.error-not-forwarded')


def _mut_denied_appends(fn):
    cnt = 0
    for n in ast.walk(fn):
        if isinstance(n, ast.If) and n.orelse and any(isinstance(x, ast.Attribute) and x.attr == 'REQUEST_DENIED' for x in ast.walk(ast.Module(body=n.orelse, type_ignores=[]))) \
                and any(isinstance(x, ast.Attribute) and x.attr == '__changeCluster' for x in ast.walk(n.test)):
            add = [s for s in n.body if isinstance(s, ast.Expr) and isinstance(s.value, ast.Call) and isinstance(s.value.func, ast.Attribute) and s.value.func.attr == 'add']
            if add:
                n.orelse.insert(0, add[0])
                cnt += 1
    return cnt


def _mut_subscribe_wrong_term(fn):
    cnt = 0
    for n in ast.walk(fn):
        if isinstance(n, ast.Call) and isinstance(n.func, ast.Attribute) and n.func.attr == 'append' and n.args and isinstance(n.args[0], ast.Tuple) \
                and isinstance(n.args[0].elts[0], ast.Name) and n.args[0].elts[0].id == 'term':
            n.args[0].elts[0] = ast.BinOp(left=n.args[0].elts[0], op=ast.Sub(), right=ast.Constant(value=1))
            cnt += 1
    return cnt


# ------------------------------------------------------------------------------------------ apply_command / apply_command_response
def applyCommand_summary(I, selfv, args, kwargs):
    """_applyCommand(command, callback, commandType=None): contract proved in unit applyCommand"""
    I.ctx.ghost['submitted'] = I.ctx.glist('submitted') + [tuple(args)]
    return None


@unit(name='msg.apply_command', relpath=MOD, qual=[HANDLER], props=['C02', 'C18'], cases=[dict(with_id=True), dict(with_id=False)],
      doc='a forwarded command is queued unchanged, with (sender, request id) as its callback when a reply is wanted')
def msg_apply_command(ctx, with_id):
    so = SO(ctx, UNIVERSE())
    so.assume_inv()
    node = peer(ctx, so)
    cmd = CmdV(FreshInt('cmd'))
    d = {'type': 'apply_command', 'command': cmd}
    rid = FreshInt('requestId')
    if with_id:
        d['request_id'] = rid
    old = so.snapshot()
    reg = dict(SUMMARIES)
    reg['SyncObj._applyCommand'] = applyCommand_summary
    I = make_interp(ctx, so, registry=reg, inline=INL)
    kind, v = run_method(I, so, HANDLER, [node, mk_msg(ctx, d)])
    ctx.prove(kind == 'ok', 'C02:apply_command.no-exception', info=getattr(v, 'typ', None))
    sub = ctx.glist('submitted')
    ctx.prove(len(sub) == 1, 'C02:apply_command.queued-exactly-once')
    if sub:
        a = sub[0]
        ctx.prove(a[0] is cmd, 'C02+C11:apply_command.command-unchanged')
        if with_id:
            ctx.prove(isinstance(a[1], tuple) and len(a[1]) == 2 and And(Eq(a[1][0], node), Eq(a[1][1], rid)), 'C02:apply_command.reply-route-recorded')
        else:
            ctx.prove(a[1] is None, 'C02:apply_command.no-reply-route')
        ctx.prove(len(a) == 2 or a[2] is None, 'C02+C11:apply_command.no-second-type-byte')
    for n, b in field_unchanged(old, so, ['raftLog', 'raftCommitIndex', 'raftCurrentTerm', 'raftState', 'votedForNodeId',
                                          'commandsWaitingCommit', 'commandsWaitingReply']):
        ctx.prove(b, 'C02+C03:apply_command.frame.%s' % n)


@unit(name='msg.apply_command_response', relpath=MOD, qual=[HANDLER], props=['C02'],
      cases=[dict(err=False), dict(err=True)],
      doc='O2.5: the waiting callback is removed; an error reply fires it once with that error; a success reply moves it to the '
          'commit subscribers of the reported index with the reported term',
      assumptions=['A-PROTO-3: a success reply for index i reaches the submitter before it applies i (FIFO link from the leader)'],
      canaries=[('keep-slot', lambda mod: mutate_function(mod, HANDLER, _mut_get_instead_of_pop), ['O2.5.slot-removed'])])
def msg_apply_command_response(ctx, err):
    so = SO(ctx, UNIVERSE())
    so.assume_inv()
    node = peer(ctx, so)
    rid = FreshInt('requestId')
    d = {'type': 'apply_command_response', 'request_id': rid}
    code = FreshInt('errorCode')
    idx, term = FreshInt('logIdx'), FreshInt('logTerm')
    if err:
        d['error'] = code
        ctx.assume(And(code >= 1, code <= 6))
    else:
        d['log_idx'], d['log_term'] = idx, term
        ctx.assume(idx > so.get('raftLastApplied'))
    old = so.snapshot()
    I = make_interp(ctx, so, registry=SUMMARIES, inline=INL)
    kind, v = run_method(I, so, HANDLER, [node, mk_msg(ctx, d)])
    ctx.prove(kind == 'ok', 'C02:O2.5.no-exception', info=getattr(v, 'typ', None))
    if kind != 'ok':
        return
    slots0 = old.get('commandsWaitingReply').entries
    slots1 = so.cell('commandsWaitingReply').entries
    cbs = ctx.glist('cb')
    subs = ctx.glist('wait_ops')
    hit = [(p, i, cb) for p, i, cb in slots0]
    was = Or(*[And(p, Eq(i, rid)) for p, i, cb in slots0])
    ctx.prove(Not(Or(*[And(p, Eq(i, rid)) for p, i, cb in slots1])), 'C02:O2.5.slot-removed')
    for p, i, cb in slots0:
        still = Or(*[And(p1, Eq(i1, i)) for p1, i1, c1 in slots1 if c1 is cb])
        ctx.prove(Implies(And(p, Not(Eq(i, rid))), still), 'C02:O2.5.other-slots-kept')
    if ctx.decide(was, 'slot-present'):
        if err:
            ctx.prove(len(cbs) == 1 and len(subs) == 0, 'C02:O2.5.error-fires-once')
            if cbs:
                f, a = cbs[0]
                ctx.prove(And(a[0] is None, Eq(a[1], code)), 'C02:O2.5.error-code-passed-through')
                ctx.prove(Or(*[And(p, Eq(i, rid)) for p, i, cb in slots0 if cb.tag == f.tag]), 'C02:O2.5.right-callback')
        else:
            ctx.prove(len(cbs) == 0 and len(subs) == 1, 'C02:O2.5.success-defers-to-commit')
            if subs:
                _, sidx, (sterm, scb) = subs[0]
                ctx.prove(And(Eq(sidx, idx), Eq(sterm, term)), 'C02:O2.5.subscribed-at-reported-index-and-term')
                ctx.prove(Or(*[And(p, Eq(i, rid)) for p, i, cb in slots0 if cb.tag == scb.tag]), 'C02:O2.5.right-callback')
    else:
        ctx.prove(len(cbs) == 0 and len(subs) == 0, 'C02:O2.5.unknown-request-ignored')
    for n, b in field_unchanged(old, so, ['raftLog', 'raftCommitIndex', 'raftCurrentTerm', 'raftState', 'votedForNodeId', 'raftLastApplied']):
        ctx.prove(b, 'C02+C03:O2.5.frame.%s' % n)


def _mut_get_instead_of_pop(fn):
    cnt = 0
    for n in ast.walk(fn):
        if isinstance(n, ast.Call) and isinstance(n.func, ast.Attribute) and n.func.attr == 'pop' and \
                isinstance(n.func.value, ast.Attribute) and n.func.value.attr == '__commandsWaitingReply':
            n.func.attr = 'get'
            cnt += 1
    return cnt
