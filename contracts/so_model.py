"""Symbolic model of one SyncObj node's state (DESIGN §3.1) and of the externals it calls.

Nothing here restates SyncObj *code*: it only builds the pre-state (fields of the real class, by their
name-mangled names) and gives trusted contracts for what lies outside the verified functions
(transport, clock, pickle, user callbacks).  The functions themselves are read from /repo.
"""
import ast
import z3
from pyvc.values import *   # noqa
from pyvc.ctx import Undecided, PathAbort
from pyvc.interp import Interp, Frame, PyExc, FuncVal, ExtName
from pyvc import source
from pyvc.builtins_ import PoppedValue

MOD = 'pysyncobj/syncobj.py'
F = lambda n: '_SyncObj__' + n

# uninterpreted functions over opaque command ids
_ctype = z3.Function('ctype', z3.IntSort(), z3.IntSort())     # first byte
_clen = z3.Function('clen', z3.IntSort(), z3.IntSort())       # length in bytes
_ctail = z3.Function('ctail', z3.IntSort(), z3.IntSort())     # id of command[1:]
_ver = z3.Function('cver', z3.IntSort(), z3.IntSort())        # VERSION payload
_rkind = z3.Function('creqkind', z3.IntSort(), z3.IntSort())  # MEMBERSHIP payload: 0 add, 1 rem, 2 other
_rnode = z3.Function('creqnode', z3.IntSort(), z3.IntSort())  # MEMBERSHIP payload: node index
_shape = z3.Function('cshape', z3.IntSort(), z3.IntSort())    # REGULAR payload: 0 id, 1 (id,args), 2 (id,args,kw)
_fid = z3.Function('cfid', z3.IntSort(), z3.IntSort())
_plen = z3.Function('picklelen', z3.IntSort(), z3.IntSort())  # len(pickle.dumps(entry with command id))


class CmdV(Opaque):
    """bytes of a log command, identified by an Int id"""
    kinds = ('bytes',)

    def __init__(self, id):
        Opaque.__init__(self, 'cmd', id)

    def length(self, I):
        return _clen(to_z3(self.id))

    def truth(self, I):
        return _clen(to_z3(self.id)) > 0

    def get_slice(self, I, lo, hi):
        if lo is None and hi == 1:
            return CmdHead(self)
        if lo == 1 and hi is None:
            return CmdTail(self)
        raise Undecided('slice [%r:%r] of a command' % (lo, hi))

    def binop(self, I, op, other, swapped, inplace):
        if isinstance(op, ast.Add) and swapped and isinstance(other, TypeByte):
            nid = FreshInt('cmd')
            I.ctx.assume(z3.And(_ctype(nid) == to_z3(other.t), _clen(nid) == _clen(to_z3(self.id)) + 1,
                                _ctail(nid) == to_z3(self.id)))
            return CmdV(nid)
        return NotImplemented


class CmdHead(object):
    def __init__(self, c):
        self.c = c

    def ord(self, I):
        cid = to_z3(self.c.id)
        # A-CMD: commands are never empty (every producer prefixes the type byte; the forwarded ones were produced
        # by a peer's _applyCommand)
        I.ctx.assume(_clen(cid) >= 1)
        return _ctype(cid)


class CmdTail(object):
    def __init__(self, c):
        self.c = c


class TypeByte(object):
    """struct.pack('B', t)"""
    kinds = ('bytes',)

    def __init__(self, t):
        self.t = t

    def binop(self, I, op, other, swapped, inplace):
        if isinstance(op, ast.Add) and not swapped and isinstance(other, Pickled):
            nid = FreshInt('cmd')
            I.ctx.assume(z3.And(_ctype(nid) == to_z3(self.t), _clen(nid) >= 2))
            I.ctx.glist('cmd_payload').append((nid, other))
            return CmdV(nid)
        return NotImplemented


class Pickled(object):
    """pickle.dumps(value): opaque bytes remembering the value (T-PICKLE: loads(dumps(x)) == x)"""
    kinds = ('bytes',)

    def __init__(self, value, n):
        self.value = value
        self.n = n

    def length(self, I):
        return self.n

    def get_slice(self, I, lo, hi):
        return PickledSlice(self, 0 if lo is None else lo, hi)


class PickledSlice(object):
    kinds = ('bytes',)

    def __init__(self, p, lo, hi):
        self.p, self.lo, self.hi = p, lo, hi

    def length(self, I):
        n = self.p.n
        a = I.norm_index(self.lo, n)
        b = I.norm_index(n if self.hi is None else self.hi, n)
        return Max(b - a, 0)


class ArgsV(object):
    def __init__(self, cid):
        self.cid = cid

    def star_items(self, I):
        return [self]


class KwV(object):
    def __init__(self, cid):
        self.cid = cid

    def kw_items(self, I):
        return {'**': self}


class LogCell(SList):
    """the journal object seen through the list operations MemoryJournal implements (C08 proves that
    MemoryJournal *is* this list and FileJournal refines it).  Entry i is (cmd_i, first+i, term_i):
    contiguity of indices (I1) is part of the representation and every `add` carries the obligation
    that keeps it."""

    def __init__(self, first, n, cmdf, termf, meta_commit=None):
        self.first, self.cmdf, self.termf = first, cmdf, termf
        self.meta_commit = meta_commit
        SList.__init__(self, n, self._get, 3)

    def _get(self, i):
        i = to_z3(i)
        return (CmdV(self.cmdf(i)), to_z3(self.first) + i, self.termf(i))

    def last_idx(self):
        return to_z3(self.first) + to_z3(self.n) - 1

    def term_at(self, idx):
        """term of the entry with raft index idx"""
        return self.termf(to_z3(idx) - to_z3(self.first))

    def cmd_at(self, idx):
        return self.cmdf(to_z3(idx) - to_z3(self.first))

    def has(self, idx):
        idx = to_z3(idx)
        return z3.And(idx >= to_z3(self.first), idx <= self.last_idx())

    def havoc(self, ctx, base):
        lc = fresh_log(ctx, base)
        return lc

    def call_method(self, I, ref, name, args, kw):
        ctx = I.ctx
        if name == 'add':
            cmd, idx, term = args
            cmd = I.unwrap(cmd)
            if isinstance(cmd, TypeByte):
                nid = FreshInt('cmd')
                ctx.assume(z3.And(_ctype(nid) == to_z3(cmd.t), _clen(nid) == 1))
                cmd = CmdV(nid)
            if not isinstance(cmd, CmdV):
                raise Undecided('journal.add of %r' % (cmd,))
            empty = to_z3(self.n) == 0
            if ctx.decide(empty, 'log-empty'):
                first = idx
            else:
                first = self.first
                ctx.prove(to_z3(idx) == to_z3(self.first) + to_z3(self.n), 'I1.contiguous-append',
                          info='journal.add(idx) must be last+1')
            n = self.n
            oc, ot = self.cmdf, self.termf
            cid, t = to_z3(cmd.id), to_z3(term)
            nz = to_z3(n)
            cmdf = lambda i, oc=oc, cid=cid, nz=nz: z3.If(i == nz, cid, oc(i))
            termf = lambda i, ot=ot, t=t, nz=nz: z3.If(i == nz, t, ot(i))
            ctx.setcell(ref, LogCell(first, n + 1, cmdf, termf, self.meta_commit))
            ctx.glist('log_ops').append(('add', idx, term, cmd))
            ctx.ghost['events'] = ctx.glist('events') + ['add']
            return None
        if name == 'clear':
            ctx.setcell(ref, LogCell(self.first, 0, self.cmdf, self.termf, self.meta_commit))
            ctx.glist('log_ops').append(('clear',))
            return None
        if name == 'deleteEntriesFrom':
            k = I.norm_index(args[0], self.n)
            ctx.setcell(ref, LogCell(self.first, k, self.cmdf, self.termf, self.meta_commit))
            ctx.glist('log_ops').append(('delFrom', args[0]))
            return None
        if name == 'deleteEntriesTo':
            k = I.norm_index(args[0], self.n)
            oc, ot = self.cmdf, self.termf
            kz = to_z3(k)
            ctx.setcell(ref, LogCell(to_z3(self.first) + kz, to_z3(self.n) - kz,
                                     (lambda i, oc=oc, kz=kz: oc(i + kz)), (lambda i, ot=ot, kz=kz: ot(i + kz)),
                                     self.meta_commit))
            ctx.glist('log_ops').append(('delTo', args[0]))
            return None
        if name == '__len__':
            return self.n
        if name == 'setRaftCommitIndex':
            ctx.setcell(ref, LogCell(self.first, self.n, self.cmdf, self.termf, args[0]))
            ctx.glist('log_ops').append(('setCommit', args[0]))
            return None
        if name == 'getRaftCommitIndex':
            return self.meta_commit
        if name == 'onOneSecondTimer':
            ctx.glist('log_ops').append(('timer',))
            return None
        if name == '_destroy':
            return None
        return NotImplemented


def fresh_log(ctx, base='log'):
    first = FreshInt(base + '_first')
    n = FreshInt(base + '_len')
    cf = z3.Function(fresh_name(base + '_cmd'), z3.IntSort(), z3.IntSort())
    tf = z3.Function(fresh_name(base + '_term'), z3.IntSort(), z3.IntSort())
    mc = FreshInt(base + '_metacommit')
    ctx.assume(z3.And(first >= 1, n >= 0))
    return LogCell(first, n, (lambda i, cf=cf: cf(i)), (lambda i, tf=tf: tf(i)), mc)


def fresh_entries(ctx, base, start_idx):
    """list of entries (cmd, idx, term) with contiguous indices from start_idx (R_AE)"""
    n = FreshInt(base + '_len')
    cf = z3.Function(fresh_name(base + '_cmd'), z3.IntSort(), z3.IntSort())
    tf = z3.Function(fresh_name(base + '_term'), z3.IntSort(), z3.IntSort())
    ctx.assume(n >= 0)
    sl = SList(n, (lambda i, cf=cf, tf=tf, s=start_idx: (CmdV(cf(to_z3(i))), to_z3(s) + to_z3(i), tf(to_z3(i)))), 3)
    sl.cf, sl.tf, sl.start = cf, tf, start_idx
    return sl


class MethodTable(PDict):
    """self._idToMethod: funcID -> replicated method (opaque user code)"""

    def __init__(self):
        PDict.__init__(self, {})

    def get_item(self, I, ref, idx):
        return Callable_('method', idx)


class WaitCommit(PDict):
    """self.__commandsWaitingCommit: defaultdict(list) keyed by log index.  Symbolic keys: the map is
    a finite list of (index, subscriber-list-ref) pairs built up along the path plus an initial
    abstract content `init(idx)` -> python list of (term, callback) of statically bounded length."""

    def __init__(self, entries=None, init=None):
        PDict.__init__(self, {})
        self.entries = list(entries or [])      # [(idx, [ (term, cb), ...])] newest last; a popped key has None
        self.init = init                        # callable(idx) -> list of (guard, (term, cb))

    def lookup(self, I, idx):
        """-> python list of (guard, (term, cb)) in subscription order for key idx"""
        out = list(self.init(idx)) if self.init else []
        for k, subs in self.entries:
            same = Eq(k, idx)
            if subs is None:
                out = [(And(g, Not(same)), s) for g, s in out]
            else:
                out = out + [(And(same, g), s) for g, s in subs]
        return [(g, s) for g, s in out if g is not False]

    def call_method(self, I, ref, name, args, kw):
        if name == 'pop':
            idx = args[0]
            subs = self.lookup(I, idx)
            I.ctx.setcell(ref, WaitCommit(self.entries + [(idx, None)], self.init))
            return I.ctx.alloc(GuardedList(subs))
        return NotImplemented

    def get_item(self, I, ref, idx):
        return I.ctx.alloc(WaitSlot(ref, idx))

    def iter_items(self, I):
        """iteration over the keys: the key set of the abstract map is not enumerable - the loop is run for one arbitrary key that has
        subscribers (a representative); obligations that fail this way are real, but nothing is *proved* about such a loop"""
        k = FreshInt('someWaitingIndex')
        subs = self.lookup(I, k)
        note = 'INCOMPLETE: iteration over the abstract subscriber map'
        if note not in I.ctx.notes:
            I.ctx.notes.append(note)
        g = Or(*[gg for gg, s_ in subs]) if subs else False
        return [(g, k)] if g is not False else []

    def contains(self, I, idx):
        subs = self.lookup(I, idx)
        return Or(*[g for g, s_ in subs]) if subs else False


class WaitSlot(object):
    """self.__commandsWaitingCommit[idx] as an lvalue supporting .append"""

    def __init__(self, mapref, idx):
        self.mapref, self.idx = mapref, idx

    def call_method(self, I, ref, name, args, kw):
        if name == 'append':
            wc = I.ctx.cell(self.mapref)
            I.ctx.setcell(self.mapref, WaitCommit(wc.entries + [(self.idx, [(True, args[0])])], wc.init))
            I.ctx.glist('wait_ops').append(('subscribe', self.idx, args[0]))
            return None
        return NotImplemented


class GuardedList(object):
    """python list whose elements are present under guards"""

    def __init__(self, items):
        self.items = items

    def iter_items(self, I):
        return list(self.items)


def _guarded_iter(I, it, s, fr, orig=Interp.iter_items):
    if isinstance(it, Ref) and isinstance(I.ctx.cell(it), GuardedList):
        return list(I.ctx.cell(it).items)
    return orig(I, it, s, fr)


Interp.iter_items = _guarded_iter


class WaitReply(KVDict):
    """self.__commandsWaitingReply: request id -> callback; at most NREPLY symbolic pending entries in the
    pre-state (ids ascending, presence symbolic)"""


def node_in_universe(ctx, name, U, allow_self=False):
    i = FreshInt(name)
    ctx.assume(z3.And(i >= 0, i <= (U if allow_self else U - 1)))
    return NodeV(i)


class SO(object):
    """builder + accessor of the symbolic SyncObj pre-state"""

    def __init__(self, ctx, U=6, nreply=2):
        self.ctx = ctx
        self.U = U
        ctx.universe = U + 1       # index U is the node itself
        self.mod = source.load(MOD)
        c = ctx
        conf = dict(
            appendEntriesUseBatch=FreshBool('useBatch'), appendEntriesBatchSizeBytes=FreshInt('batchSize'),
            appendEntriesPeriod=FreshReal('aePeriod'), dynamicMembershipChange=FreshBool('dynMember'),
            commandsWaitLeader=FreshBool('waitLeader'), leaderFallbackTimeout=FreshReal('fallbackTimeout'),
            raftMinTimeout=FreshReal('raftMin'), raftMaxTimeout=FreshReal('raftMax'),
            onStateChanged=Opt(FreshBool('noStateCb'), Callable_('user:onStateChanged')),
            onReady=Opt(FreshBool('noReadyCb'), Callable_('user:onReady')),
            onCodeVersionChanged=Opt(FreshBool('noVerCb'), Callable_('user:onCodeVersionChanged')),
            autoTick=False, logCompactionMinEntries=FreshInt('lcMinEntries'), logCompactionMinTime=FreshReal('lcMinTime'),
            logCompactionSplit=FreshBool('lcSplit'), fullDumpFile=Opt(FreshBool('noDumpFile'), 'dump.bin'),
            serializer=None, autoTickPeriod=FreshReal('tickPeriod'), journalFile=None,
        )
        c.assume(z3.And(conf['appendEntriesBatchSizeBytes'] >= 1, conf['appendEntriesPeriod'] > 0,
                        conf['leaderFallbackTimeout'] > 0, conf['raftMinTimeout'] > 0,
                        conf['raftMaxTimeout'] >= conf['raftMinTimeout']))
        self.confref = c.alloc(PObj('SyncObjConf', conf))
        self.logref = c.alloc(fresh_log(c))
        W = U + 1
        bits = lambda b: [FreshBool('%s%d' % (b, i)) for i in range(U)] + [False]
        self.other = c.alloc(NSet(bits('voter')))
        self.readonly = c.alloc(NSet(bits('observer')))
        self.connected = c.alloc(NSet(bits('conn')))
        self.nexti = c.alloc(NMap(bits('hasNext'), [FreshInt('next%d' % i) for i in range(W)]))
        self.matchi = c.alloc(NMap(bits('hasMatch'), [FreshInt('match%d' % i) for i in range(W)]))
        self.lastresp = c.alloc(NMap(bits('hasResp'), [FreshReal('resp%d' % i) for i in range(W)]))
        self.transport = c.alloc(PObj('Transport', {'ready': True}))
        self.serializer = c.alloc(PObj('Serializer', {}))
        self.queue = c.alloc(PObj('FastQueue', {}))
        self.methods = c.alloc(MethodTable())
        self.waitcommit = c.alloc(WaitCommit([], self._init_waiters()))
        ids = [FreshInt('rid%d' % j) for j in range(nreply)]
        for a, b in zip(ids, ids[1:]):
            c.assume(a < b)
        self.waitreply = c.alloc(WaitReply([(FreshBool('hasReply%d' % j), ids[j], Callable_('user:replycb%d' % j, j))
                                            for j in range(nreply)]))
        leader_i = FreshInt('leaderIdx')
        voted_i = FreshInt('votedIdx')
        c.assume(z3.And(leader_i >= 0, leader_i <= U, voted_i >= 0, voted_i <= U))
        selfnone = FreshBool('selfIsReadonly')
        f = {
            F('conf'): self.confref,
            F('selfNode'): Opt(selfnone, NodeV(U)),
            F('otherNodes'): self.other, F('readonlyNodes'): self.readonly, F('connectedNodes'): self.connected,
            F('raftState'): FreshInt('raftState'), F('raftCurrentTerm'): FreshInt('term'),
            F('votedForNodeId'): Opt(FreshBool('votedNone'), NodeId(voted_i)), F('votesCount'): FreshInt('votes'),
            F('raftLeader'): Opt(FreshBool('leaderNone'), NodeV(leader_i)),
            F('raftElectionDeadline'): FreshReal('deadline'),
            F('raftLog'): self.logref, F('raftCommitIndex'): FreshInt('commit'), F('raftLastApplied'): FreshInt('applied'),
            F('raftNextIndex'): self.nexti, F('raftMatchIndex'): self.matchi, F('lastResponseTime'): self.lastresp,
            F('leaderCommitIndex'): Opt(FreshBool('lciNone'), FreshInt('leaderCommit')),
            F('noopIDx'): Opt(FreshBool('noopNone'), FreshInt('noopIdx')),
            F('changeClusterIDx'): Opt(FreshBool('cciNone'), FreshInt('changeIdx')),
            F('onReadyCalled'): FreshBool('onReadyCalled'),
            F('transport'): self.transport, F('serializer'): self.serializer, F('commandsQueue'): self.queue,
            F('commandsWaitingCommit'): self.waitcommit, F('commandsWaitingReply'): self.waitreply,
            F('commandsLocalCounter'): FreshInt('localCounter'),
            F('selfCodeVersion'): FreshInt('selfVer'), F('enabledCodeVersion'): FreshInt('enabledVer'),
            F('newAppendEntriesTime'): FreshReal('newAeTime'), F('startTime'): FreshReal('startTime'),
            F('numOneSecondDumps'): FreshInt('oneSecDumps'), F('needLoadDumpFile'): False,
            F('forceLogCompaction'): FreshBool('forceCompaction'), F('lastSerializedTime'): FreshReal('lastSerTime'),
            F('lastSerializedEntry'): Opt(FreshBool('lseNone'), FreshInt('lastSerEntry')),
            F('recvTransmission'): recv_initial(c, self.mod) if getattr(self, 'mod', None) is not None else RecvBuf(0), F('nodeClass'): NodeClass(), F('consumers'): c.alloc(PList([])),
            F('destroying'): False, F('pipeNotifier'): c.alloc(PObj('PipeNotifier', {})),
            '_idToMethod': self.methods, '_poller': c.alloc(PObj('Poller', {})),
        }
        self.selfref = c.alloc(PObj('SyncObj', f))
        self.now = FreshReal('now0')
        ctx.ghost['clock'] = [self.now]
        for k, v in f.items():
            short = k.replace('_SyncObj__', '')
            if isinstance(v, (z3.ExprRef, Opt)):
                ctx.track(short, v)
        for nm, ref in (('voters', self.other), ('observers', self.readonly), ('connected', self.connected)):
            ctx.track(nm, list(ctx.cell(ref).bits))
        for nm, ref in (('next', self.nexti), ('match', self.matchi), ('lastResp', self.lastresp)):
            ctx.track(nm, {'present': list(ctx.cell(ref).pres), 'vals': list(ctx.cell(ref).vals)})
        lc = ctx.cell(self.logref)
        ctx.track('log_first', lc.first)
        ctx.track('log_len', lc.n)
        ctx.track('log_terms_0_7', [lc.termf(z3.IntVal(i)) for i in range(8)])
        for k in ('appendEntriesUseBatch', 'appendEntriesBatchSizeBytes', 'dynamicMembershipChange', 'commandsWaitLeader',
                  'leaderFallbackTimeout', 'appendEntriesPeriod'):
            ctx.track('conf.' + k, conf[k])

    def _init_waiters(self):
        """initial content of commandsWaitingCommit: at most two subscribers per index, with arbitrary terms"""
        p = [z3.Function(fresh_name('waitPresent%d' % j), z3.IntSort(), z3.BoolSort()) for j in range(2)]
        t = [z3.Function(fresh_name('waitTerm%d' % j), z3.IntSort(), z3.IntSort()) for j in range(2)]
        self.wait_p, self.wait_t = p, t

        def init(idx):
            idx = to_z3(idx)
            return [(p[j](idx), (t[j](idx), Callable_('user:waitcb%d' % j, idx))) for j in range(2)]
        return init

    # -- accessors on the current state
    def get(self, name):
        return self.ctx.cell(self.selfref).fields[F(name)]

    def cell(self, name):
        return self.ctx.cell(self.get(name))

    def log(self):
        return self.ctx.cell(self.get('raftLog'))

    def conf(self, name):
        return self.ctx.cell(self.confref).fields[name]

    def snapshot(self):
        """immutable copy of the abstract state for `old(...)`"""
        d = {}
        for k, v in self.ctx.cell(self.selfref).fields.items():
            d[k] = self.ctx.cell(v) if isinstance(v, Ref) else v
        return Snap(d)

    # -- the class invariant INV (DESIGN §3.1)
    def inv(self, st=None, leader_maps=True):
        g = (lambda n: st.f[F(n)]) if st else (lambda n: (self.ctx.cell(self.get(n)) if isinstance(self.get(n), Ref) else self.get(n)))
        U = self.U
        log = g('raftLog')
        voters, obs, conn = g('otherNodes'), g('readonlyNodes'), g('connectedNodes')
        role = g('raftState')
        cl = []
        cl.append(('I1.nonempty', to_z3(log.n) >= 1))
        cl.append(('I1.first', to_z3(log.first) >= 1))
        cl.append(('I2.applied', And(g('raftLastApplied') >= 1)))
        cl.append(('I3.disjoint', And(*[Not(And(voters.bits[i], obs.bits[i])) for i in range(U)])))
        cl.append(('I3.self', And(Not(voters.bits[U]), Not(obs.bits[U]), Not(conn.bits[U]))))
        cl.append(('role', And(role >= 0, role <= 2)))
        cl.append(('term', g('raftCurrentTerm') >= 0))
        if leader_maps:
            nx, mt, lr = g('raftNextIndex'), g('raftMatchIndex'), g('lastResponseTime')
            cl.append(('I4.maps', Implies(role == 2, And(*[And(Implies(Or(voters.bits[i], obs.bits[i]), And(nx.pres[i], mt.pres[i])),
                                                                Implies(voters.bits[i], lr.pres[i])) for i in range(U)]))))
        noop = g('noopIDx')
        cl.append(('I7.leader-has-noop-index', Implies(role == 2, Not(noop.isnone) if isinstance(noop, Opt) else (noop is not None))))
        wr = g('commandsWaitingReply')
        cl.append(('I8.reply-ids-below-counter', And(*[Implies(p, i <= g('commandsLocalCounter')) for p, i, cb in wr.entries])))
        sn = g('selfNode')
        cl.append(('I5.readonly-follower', Implies(sn.isnone if isinstance(sn, Opt) else (sn is None), role == 0)))
        return cl

    def assume_inv(self):
        for cid, b in self.inv():
            self.ctx.assume(b)

    def prove_inv(self, prefix):
        for cid, b in self.inv():
            self.ctx.prove(b, '%s.INV.%s' % (prefix, cid))

    def nvoters(self, st=None):
        bits = (st.f[F('otherNodes')].bits if st else self.cell('otherNodes').bits)
        return Sum([B2I(b) for b in bits])


class Snap(object):
    def __init__(self, f):
        self.f = f

    def get(self, name):
        return self.f[F(name)]


class RecvBuf(object):
    """self.__recvTransmission: accumulated chunk bytes, abstracted to its length and origin"""
    kinds = ('str', 'bytes')

    def __init__(self, n, parts=()):
        self.n = n
        self.parts = tuple(parts)

    def binop(self, I, op, other, swapped, inplace):
        if isinstance(op, ast.Add) and not swapped and isinstance(other, ChunkData):
            return RecvBuf(self.n + other.n, self.parts + (other,))
        return NotImplemented


class RecvList(object):
    """self.__recvTransmission kept as a list of chunks (heap cell): the same abstraction as RecvBuf, list-shaped"""

    def __init__(self, parts=()):
        self.parts = tuple(parts)

    def call_method(self, I, ref, name, args, kw):
        if name == 'append' and isinstance(args[0], ChunkData):
            I.ctx.setcell(ref, RecvList(self.parts + (args[0],)))
            return None
        if name == 'clear':
            I.ctx.setcell(ref, RecvList(()))
            return None
        return NotImplemented

    def joined(self, I):
        n = 0
        for p_ in self.parts:
            n = n + p_.n
        return RecvBuf(n, self.parts)

    def length(self, I):
        return len(self.parts)


def recv_parts(ctx, v):
    """the chunks accumulated in self.__recvTransmission, whatever shape the code keeps them in (bytes or a list of chunks)"""
    if isinstance(v, Ref):
        v = ctx.cell(v)
    if isinstance(v, (RecvBuf, RecvList)):
        return v.parts
    if isinstance(v, ChunkData):
        return (v,)
    if isinstance(v, (str, bytes)) and len(v) == 0:
        return ()
    if isinstance(v, PList) and all(isinstance(x, ChunkData) for x in v.items):
        return tuple(v.items)
    return None


def recv_initial(ctx, mod, parts=()):
    """pre-state value of __recvTransmission in the shape SyncObj.__init__ gives it: a list if __init__ assigns a list, bytes otherwise"""
    fn, ci = mod.find('SyncObj.__init__')
    shape = 'bytes'
    for n_ in ast.walk(fn):
        if isinstance(n_, ast.Assign) and any(isinstance(t, ast.Attribute) and t.attr == '__recvTransmission' for t in n_.targets):
            shape = 'list' if isinstance(n_.value, (ast.List, ast.Call)) and not (isinstance(n_.value, ast.Call) and getattr(n_.value.func, 'id', '') in ('bytes', 'str', 'bytearray')) else 'bytes'
    if shape == 'list':
        return ctx.alloc(RecvList(parts))
    n = 0
    for p_ in parts:
        n = n + p_.n
    return RecvBuf(n, parts)


class ChunkData(object):
    kinds = ('bytes',)

    def __init__(self, n, tag=None):
        self.n = n
        self.tag = tag

    def length(self, I):
        return self.n


class NodeClass(object):
    """self.__nodeClass: constructing a node from an id gives the universe node with that id"""

    def call(self, I, args, kw):
        v = I.unwrap(args[0])
        if isinstance(v, NodeId):
            return NodeV(v.idx)
        if isinstance(v, NodeV):
            return v
        raise Undecided('nodeClass(%r)' % (v,))


# ------------------------------------------------------------------------------- externals

def clock(I, args=None, kw=None):
    """monotonicTime(): non-decreasing (A-CLOCK), real valued (A-REAL)"""
    ctx = I.ctx
    prev = ctx.ghost['clock'][-1]
    t = FreshReal('now')
    ctx.assume(t >= prev)
    ctx.ghost['clock'] = ctx.ghost['clock'] + [t]
    return t


def rand(I, args, kw):
    r = FreshReal('rand')
    I.ctx.assume(z3.And(r >= 0, r < 1))
    return r


def transport_send(I, selfv, args, kw):
    """T-TRANSPORT: appends (node, message) to the ghost outbox; returns a bool; the connection may be
    found dead, in which case the node leaves __connectedNodes (re-entrant onNodeDisconnected)."""
    node, msg = args
    ctx = I.ctx
    node = I.unwrap(node, 'send-target')
    if not isinstance(node, NodeV):
        raise Undecided('transport.send to %r' % (node,))
    snap = ctx.cell(msg) if isinstance(msg, Ref) else msg
    ctx.ghost['outbox'] = ctx.glist('outbox') + [(node, PDict(snap.items) if isinstance(snap, PDict) else snap)]
    if isinstance(snap, PDict) and snap.items.get('type') == 'next_node_idx' and snap.items.get('success') is True:
        ctx.ghost['events'] = ctx.glist('events') + ['ack']
    so = I.hooks.get('so')
    if so is not None and I.hooks.get('send_may_disconnect', True):
        dropped = FreshBool('sendDropsConn')
        conn = ctx.cell(so.get('connectedNodes'))
        ctx.setcell(so.get('connectedNodes'), NSet([And(b, Not(And(dropped, Eq(node.idx, i)))) for i, b in enumerate(conn.bits)]))
        if 'transmitting' in ctx.ghost and I.hooks.get('disconnect_cancels_transfer', True):
            # the disconnect reaches SyncObj through __onNodeDisconnected, whose contract (unit node-notifications, clause
            # O9.7.disconnect-cancels-transfer) includes the cancellation of the snapshot transfer to that node
            ctx.ghost['transmitting'] = [And(b, Not(And(dropped, Eq(node.idx, i)))) for i, b in enumerate(ctx.ghost['transmitting'])]
    return FreshBool('sendOk')


def cancel_transmission(I, selfv, args, kw):
    """Serializer.cancelTransmisstion(id) (contract proved in unit serializer.cancelTransmisstion): the transfer state of id is
    dropped, every other transfer is untouched; the call is recorded"""
    ctx = I.ctx
    node = I.unwrap(args[0], 'cancel-target')
    ctx.ghost['cancelled'] = ctx.glist('cancelled') + [node]
    if 'transmitting' in ctx.ghost and isinstance(node, NodeV):
        ctx.ghost['transmitting'] = [And(b, Not(Eq(node.idx, i))) for i, b in enumerate(ctx.ghost['transmitting'])]
    return None


def user_callback(I, f, args, kw):
    """A-USERCODE: user callbacks do not touch Raft state; each invocation is recorded"""
    I.ctx.ghost['cb'] = I.ctx.glist('cb') + [(f, tuple(args))]
    return None


def user_method(I, f, args, kw):
    """the replicated method itself: may return any value or raise (C12)"""
    ctx = I.ctx
    rid = FreshInt('methodResult')
    ctx.ghost['applied'] = ctx.glist('applied') + [(f.payload, tuple(args), dict(kw), rid)]
    if I.hooks.get('method_may_raise', True):
        if ctx.decide(FreshBool('methodRaises'), 'user-method-raises'):
            I.raise_('UserError')
    return Opaque('result', rid)


def pickle_loads(I, args, kw):
    (v,) = args
    ctx = I.ctx
    if isinstance(v, CmdTail):
        cid = to_z3(v.c.id)
        for nid, p in ctx.glist('cmd_payload'):
            if z3.eq(z3.simplify(nid), z3.simplify(cid)):
                return p.value
        t = _ctype(cid)
        if ctx.decide(t == 3, 'cmd-is-version'):
            return _ver(cid)
        if ctx.decide(t == 2, 'cmd-is-membership'):
            k = _rkind(cid)
            n = _rnode(cid)
            ctx.assume(z3.And(n >= 0, n <= ctx.universe - 1))
            if ctx.decide(k == 0, 'req-add'):
                kind = 'add'
            elif ctx.decide(k == 1, 'req-rem'):
                kind = 'rem'
            else:
                kind = 'other'
            return ctx.alloc(PList([kind, NodeId(n), NodeV(n)]))
        sh = _shape(cid)
        ctx.assume(z3.And(sh >= 0, sh <= 2))
        if ctx.decide(sh == 0, 'cmd-bare-id'):
            return _fid(cid)
        if ctx.decide(sh == 1, 'cmd-id-args'):
            return (_fid(cid), ArgsV(cid))
        return (_fid(cid), ArgsV(cid), KwV(cid))
    if isinstance(v, Pickled):
        return v.value
    if isinstance(v, RecvBuf):
        h = I.hooks.get('loads_recvbuf')
        if h is not None:
            return h(I, v)
    raise Undecided('pickle.loads(%r)' % (v,))


def pickle_dumps(I, args, kw):
    v = args[0]
    n = FreshInt('pickledLen')
    I.ctx.assume(n >= 1)
    if isinstance(v, tuple) and len(v) == 3 and isinstance(v[0], CmdV):
        # T-PICKLE: a pickled entry is strictly longer than its command bytes
        I.ctx.assume(n > _clen(to_z3(v[0].id)))
    return Pickled(v, n)


def bchr(I, args, kw):
    return TypeByte(args[0])


def _pdict_update_kw(I, ref, c, name, args, kw, orig=None):
    pass


EXTERNALS = {
    'monotonicTime': clock, 'monotonic.monotonic': clock, 'time.time': clock,
    'random.random': rand,
    'pickle.loads': pickle_loads, 'pickle.dumps': pickle_dumps, 'pysyncobj.pickle.loads': pickle_loads,
    'pysyncobj.pickle.dumps': pickle_dumps,
    '_bchr': bchr,
    'time.sleep': lambda I, a, k: None,
}

REGISTRY_BASE = {
    'Transport.send': transport_send,
    'PipeNotifier.notify': lambda I, s, a, k: None,
    'Serializer.cancelTransmisstion': cancel_transmission,
}

HOOKS_BASE = {
    'call:user': user_callback,
    'call:method': user_method,
    'bases': {},
}

# one-line helpers whose real body is executed in place (still the real code, not a contract)
INLINE_TRIVIAL = {
    'SyncObj.__getCurrentLogIndex', 'SyncObj.__getCurrentLogTerm', 'SyncObj.__setState', 'SyncObj._isLeader',
    'SyncObj.__connectedToAnyone', 'SyncObj.__generateRaftTimeout', 'SyncObj.__deleteEntriesFrom',
    'SyncObj.__deleteEntriesTo', 'SyncObj.__sendNextNodeIdx', 'SyncObj.__getPrevLogIndexTerm',
    'SyncObj.__parseChangeClusterRequest', 'SyncObj.__callErrCallback', 'iteritems',
}


def make_interp(ctx, so, registry=None, inline=(), loops=None, hooks=None, externals=None):
    reg = dict(REGISTRY_BASE)
    reg.update(registry or {})
    hk = dict(HOOKS_BASE)
    hk['so'] = so
    hk.update(hooks or {})
    ext = dict(EXTERNALS)
    ext.update(externals or {})
    I = Interp(ctx, registry=reg, externals=ext, inline=set(INLINE_TRIVIAL) | set(inline), loop_invariants=loops or {}, hooks=hk)
    I.cur_mod = so.mod
    return I


def bind_bchr(mod):
    """module-level `_bchr = functools.partial(struct.pack, 'B')` is modelled by the external '_bchr'"""
    mod.assigns.pop('_bchr', None)


def run_method(I, so, qual, args=(), kwargs=None):
    """execute the real body of SyncObj.<name>; returns ('ok', value) or ('raise', PyExc)"""
    mod = so.mod
    bind_bchr(mod)
    fn, ci = mod.find(qual)
    if fn is None:
        raise Undecided('%s not found in %s' % (qual, mod.relpath))
    try:
        v = I.call_funcdef(fn, mod, ci.name if ci else None, so.selfref, list(args), kwargs or {}, None, qual)
        return 'ok', v
    except PyExc as e:
        return 'raise', e


def run_region(I, so, qual, stmts, locals_=None, loop=None):
    """run statements of the real function as a region.  With loop=<ast.While> the region is one round of that loop: its real test is
    evaluated first (the path on which it is false returns ('not-entered', None, fr)), so a condition moved between the loop test and the
    loop body by a refactoring is seen either way"""
    mod = so.mod
    bind_bchr(mod)
    fn, ci = mod.find(qual)
    fr = Frame(mod, ci.name if ci else None, qual)
    fr.locals['self'] = so.selfref
    fr.locals.update(locals_ or {})
    from pyvc.interp import _Return
    if loop is not None and isinstance(loop, ast.While):
        if not I.truth(I.eval(loop.test, fr), 'while-test'):
            return 'not-entered', None, fr
    try:
        I.exec_block(stmts, fr)
        return 'ok', None, fr
    except _Return as r:
        return 'return', r.v, fr
    except PyExc as e:
        return 'raise', e, fr
