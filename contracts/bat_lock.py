"""C16: contracts on _ReplLockManagerImpl (acquire / prolongate / release / isAcquired), the single-step rule S and
lemma L-LOCK over the same spec functions."""
import ast
import time as _time
import z3
from pyvc.values import *   # noqa
from pyvc.harness import unit, mutate_function, replace_compare
from pyvc.ctx import Undecided, PathCtx
from pyvc.interp import Interp, PyExc, Frame
from pyvc import source

BAT = 'pysyncobj/batteries.py'
CLS = '_ReplLockManagerImpl'
FL = lambda n: '_%s__%s' % (CLS.lstrip('_'), n)
NLOCKS = 3


# ---------------------------------------------------------------- spec functions (from the statement of C16)
# an entry is (present, holder, stamp)
def spec_acquire(e, client, now, T):
    p, h, s = e
    free = Or(Not(p), now - s > T)
    can = Or(free, h == client)
    return can, (Or(p, can), Ite(can, client, h), Ite(can, now, s))


def spec_prolongate(e, client, now, T):
    p, h, s = e
    expired = now - s > T
    return (And(p, Not(expired)), h, Ite(And(p, Not(expired), h == client), now, s))


def spec_release(e, client):
    p, h, s = e
    return (And(p, Not(h == client)), h, s)


def spec_is_acquired(e, client, now, T):
    p, h, s = e
    return And(p, h == client, now - s < T)


def kv_lookup(entries, key):
    """(present, holder, stamp) of `key` in a KVDict entry list (later entries shadow earlier ones)"""
    p, h, s = False, z3.IntVal(0), z3.RealVal(0)
    for pres, k, v in entries:
        hit = And(pres, Eq(k, key))
        p = Ite(hit, True, p) if not isinstance(hit, bool) else (True if hit else p)
        h = Ite(hit, v[0], h)
        s = Ite(hit, v[1], s)
    return (p, h, s)


def mk_locks(ctx):
    ents = []
    keys = []
    for j in range(NLOCKS):
        k = FreshInt('lockId%d' % j)
        keys.append(k)
        ents.append((FreshBool('lockPresent%d' % j), k, (FreshInt('holder%d' % j), FreshReal('stamp%d' % j))))
    for a in range(NLOCKS):
        for b in range(a + 1, NLOCKS):
            ctx.assume(keys[a] != keys[b])
    T = FreshReal('autoUnlockTime')
    ctx.assume(T > 0)
    locks = ctx.alloc(KVDict(ents))
    obj = ctx.alloc(PObj(CLS, {FL('locks'): locks, FL('autoUnlockTime'): T, '_syncObj': None}))
    ctx.track('locks', [dict(present=p, id=k, holder=v[0], stamp=v[1]) for p, k, v in ents])
    ctx.track('autoUnlockTime', T)
    return obj, locks, ents, keys, T


def run_lock_method(ctx, obj, name, args):
    mod = source.load(BAT)
    fn, ci = mod.find('%s.%s' % (CLS, name))
    if fn is None:
        raise Undecided('%s.%s not found' % (CLS, name))
    # the replica's own clock: whatever it reads is unrelated to the timestamp the command carries (replicas apply a command at different times) -
    # a replicated method whose effect depends on it is not replica-deterministic and cannot equal the spec function
    I = Interp(ctx, inline=set(), externals={'time.time': lambda I_, a, k: FreshReal('replicaLocalClock'),
                                             'monotonicTime': lambda I_, a, k: FreshReal('replicaLocalClock')})
    try:
        return 'ok', I.call_funcdef(fn, mod, CLS, obj, list(args), {}, None, '%s.%s' % (CLS, name)), I
    except PyExc as e:
        return 'raise', e, I


def probe_keys(ctx, keys, extra):
    """an arbitrary lock id: one of the stored ones, the argument, or a fresh one"""
    q = FreshInt('probeLock')
    ctx.track('probeLock', q)
    return q


@unit(name='lock.acquire', relpath=BAT, qual=['%s.acquire' % CLS], props=['C16'],
      doc='functional contract of acquire + single-step rule S: the holder of a lock changes to another client only in a call '
          'whose currentTime exceeds the stamp by more than the auto-unlock time',
      assumptions=['A-REAL'],
      canaries=[('expiry-lt', lambda mod: mutate_function(mod, '%s.acquire' % CLS, lambda fn: replace_compare(fn, lambda n: True, ast.Gt, ast.Lt, 0)),
                 ['acquire.equals-spec'])])
def lock_acquire(ctx):
    obj, locks, ents, keys, T = mk_locks(ctx)
    lid, client, now = FreshInt('lockID'), FreshInt('clientID'), FreshReal('currentTime')
    for k, v in (('lockID', lid), ('clientID', client), ('currentTime', now)):
        ctx.track(k, v)
    kind, v, I = run_lock_method(ctx, obj, 'acquire', [lid, client, now])
    ctx.prove(kind == 'ok', 'C16:acquire.no-exception', info=getattr(v, 'typ', None))
    if kind != 'ok':
        return
    new = ctx.cell(locks).entries
    q = probe_keys(ctx, keys, lid)
    e0, e1 = kv_lookup(ents, q), kv_lookup(new, q)
    can, want = spec_acquire(kv_lookup(ents, lid), client, now, T)
    ctx.prove(Iff(I.truth_expr(v), can), 'C16:acquire.result-equals-spec')
    ctx.prove(Implies(q == lid, And(Iff(e1[0], want[0]), Implies(want[0], And(e1[1] == want[1], e1[2] == want[2])))), 'C16:acquire.equals-spec')
    ctx.prove(Implies(q != lid, And(Iff(e1[0], e0[0]), Implies(e0[0], And(e1[1] == e0[1], e1[2] == e0[2])))), 'C16:acquire.other-locks-untouched')
    # S
    ctx.prove(Implies(And(e0[0], e1[0], e1[1] != e0[1]), now > e0[2] + T), 'C16:S.holder-changes-only-after-expiry')
    ctx.prove(Implies(And(e0[0], Not(e1[0])), False), 'C16:S.acquire-never-frees-a-lock')
    el = kv_lookup(ents, lid)
    ctx.prove(Implies(And(el[0], now - el[2] > T), can), 'C16:acquire.obtainable-after-auto-unlock-time')


@unit(name='lock.prolongate', relpath=BAT, qual=['%s.prolongate' % CLS], props=['C16'],
      doc='prolongate: expired locks are deleted, the caller\'s live locks are re-stamped, all others untouched',
      canaries=[('restamp-all', lambda mod: mutate_function(mod, '%s.prolongate' % CLS, _mut_restamp_all), ['prolongate.equals-spec'])])
def lock_prolongate(ctx):
    obj, locks, ents, keys, T = mk_locks(ctx)
    client, now = FreshInt('clientID'), FreshReal('currentTime')
    ctx.track('clientID', client)
    ctx.track('currentTime', now)
    kind, v, I = run_lock_method(ctx, obj, 'prolongate', [client, now])
    ctx.prove(kind == 'ok', 'C16:prolongate.no-exception', info=getattr(v, 'typ', None))
    if kind != 'ok':
        return
    new = ctx.cell(locks).entries
    q = probe_keys(ctx, keys, None)
    e0, e1 = kv_lookup(ents, q), kv_lookup(new, q)
    want = spec_prolongate(e0, client, now, T)
    ctx.prove(And(Iff(e1[0], want[0]), Implies(want[0], And(e1[1] == want[1], e1[2] == want[2]))), 'C16:prolongate.equals-spec')
    ctx.prove(Implies(And(e0[0], e1[0]), e1[1] == e0[1]), 'C16:S.prolongate-never-changes-holder')
    ctx.prove(Implies(And(e0[0], Not(e1[0])), now > e0[2] + T), 'C16:S.prolongate-frees-only-expired')


def _mut_restamp_all(fn):
    cnt = 0
    for n in ast.walk(fn):
        if isinstance(n, ast.If) and isinstance(n.test, ast.Compare) and isinstance(n.test.left, ast.Name) and n.test.left.id == 'lockClientID':
            n.test = ast.Constant(value=True)
            cnt += 1
    return cnt


@unit(name='lock.release', relpath=BAT, qual=['%s.release' % CLS], props=['C16'],
      doc='release has an effect only if the caller holds the lock',
      canaries=[('ignore-client', lambda mod: mutate_function(mod, '%s.release' % CLS, _mut_release_any), ['release.equals-spec'])])
def lock_release(ctx):
    obj, locks, ents, keys, T = mk_locks(ctx)
    lid, client = FreshInt('lockID'), FreshInt('clientID')
    ctx.track('lockID', lid)
    ctx.track('clientID', client)
    kind, v, I = run_lock_method(ctx, obj, 'release', [lid, client])
    ctx.prove(kind == 'ok', 'C16:release.no-exception', info=getattr(v, 'typ', None))
    if kind != 'ok':
        return
    new = ctx.cell(locks).entries
    q = probe_keys(ctx, keys, lid)
    e0, e1 = kv_lookup(ents, q), kv_lookup(new, q)
    want = spec_release(kv_lookup(ents, lid), client)
    ctx.prove(Implies(q == lid, And(Iff(e1[0], want[0]), Implies(want[0], And(e1[1] == want[1], e1[2] == want[2])))), 'C16:release.equals-spec')
    ctx.prove(Implies(q != lid, And(Iff(e1[0], e0[0]), Implies(e0[0], And(e1[1] == e0[1], e1[2] == e0[2])))), 'C16:release.other-locks-untouched')
    ctx.prove(Implies(And(e0[0], Not(e1[0])), And(q == lid, e0[1] == client)), 'C16:S.only-the-holder-can-release')
    ctx.prove(Implies(And(e0[0], e1[0]), And(e1[1] == e0[1], e1[2] == e0[2])), 'C16:S.release-never-changes-holder')


def _mut_release_any(fn):
    cnt = 0
    for n in ast.walk(fn):
        if isinstance(n, ast.If) and isinstance(n.test, ast.BoolOp):
            n.test = n.test.values[0]
            cnt += 1
    return cnt


@unit(name='lock.isAcquired', relpath=BAT, qual=['%s.isAcquired' % CLS], props=['C16'],
      doc='isAcquired(lock, client, now) <=> stored holder is client and now - stamp < auto-unlock time; pure',
      canaries=[('ignore-expiry', lambda mod: mutate_function(mod, '%s.isAcquired' % CLS, lambda fn: replace_compare(fn, lambda n: isinstance(n.left, ast.BinOp), ast.Lt, ast.GtE, 0)),
                 ['isAcquired.equals-spec'])])
def lock_is_acquired(ctx):
    obj, locks, ents, keys, T = mk_locks(ctx)
    lid, client, now = FreshInt('lockID'), FreshInt('clientID'), FreshReal('currentTime')
    kind, v, I = run_lock_method(ctx, obj, 'isAcquired', [lid, client, now])
    ctx.prove(kind == 'ok', 'C16:isAcquired.no-exception')
    if kind != 'ok':
        return
    ctx.prove(Iff(I.truth_expr(v), spec_is_acquired(kv_lookup(ents, lid), client, now, T)), 'C16:isAcquired.equals-spec')
    ctx.prove(ctx.cell(locks).entries == ents or all(a is b for a, b in zip(ctx.cell(locks).entries, ents)), 'C16:isAcquired.pure')


# ---------------------------------------------------------------- L-LOCK (L2): mutual exclusion across a lagging and a current replica
def lemma_lock():
    """Over the spec functions the units above prove the code equal to.  One lock, one command log.  A lagging replica still
    shows (a, ta).  Ghost: rt = real (common-clock) time at which the last command of the current replica's prefix was
    applied (non-decreasing); every command's timestamp is a clock reading taken before it was applied (now <= rt');
    one client's timestamps are non-decreasing in log order (A-LOCKTIME).  Flags: rel = a released the lock itself,
    lost = a's tenure ended otherwise.
    Inv :=  rel  or  (not lost and cur == (present, a, stamp >= ta))  or  (lost and rt > ta + T).
    Conclusion: a client b != a that sees itself as holder on the current replica at an instant t >= rt excludes a seeing
    itself as holder on the lagging replica at t (unless a released)."""
    out = []
    T = z3.Real('T')
    a, ta = z3.Int('a'), z3.Real('ta')
    p, b, tb = z3.Bool('p'), z3.Int('b'), z3.Real('tb')
    rel, lost, rt = z3.Bool('rel'), z3.Bool('lost'), z3.Real('rt')
    c, now, rt1 = z3.Int('c'), z3.Real('cmd_time'), z3.Real('rt1')

    def inv(e, rel_, lost_, rt_):
        pp, hh, ss = e
        return z3.Or(rel_, z3.And(z3.Not(lost_), pp, hh == a, ss >= ta), z3.And(lost_, rt_ > ta + T))

    def discharge(name, hyps, goal):
        s_ = z3.Solver()
        s_.set('timeout', 10000)
        t0 = _time.time()
        for h in hyps:
            s_.add(h)
        s_.add(z3.Not(goal))
        r = s_.check()
        out.append(dict(id='C16:L-LOCK.' + name, unit='lemma.L-LOCK', path='lemma',
                        status='discharged' if r == z3.unsat else ('failed' if r == z3.sat else 'unknown'),
                        solver='z3py-%s' % z3.get_version_string(), secs=_time.time() - t0,
                        model=(str(s_.model()) if r == z3.sat else None), info=None, line=None))
    cur = (p, b, tb)
    step = [T > 0, rt1 >= rt, now <= rt1, z3.Implies(z3.And(p, b == c), now >= tb), inv(cur, rel, lost, rt)]

    def lost_after(e1):
        # a's tenure has ended (other than by release) if a was the holder and no longer is
        return z3.Or(lost, z3.And(z3.Not(rel), z3.Not(z3.And(e1[0], e1[1] == a))))
    discharge('Inv.init', [T > 0], inv((z3.BoolVal(True), a, ta), z3.BoolVal(False), z3.BoolVal(False), rt))
    can, e1 = spec_acquire(cur, c, now, T)
    discharge('Inv.step.acquire', step, inv(e1, rel, lost_after(e1), rt1))
    e2 = spec_prolongate(cur, c, now, T)
    discharge('Inv.step.prolongate', step, inv(e2, rel, lost_after(e2), rt1))
    e3 = spec_release(cur, c)
    rel3 = z3.Or(rel, z3.And(c == a, p, b == a))
    discharge('Inv.step.release', step, inv(e3, rel3, z3.Or(lost, z3.And(z3.Not(rel3), z3.Not(z3.And(e3[0], e3[1] == a)))), rt1))
    t = z3.Real('instant')
    lag = (z3.BoolVal(True), a, ta)
    discharge('exclusion-lagging-vs-current', [T > 0, inv(cur, rel, lost, rt), z3.Not(rel), b != a, t >= rt],
              z3.Not(z3.And(spec_is_acquired(lag, a, t, T), spec_is_acquired(cur, b, t, T))))
    x, y = z3.Int('x'), z3.Int('y')
    discharge('exclusion-same-replica', [T > 0, x != y], z3.Not(z3.And(spec_is_acquired(cur, x, t, T), spec_is_acquired(cur, y, t, T))))
    # vacuity guards
    s_ = z3.Solver()
    for h in step:
        s_.add(h)
    out.append(dict(id='C16:L-LOCK.cover.step-hypotheses-satisfiable', unit='lemma.L-LOCK', path='lemma',
                    status='discharged' if s_.check() == z3.sat else 'failed', solver='z3py', secs=0.0, model=None, info=None, line=None))
    return out


# ---------------------------------------------------------------- client wrapper: late-acquire check
@unit(name='lock.tryAcquire', relpath=BAT, qual=['ReplLockManager.tryAcquire'], props=['C16'], cases=[dict(sync=True), dict(sync=False)],
      doc='a client whose acquisition took longer than half the auto-unlock time is told it failed and a release is submitted; otherwise the '
          'result of the replicated acquire is passed on unchanged; the timestamp sent is the one read before submitting',
      assumptions=['A-CLOCK', 'A-REAL'], trusted=['the replicated call itself (C02)'],
      canaries=[('late-check-dropped', lambda mod: mutate_function(mod, 'ReplLockManager.tryAcquire', _mut_drop_late_check), ['tryAcquire.late-acquisition-reported-as-failure'])])
def lock_try_acquire(ctx, sync):
    mod = source.load(BAT)
    fn, ci = mod.find('ReplLockManager.tryAcquire')
    if fn is None:
        raise Undecided('ReplLockManager.tryAcquire not found')
    T = FreshReal('autoUnlockTime')
    ctx.assume(T > 0)
    calls = []
    clock = [FreshReal('t0')]
    res = FreshBool('acquireResult')

    def now(I, a, k):
        t = FreshReal('t')
        I.ctx.assume(t >= clock[-1])
        clock.append(t)
        return t

    def acquire(I, selfv, a, k):
        calls.append(('acquire', tuple(a), dict(k)))
        return res if sync else None

    def release(I, selfv, a, k):
        calls.append(('release', tuple(a), dict(k)))
    impl = ctx.alloc(PObj('_ReplLockManagerImpl', {}))
    mgr = ctx.alloc(PObj('ReplLockManager', {'_ReplLockManager__lockImpl': impl, '_ReplLockManager__selfID': 'me', '_ReplLockManager__autoUnlockTime': T}))
    fired = []
    I = Interp(ctx, registry={'_ReplLockManagerImpl.acquire': acquire, '_ReplLockManagerImpl.release': release}, externals={'time.time': now},
               hooks={'call:user': lambda I_, f, a, k: fired.append(tuple(a))})
    cb = Callable_('user:cb')
    lid = Opaque('lock', FreshInt('lock'))
    r = I.call_funcdef(fn, mod, 'ReplLockManager', mgr, [lid], {'sync': sync, 'callback': (None if sync else cb)}, None, 'ReplLockManager.tryAcquire')
    acq = [c for c in calls if c[0] == 'acquire']
    ctx.prove(len(acq) == 1 and acq[0][1][0] is lid and acq[0][1][1] == 'me' and acq[0][1][2] is clock[1], 'C16:tryAcquire.submits-one-acquire-stamped-before-submission')
    if sync:
        t_att, t_acq = clock[1], clock[2]
        late = And(res, t_acq - t_att > T / 2)
        rel = [c for c in calls if c[0] == 'release']
        ctx.prove(Iff(I.truth_expr(r), And(res, Not(late))), 'C16:tryAcquire.late-acquisition-reported-as-failure')
        ctx.prove(Implies(late, len(rel) == 1) if len(rel) != 1 else True, 'C16:tryAcquire.late-acquisition-is-released')
        ctx.prove(Implies(Not(late), len(rel) == 0) if rel else True, 'C16:tryAcquire.no-release-otherwise')
        return
    # async: the callback handed to acquire is the closure asyncCallback; run it with an arbitrary result
    acb = acq[0][2].get('callback') if acq else None
    from pyvc.interp import FuncVal
    ctx.prove(isinstance(acb, FuncVal), 'C16:tryAcquire.async-wraps-the-callback')
    if not isinstance(acb, FuncVal):
        return
    n0 = len(clock)
    I.call(acb, [res, 0], {}, Frame(mod, 'ReplLockManager', 'cb'))
    rel = [c for c in calls if c[0] == 'release']
    ctx.prove(len(fired) == 1, 'C16:tryAcquire.user-callback-fired-once')
    if ctx.decide(res, 'acquired'):
        t_att, t_acq = clock[1], clock[n0]
        late = t_acq - t_att > T / 2
        ctx.prove(Iff(I.truth_expr(fired[0][0]), Not(late)), 'C16:tryAcquire.late-acquisition-reported-as-failure')
        ctx.prove(Implies(late, len(rel) == 1) if len(rel) != 1 else True, 'C16:tryAcquire.late-acquisition-is-released')
    else:
        ctx.prove(And(Not(I.truth_expr(fired[0][0])), len(rel) == 0), 'C16:tryAcquire.failure-passed-on')


def _mut_drop_late_check(fn):
    cnt = 0
    for n in ast.walk(fn):
        if isinstance(n, ast.If) and isinstance(n.test, ast.Compare) and any(isinstance(x, ast.Name) and x.id == 'attemptTime' for x in ast.walk(n.test)):
            n.test = ast.Constant(value=False)
            cnt += 1
    return cnt


# ---------------------------------------------------------------- client wrapper: delegation and periodic prolongation
@unit(name='lock.wrapper', relpath=BAT, qual=['ReplLockManager.isAcquired', 'ReplLockManager.release', 'ReplLockManager._autoAcquireThread', 'ReplLockManager.destroy'],
      props=['C16'],
      kind='isAcquired / release / destroy as functions; the body of the `while True` loop of _autoAcquireThread from an arbitrary wrapper state',
      doc='isAcquired asks the replicated state for this client\'s own id at the current clock reading; release submits a release for this client\'s '
          'own id (never another client\'s); the prolongation loop submits prolongate(own id, current clock reading) whenever a quarter of the '
          'auto-unlock time has passed since the last one and a leader is known, at most once per round, never for another client, and stops for '
          'good once destroy() was called or the main thread ended (so an abandoned lock expires after the auto-unlock time)',
      assumptions=['A-CLOCK', 'A-REAL'], trusted=['the replicated calls themselves (C02)', 'time.sleep'])
def lock_wrapper(ctx):
    mod = source.load(BAT)
    T = FreshReal('autoUnlockTime')
    ctx.assume(T > 0)
    calls = []
    clock = [FreshReal('t0')]

    def now(I, a, k):
        t = FreshReal('t')
        I.ctx.assume(t >= clock[-1])
        clock.append(t)
        return t

    def rec(name, ret=None):
        def f(I, selfv, a, k):
            calls.append((name, tuple(a), dict(k)))
            return ret
        return f
    held = FreshBool('implSaysHeld')
    leader_known = FreshBool('leaderKnown')
    has_so = FreshBool('boundToSyncObj')
    alive, destroying = FreshBool('mainThreadAlive'), FreshBool('destroying')
    last = FreshReal('lastProlongateTime')
    ctx.assume(last <= clock[0])
    so = ctx.alloc(PObj('SyncObj', {}))
    impl = ctx.alloc(PObj('_ReplLockManagerImpl', {'_syncObj': Opt(Not(has_so), so)}))
    thr = ctx.alloc(PObj('Thread', {}))
    mgr = ctx.alloc(PObj('ReplLockManager', {'_ReplLockManager__lockImpl': impl, '_ReplLockManager__selfID': 'me', '_ReplLockManager__autoUnlockTime': T,
                                             '_ReplLockManager__mainThread': thr, '_ReplLockManager__destroying': destroying,
                                             '_ReplLockManager__lastProlongateTime': last, '_ReplLockManager__initialised': ctx.alloc(PObj('Event', {}))}))
    reg = {'_ReplLockManagerImpl.isAcquired': rec('isAcquired', held), '_ReplLockManagerImpl.release': rec('release'),
           '_ReplLockManagerImpl.prolongate': rec('prolongate'), 'Thread.is_alive': lambda I, s, a, k: alive,
           'SyncObj._getLeader': lambda I, s, a, k: Opt(Not(leader_known), NodeV(0)), 'Event.set': lambda I, s, a, k: None}
    I = Interp(ctx, registry=reg, externals={'time.time': now, 'time.sleep': lambda I_, a, k: None, 'float': lambda I_, a, k: a[0]})
    I.cur_mod = mod
    ctx.universe = 2
    lid = Opaque('lock', FreshInt('lock'))
    # -- isAcquired
    fn, ci = mod.find('ReplLockManager.isAcquired')
    r = I.call_funcdef(fn, mod, 'ReplLockManager', mgr, [lid], {}, None, 'ReplLockManager.isAcquired')
    q = [c for c in calls if c[0] == 'isAcquired']
    ctx.prove(len(q) == 1 and q[0][1][0] is lid and q[0][1][1] == 'me' and q[0][1][2] is clock[-1], 'C16:wrapper.isAcquired-asks-for-own-id-at-current-time')
    ctx.prove(Iff(I.truth_expr(r), held), 'C16:wrapper.isAcquired-returns-the-replicated-answer')
    # -- release
    del calls[:]
    fn, ci = mod.find('ReplLockManager.release')
    cb = Callable_('user:cb')
    I.call_funcdef(fn, mod, 'ReplLockManager', mgr, [lid], {'callback': cb}, None, 'ReplLockManager.release')
    q = [c for c in calls if c[0] == 'release']
    ctx.prove(len(q) == 1 and q[0][1][0] is lid and q[0][1][1] == 'me', 'C16:wrapper.release-names-own-id-only')
    ctx.prove(len(q) == 1 and q[0][2].get('callback') is cb, 'C16+C02:wrapper.release-forwards-the-callback')
    ctx.prove(not any(c[0] in ('prolongate', 'isAcquired') for c in calls), 'C16:wrapper.release-does-nothing-else')
    # -- one round of the prolongation loop
    del calls[:]
    fn, ci = mod.find('ReplLockManager._autoAcquireThread')
    loops = [s for s in ast.walk(fn) if isinstance(s, ast.While)]
    if len(loops) != 1:
        raise Undecided('the loop of _autoAcquireThread was not located')
    fr = Frame(mod, 'ReplLockManager', 'ReplLockManager._autoAcquireThread')
    fr.locals['self'] = mgr
    from pyvc.interp import _Break, _Continue
    n0 = len(clock)
    left = False
    # one round of the loop: its real test first (a condition may live in the test or in the body), then the body
    if not I.truth(I.eval(loops[0].test, fr), 'while-test'):
        left = True
    else:
        try:
            I.exec_block(loops[0].body, fr)
        except _Break:
            left = True
        except _Continue:
            pass
    pro = [c for c in calls if c[0] == 'prolongate']
    ctx.prove(len(pro) <= 1, 'C16:wrapper.at-most-one-prolongation-per-round')
    stop = Or(Not(alive), destroying)
    ctx.prove(Iff(stop, True) if left else Not(stop), 'C16:wrapper.loop-ends-iff-destroyed-or-main-thread-gone')
    if left:
        ctx.prove(len(pro) == 0, 'C16:wrapper.no-prolongation-after-destroy')
    t_check = clock[n0] if len(clock) > n0 else None
    if pro:
        a = pro[0][1]
        ctx.prove(a[0] == 'me', 'C16:wrapper.prolongs-own-id-only')
        ctx.prove(a[1] is clock[-1] or any(a[1] is t for t in clock[n0:]), 'C16:wrapper.prolongation-stamped-with-a-current-clock-reading')
        ctx.prove(And(has_so, leader_known), 'C16:wrapper.prolongs-only-with-a-known-leader')
        ctx.prove(t_check - last >= T / 4, 'C16:wrapper.prolongation-not-more-often-than-a-quarter-of-the-unlock-time')
        f = ctx.cell(mgr).fields
        ctx.prove(f['_ReplLockManager__lastProlongateTime'] >= t_check, 'C16:wrapper.last-prolongation-time-recorded')
    elif not left and t_check is not None:
        ctx.prove(Or(t_check - last < T / 4, Not(has_so), Not(leader_known)), 'C16:wrapper.prolongs-when-a-quarter-of-the-unlock-time-has-passed')
    # -- destroy
    fn, ci = mod.find('ReplLockManager.destroy')
    I.call_funcdef(fn, mod, 'ReplLockManager', mgr, [], {}, None, 'ReplLockManager.destroy')
    ctx.prove(ctx.cell(mgr).fields['_ReplLockManager__destroying'] is True, 'C16:wrapper.destroy-stops-the-prolongation-loop')
