"""Thorough-tier cross-checks on CPython (DESIGN §2.4.4 / §2.3 T-BUILTIN): the documentation-derived contracts of the batteries and
the lock spec functions are compared with the real classes executed natively on random small states.  A disagreement is a
checker error (the contract or the trusted builtin model is wrong), not a property violation."""
import collections
import heapq
import os
import random
import sys
import time
import z3
from pyvc.values import *   # noqa


def _cval(x):
    if isinstance(x, z3.ExprRef):
        x = z3.simplify(x)
        if z3.is_true(x):
            return True
        if z3.is_false(x):
            return False
        if z3.is_int_value(x):
            return x.as_long()
        raise ValueError('not concrete: %s' % x)
    return x


def crosscheck_batteries(seed=0, rounds=40):
    sys.path.insert(0, os.environ.get('PYVC_REPO', '/repo'))
    import pysyncobj.batteries as B
    from contracts.bat_containers import SPECS, R
    rnd = random.Random(seed)
    out = []
    t0 = time.time()
    n_cmp = 0
    bad = []
    mk = {'list': lambda: [rnd.randint(0, 4) for _ in range(rnd.randint(0, 4))],
          'dict': lambda: dict((rnd.choice('abc'), rnd.randint(0, 3)) for _ in range(rnd.randint(0, 3))),
          'set': lambda: set(rnd.randint(0, 4) for _ in range(rnd.randint(0, 3))),
          'deque': lambda: collections.deque(rnd.randint(0, 4) for _ in range(rnd.randint(0, 3)))}
    for cls, (kind, table) in SPECS.items():
        for meth, (names, defaults, spec) in table.items():
            if meth in ('reset', 'rawData', 'update', 'extend', 'keys', 'values', 'items'):
                continue
            for _ in range(rounds):
                state = mk[kind]()
                if cls == 'ReplPriorityQueue':
                    heapq.heapify(state)
                if kind == 'set' and meth == 'pop' and len(state) > 1:
                    continue      # arbitrary element: known finding D15
                maxsize = rnd.choice([0, 0, 2, 3])
                obj = getattr(B, cls)() if cls not in ('ReplQueue', 'ReplPriorityQueue') else getattr(B, cls)(maxsize)
                setattr(obj, '_%s__data' % cls, type(state)(state))
                ref = type(state)(state)
                omit = bool(defaults) and rnd.random() < 0.4
                a = {}
                call = []
                for nm in names:
                    if nm in defaults and omit:
                        a[nm] = defaults[nm]
                        continue
                    v = {'position': rnd.randint(-1, 4), 'key': rnd.choice('abcz'), 'reverse': rnd.random() < 0.5}.get(nm, rnd.randint(0, 5))
                    a[nm] = v
                    call.append(v)
                alts = spec(a, len(state), maxsize)
                chosen = [x for x in alts if _cval(x[0])]
                if len(chosen) != 1:
                    bad.append('%s.%s: %d spec cases apply' % (cls, meth, len(chosen)))
                    continue
                _, trace, want_ret = chosen[0]
                # the builtin side
                exp = ('ok', None)
                try:
                    r = None
                    for op, args in trace:
                        if op.endswith('!raises'):
                            if isinstance(want_ret, tuple) and want_ret[0] == 'raises':
                                raise (KeyError if kind == 'set' else IndexError)()
                            continue      # the battery catches the builtin's error itself (documented default)
                        args = [x for x in args]
                        kw = dict((x[1], x[2]) for x in args if isinstance(x, tuple) and x and x[0] == 'kw')
                        args = [x for x in args if not (isinstance(x, tuple) and x and x[0] == 'kw')]
                        if op.startswith('heapq.'):
                            r = getattr(heapq, op.split('.')[1])(ref, *args)
                        else:
                            r = getattr(ref, op)(*args, **kw)
                    if want_ret == R:
                        exp = ('ok', r)
                    elif isinstance(want_ret, tuple):
                        tag = want_ret[0]
                        exp = ('ok', {'len': len(state), 'bool': None, 'arg': a.get(want_ret[1]) if tag == 'arg' else None, 'contains': r}.get(tag))
                        if tag == 'bool':
                            exp = ('ok', _cval(want_ret[1]))
                        if tag == 'raises':
                            exp = ('raise', want_ret[1])
                    else:
                        exp = ('ok', want_ret)
                except Exception as e:
                    exp = ('raise', type(e).__name__)
                try:
                    got = ('ok', getattr(obj, meth)(*call, **({'_doApply': True} if getattr(getattr(B, cls), meth).__dict__.get('replicated') else {})))
                except Exception as e:
                    got = ('raise', type(e).__name__)
                n_cmp += 1
                data = getattr(obj, '_%s__data' % cls)
                if got != exp or data != ref:
                    bad.append('%s(%r, maxsize=%r).%s%r: real %r / %r, contract+builtin %r / %r' % (cls, state, maxsize, meth, tuple(call), got, data, exp, ref))
    out.append(dict(id='C15:CROSSCHECK.contracts-and-T-BUILTIN-agree-with-CPython', unit='crosscheck.batteries', path='%d native comparisons, seed %d' % (n_cmp, seed),
                    status='discharged' if not bad else 'checker-error', solver='cpython-differential(bounded)', secs=time.time() - t0,
                    model={'disagreements': bad[:5]}, info=(bad[0] if bad else '%d comparisons agree' % n_cmp), line=None, bounded=True))
    return out


def crosscheck_locks(seed=0, rounds=400):
    sys.path.insert(0, os.environ.get('PYVC_REPO', '/repo'))
    import pysyncobj.batteries as B
    from contracts.bat_lock import spec_acquire, spec_prolongate, spec_release, spec_is_acquired
    rnd = random.Random(seed)
    bad = []
    t0 = time.time()
    T = 10.0
    for _ in range(rounds):
        impl = B._ReplLockManagerImpl(T)
        locks = {}
        for _ in range(rnd.randint(0, 3)):
            locks[rnd.choice('xyz')] = (rnd.choice('ab'), float(rnd.randint(0, 30)))
        setattr(impl, '_ReplLockManagerImpl__locks', dict(locks))
        op = rnd.choice(['acquire', 'prolongate', 'release', 'isAcquired'])
        lid, cl, now = rnd.choice('xyz'), rnd.choice('ab'), float(rnd.randint(0, 45))
        cid = {'a': 1, 'b': 2}

        def entry(k):
            if k in locks:
                return (True, z3.IntVal(cid[locks[k][0]]), z3.RealVal(locks[k][1]))
            return (False, z3.IntVal(0), z3.RealVal(0))

        def conc(e):
            p = _cval(e[0]) if not isinstance(e[0], bool) else e[0]
            if not p:
                return None
            h = z3.simplify(e[1]).as_long()
            s = z3.simplify(e[2])
            return ({1: 'a', 2: 'b'}[h], float(s.numerator_as_long()) / float(s.denominator_as_long()))
        want = dict(locks)
        if op == 'acquire':
            got = impl.acquire(lid, cl, now, _doApply=True)
            can, e1 = spec_acquire(entry(lid), z3.IntVal(cid[cl]), z3.RealVal(now), z3.RealVal(T))
            exp = bool(_cval(can))
            c = conc(e1)
            if c is None:
                want.pop(lid, None)
            else:
                want[lid] = c
        elif op == 'prolongate':
            got = impl.prolongate(cl, now, _doApply=True)
            exp = None
            for k in list(want):
                c = conc(spec_prolongate(entry(k), z3.IntVal(cid[cl]), z3.RealVal(now), z3.RealVal(T)))
                if c is None:
                    del want[k]
                else:
                    want[k] = c
        elif op == 'release':
            got = impl.release(lid, cl, _doApply=True)
            exp = None
            c = conc(spec_release(entry(lid), z3.IntVal(cid[cl])))
            if c is None:
                want.pop(lid, None)
        else:
            got = impl.isAcquired(lid, cl, now)
            exp = bool(_cval(spec_is_acquired(entry(lid), z3.IntVal(cid[cl]), z3.RealVal(now), z3.RealVal(T))))
        if got != exp or getattr(impl, '_ReplLockManagerImpl__locks') != want:
            bad.append('%s(%r,%r,%r) on %r: real %r/%r spec %r/%r' % (op, lid, cl, now, locks, got, getattr(impl, '_ReplLockManagerImpl__locks'), exp, want))
    return [dict(id='C16:CROSSCHECK.spec-functions-agree-with-CPython', unit='crosscheck.locks', path='%d native comparisons, seed %d' % (rounds, seed),
                 status='discharged' if not bad else 'checker-error', solver='cpython-differential(bounded)', secs=time.time() - t0,
                 model={'disagreements': bad[:5]}, info=(bad[0] if bad else '%d comparisons agree' % rounds), line=None, bounded=True)]


def crosscheck_handlers(seed=0, rounds=60):
    """engine-vs-CPython cross-check (DESIGN §2.4.4): random concrete pre-states and messages are pushed through the real
    SyncObj.__onMessageReceived under CPython and through the pyvc interpreter (same AST, same summaries as the units); the
    post-states must agree.  A disagreement is a checker error (unsound engine or wrong summary)."""
    sys.path.insert(0, os.environ.get('PYVC_REPO', '/repo'))
    here = os.path.dirname(os.path.dirname(os.path.abspath(__file__)))
    sys.path.insert(0, here)
    import replay as native
    from pyvc.ctx import PathCtx, PathAbort
    from contracts.so_model import SO, make_interp, run_method, LogCell, CmdV, F, _ctype
    from contracts.so_common import SUMMARIES
    from contracts.so_msg import HANDLER, INL
    rnd = random.Random(seed)
    bad = []
    t0 = time.time()
    done = 0
    U = 3
    for _ in range(rounds):
        n = rnd.randint(1, 5)
        terms = sorted(rnd.randint(0, 3) for _ in range(n))
        model = {'voters': [rnd.random() < 0.8 for _ in range(U)] + [False], 'raftState': rnd.randint(0, 2), 'raftCurrentTerm': rnd.randint(max(terms), 4),
                 'votedForNodeId': rnd.choice([None, 0, 1, U]), 'votesCount': rnd.randint(0, 2), 'raftCommitIndex': rnd.randint(1, n), 'raftLastApplied': 1,
                 'log_first': 1, 'log_len': n, 'log_terms_0_7': terms + [0] * 8, 'node': rnd.randint(0, U - 1),
                 'next': {'present': [True] * U, 'vals': [rnd.randint(1, n + 1) for _ in range(U)]},
                 'match': {'present': [True] * U, 'vals': [rnd.randint(0, n) for _ in range(U)]},
                 'lastResp': {'present': [True] * U, 'vals': [0.0] * U}}
        kind = rnd.choice(['request_vote', 'next_node_idx', 'append_entries'])
        if kind == 'request_vote':
            msg = {'type': kind, 'term': rnd.randint(0, 5), 'last_log_index': rnd.randint(0, n + 1), 'last_log_term': rnd.randint(0, 4)}
        elif kind == 'next_node_idx':
            msg = {'type': kind, 'next_node_idx': rnd.randint(1, n + 2), 'reset': rnd.random() < 0.5, 'success': rnd.random() < 0.5}
        else:
            p = rnd.randint(0, n + 1)
            k = rnd.randint(0, 3)
            et = sorted(rnd.randint(0, 4) for _ in range(k))
            msg = {'type': kind, 'term': rnd.randint(0, 5), 'commit_index': rnd.randint(0, n + 3), 'prevLogIdx': p,
                   'prevLogTerm': rnd.randint(0, 3), 'entries': [(b'\\x01', p + 1 + i, et[i]) for i in range(k)]}
        # ---- native
        r = native.mk_syncobj(model, U)
        if r is None:
            continue
        obj, tr, nodes = r
        try:
            obj._SyncObj__onMessageReceived(nodes[model['node']], dict(msg))
            nat_exc = None
        except Exception as e:
            nat_exc = type(e).__name__
        nat = dict(term=obj.raftCurrentTerm, role=getattr(obj, '_SyncObj__raftState'), commit=obj.raftCommitIndex,
                   voted=getattr(obj, '_SyncObj__votedForNodeId'), log=[(e[1], e[2]) for e in native.log_list(obj)],
                   sent=[sorted((k, v) for k, v in m.items() if k not in ('entries',)) for _, m in tr.sent],
                   match=[getattr(obj, '_SyncObj__raftMatchIndex').get(nd) for nd in nodes], exc=nat_exc)
        # ---- pyvc with every input concrete
        ctx = PathCtx()
        so = SO(ctx, U)
        c = ctx.cell(so.selfref)
        tl = list(terms)
        cmds = [FreshInt('c') for _ in range(n)]
        for cc in cmds:
            ctx.assume(_ctype(cc) == 1)
        lc = LogCell(1, n, (lambda i, cmds=cmds: pick_(i, cmds)), (lambda i, tl=tl: pick_(i, [z3.IntVal(t) for t in tl])), z3.IntVal(1))
        ctx.setcell(so.logref, lc)
        vf = model['votedForNodeId']
        c = c.with_field(F('raftState'), model['raftState']).with_field(F('raftCurrentTerm'), model['raftCurrentTerm'])
        c = c.with_field(F('votedForNodeId'), None if vf is None else NodeId(vf)).with_field(F('votesCount'), model['votesCount'])
        c = c.with_field(F('raftCommitIndex'), model['raftCommitIndex']).with_field(F('raftLastApplied'), 1)
        c = c.with_field(F('selfNode'), NodeV(U)).with_field(F('noopIDx'), 1)
        ctx.setcell(so.selfref, c)
        ctx.setcell(so.other, NSet(list(model['voters'])))
        ctx.setcell(so.readonly, NSet([False] * (U + 1)))
        ctx.setcell(so.connected, NSet([True] * U + [False]))
        ctx.setcell(so.nexti, NMap([True] * U + [False], model['next']['vals'] + [0]))
        ctx.setcell(so.matchi, NMap([True] * U + [False], model['match']['vals'] + [0]))
        ctx.setcell(so.lastresp, NMap([True] * U + [False], [z3.RealVal(0)] * (U + 1)))
        conf = ctx.cell(so.confref)
        ctx.setcell(so.confref, conf.with_field('dynamicMembershipChange', False).with_field('appendEntriesUseBatch', True).with_field('onStateChanged', None))
        m2 = dict(msg)
        if 'entries' in m2:
            ecmd = [CmdV(FreshInt('ec')) for _ in m2['entries']]
            m2['entries'] = ctx.alloc(PList([(ecmd[i], e[1], e[2]) for i, e in enumerate(m2['entries'])]))
        I = make_interp(ctx, so, registry=SUMMARIES, inline=INL)
        try:
            kind_, v = run_method(I, so, HANDLER, [NodeV(model['node']), ctx.alloc(PDict(m2))])
            sym_exc = None if kind_ == 'ok' else v.typ
        except PathAbort:
            continue
        if ctx.s.check() != z3.sat:
            bad.append('path condition of a concrete run is not satisfiable (%s)' % kind)
            continue
        mdl = ctx.s.model()

        def ev(x):
            if isinstance(x, z3.ExprRef):
                r_ = mdl.eval(x, model_completion=True)
                if z3.is_int_value(r_):
                    return r_.as_long()
                if z3.is_true(r_):
                    return True
                if z3.is_false(r_):
                    return False
                return str(r_)
            return x
        lg = so.log()
        nlen = ev(to_z3(lg.n))
        vt = so.get('votedForNodeId')
        if isinstance(vt, Opt):
            vt = None if ev(vt.isnone) else vt.val
        voted = None if vt is None else ('self:1' if ev(vt.idx) >= U else 'n%d:1' % ev(vt.idx))
        sent = []
        for to, mm in ctx.glist('outbox'):
            if isinstance(mm, PDict):
                sent.append(sorted((k, ev(v_)) for k, v_ in mm.items.items() if k not in ('entries',)))
        symb = dict(term=ev(so.get('raftCurrentTerm')), role=ev(so.get('raftState')), commit=ev(so.get('raftCommitIndex')), voted=voted,
                    log=[(ev(to_z3(lg.first) + i), ev(lg.termf(z3.IntVal(i)))) for i in range(nlen)], sent=sent,
                    match=[ev(x) for x in so.cell('raftMatchIndex').vals[:U]], exc=(None if sym_exc is None else sym_exc))
        done += 1
        if symb != nat:
            diff = dict((k, (nat[k], symb[k])) for k in nat if nat[k] != symb[k])
            bad.append('%s %r on %r: native vs pyvc differ in %r' % (kind, msg, {k: model[k] for k in ('raftState', 'raftCurrentTerm', 'votedForNodeId', 'raftCommitIndex', 'log_terms_0_7', 'voters')}, diff))
    return [dict(id='*:CROSSCHECK.engine-agrees-with-CPython-on-concrete-handler-runs', unit='crosscheck.handlers', path='%d concrete runs, seed %d' % (done, seed),
                 status='discharged' if not bad else 'checker-error', solver='cpython-differential(bounded)', secs=time.time() - t0,
                 model={'disagreements': bad[:3]}, info=(bad[0] if bad else '%d concrete runs agree' % done), line=None, bounded=True)]


def pick_(i, exprs):
    i = to_z3(i)
    if not exprs:
        return z3.IntVal(0)
    r = exprs[-1]
    for k in range(len(exprs) - 2, -1, -1):
        r = z3.If(i == k, exprs[k], r)
    return r
