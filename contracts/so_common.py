"""Contract summaries (used at call sites) shared by the SyncObj units, and small helpers."""
import ast
import os
import z3
from pyvc.values import *   # noqa
from pyvc.ctx import Undecided
from pyvc import source
from .so_model import *     # noqa
from .so_model import _clen, _ctype, F


def UNIVERSE():
    return int(os.environ.get('PYVC_UNIVERSE', '4'))


def find_stmts(fn, pred):
    return [s for s in fn.body if pred(s)]


def has_node(s, typ, pred=lambda n: True):
    return any(isinstance(n, typ) and pred(n) for n in ast.walk(s))


def majority(count, nvoters):
    """count > (len(otherNodes)+1)/2 with python3 true division"""
    return to_real(count) > to_real(nvoters + 1) / 2


def count_voters(bits, conds):
    return 1 + Sum([B2I(And(b, c)) for b, c in zip(bits, conds)])


# ------------------------------------------------------------------ __getEntries: contract summary
def getEntries_summary(I, selfv, args, kwargs):
    """ensures (O1.1/O11.2): result == log[from-first : from-first+count] (clamped), [] if from is None or
    from < first; with maxSizeBytes: a prefix of that of length m, 1 <= m (when non-empty), and m == 1 when
    the first command alone reaches maxSizeBytes"""
    ctx = I.ctx
    names = ['fromIDx', 'count', 'maxSizeBytes']
    vals = dict(count=None, maxSizeBytes=None)
    for n, v in zip(names, args):
        vals[n] = v
    vals.update(kwargs)
    frm = I.unwrap(vals['fromIDx'], 'getEntries.from')
    cnt = I.unwrap(vals['count'], 'getEntries.count')
    mx = I.unwrap(vals['maxSizeBytes'], 'getEntries.max')
    so = I.hooks['so']
    log = so.log()
    if frm is None:
        return ctx.alloc(PList([]))
    first, n = to_z3(log.first), to_z3(log.n)
    frm = to_z3(frm)
    d = frm - first
    avail = z3.If(d >= n, 0, n - d)
    if cnt is not None:
        c = to_z3(cnt)
        ctx.prove(c >= 0, '*:getEntries.pre.count-nonneg')
        avail = z3.If(avail > c, c, avail)
    ln = z3.If(frm < first, 0, avail)
    if mx is not None:
        m = FreshInt('batchLen')
        e0 = log.cmdf(d)
        ctx.assume(z3.And(m >= z3.If(ln > 0, 1, 0), m <= ln, z3.Implies(z3.And(ln > 0, _clen(e0) >= to_z3(mx)), m == 1)))
        ln = m
    ln = z3.simplify(ln)

    def get(i, log=log, d=d):
        return log.get(d + to_z3(i))
    return ctx.alloc(SList(ln, get, 3))


SUMMARIES = {
    'SyncObj.__getEntries': getEntries_summary,
}


def field_unchanged(old, so, names):
    out = []
    for n in names:
        a = old.get(n)
        b = so.get(n)
        b = so.ctx.cell(b) if isinstance(b, Ref) else b
        out.append((n, same_value(a, b)))
    return out


def same_value(a, b):
    if a is b:
        return True
    if isinstance(a, NSet) and isinstance(b, NSet):
        return And(*[Iff(x, y) for x, y in zip(a.bits, b.bits)])
    if isinstance(a, NMap) and isinstance(b, NMap):
        return And(*[And(Iff(p, q), Implies(p, Eq(x, y))) for p, q, x, y in zip(a.pres, b.pres, a.vals, b.vals)])
    if isinstance(a, LogCell) and isinstance(b, LogCell):
        if a.cmdf is b.cmdf and a.termf is b.termf:
            return And(Eq(a.first, b.first), Eq(a.n, b.n))
        return False
    if isinstance(a, (PObj, PDict, PList, SList)) or isinstance(b, (PObj, PDict, PList, SList)):
        return a is b
    return Eq(a, b)


def log_same(a, b):
    return same_value(a, b)


def outbox(ctx):
    return ctx.glist('outbox')


def msg_field(m, k):
    return m.items[k]


# ------------------------------------------------------------------ frame analysis (syntactic)
MUTATORS = {'add', 'append', 'pop', 'clear', 'discard', 'remove', 'update', 'extend', 'insert', 'setdefault', 'popleft',
            'deleteEntriesFrom', 'deleteEntriesTo', 'setRaftCommitIndex', 'sort'}


def frame_of(fn):
    """self attributes a function may modify *directly*: assignment, augmented assignment, subscript store/delete,
    or a mutating method call on the attribute"""
    out = set()
    for n in ast.walk(fn):
        tg = []
        if isinstance(n, ast.Assign):
            tg = n.targets
        elif isinstance(n, ast.AugAssign):
            tg = [n.target]
        elif isinstance(n, ast.Delete):
            tg = n.targets
        for t in tg:
            for x in ast.walk(t):
                if isinstance(x, ast.Attribute) and isinstance(x.value, ast.Name) and x.value.id == 'self' and \
                        isinstance(x.ctx, (ast.Store, ast.Del)):
                    out.add(x.attr)
                if isinstance(x, (ast.Subscript,)) and isinstance(x.ctx, (ast.Store, ast.Del)):
                    b = x.value
                    if isinstance(b, ast.Attribute) and isinstance(b.value, ast.Name) and b.value.id == 'self':
                        out.add(b.attr)
        if isinstance(n, ast.Call) and isinstance(n.func, ast.Attribute) and n.func.attr in MUTATORS:
            b = n.func.value
            if isinstance(b, ast.Subscript):
                b = b.value
            if isinstance(b, ast.Attribute) and isinstance(b.value, ast.Name) and b.value.id == 'self':
                out.add(b.attr)
    return out


def self_calls(fn):
    out = set()
    for n in ast.walk(fn):
        if isinstance(n, ast.Call) and isinstance(n.func, ast.Attribute) and isinstance(n.func.value, ast.Name) \
                and n.func.value.id == 'self':
            out.add(n.func.attr)
    return out


def writers_of(mod, cls, attr):
    """methods of `cls` that directly modify self.<attr>"""
    ci = mod.classes[cls]
    return sorted(m for m, fn in ci.methods.items() if attr in frame_of(fn))


# ------------------------------------------------------------------ __sendAppendEntries: frame summary
SEND_AE_MODIFIES = {'__newAppendEntriesTime', '__raftNextIndex'}


def sendAppendEntries_summary(I, selfv, args, kwargs):
    """modifies only: newAppendEntriesTime, values of raftNextIndex (keys unchanged), connectedNodes (may
    shrink, through transport.send), serializer transmissions, the outbox.  Everything it puts on the
    wire satisfies G_AE, which is proved on the body in unit `sendAppendEntries`."""
    ctx = I.ctx
    so = I.hooks['so']
    ctx.prove(so.get('raftState') == 2, '*:sendAppendEntries.pre.is-leader')
    nx = so.cell('raftNextIndex')
    ctx.setcell(so.get('raftNextIndex'), NMap(nx.pres, [FreshInt('nextAfterSend') for _ in nx.vals]))
    conn = so.cell('connectedNodes')
    ctx.setcell(so.get('connectedNodes'), NSet([And(b, FreshBool('stillConn')) if b is not False else False for b in conn.bits]))
    c = ctx.cell(so.selfref)
    ctx.setcell(so.selfref, c.with_field(F('newAppendEntriesTime'), FreshReal('newAeTime')))
    ctx.ghost['outbox'] = ctx.glist('outbox') + [('append_entries*', None)]
    return None


SUMMARIES['SyncObj.__sendAppendEntries'] = sendAppendEntries_summary
