#!/usr/bin/env python
"""Native replay of a counter-model on the real code (run under the interpreter the test-suite uses, PYTHONPATH=<repo>).

usage: replay.py <replay.json>      exit 1 = the violated clause is reproduced natively, 0 = not reproduced, 2 = no replayer
The pre-state is built on real objects: SyncObj through its public constructor with a stub Transport and name-mangled fields,
FileJournal on a real file in a temporary directory, TcpConnection with a fake socket, batteries directly."""
from __future__ import print_function
import json
import os
import pickle
import shutil
import struct
import sys
import tempfile
import zlib


def out(*a):
    print(*a)


# ------------------------------------------------------------------------------------------------ SyncObj harness
def mk_syncobj(model, U, journal=None):
    from pysyncobj import SyncObj, SyncObjConf
    from pysyncobj.transport import Transport
    from pysyncobj.node import TCPNode
    from pysyncobj.journal import MemoryJournal

    class Stub(Transport):
        def __init__(self):
            Transport.__init__(self, None, None, [])
            self.sent = []

        def send(self, node, message):
            self.sent.append((node, message))
            return True

        def addNode(self, node):
            pass

        def dropNode(self, node):
            pass

    t = Stub()
    others = ['n%d:1' % i for i in range(U)]
    conf = SyncObjConf(autoTick=False, dynamicMembershipChange=bool(model.get('conf.dynamicMembershipChange', False)),
                       appendEntriesUseBatch=bool(model.get('conf.appendEntriesUseBatch', True)))
    obj = SyncObj('self:1', others, conf=conf, transport=t)
    nodes = [TCPNode(a) for a in others]
    P = '_SyncObj__'

    def setf(n, v):
        setattr(obj, P + n, v)
    voters = model.get('voters') or [True] * U
    setf('otherNodes', set(n for n, b in zip(nodes, voters) if b))
    setf('raftState', int(model.get('raftState', 0)))
    setf('raftCurrentTerm', int(model.get('raftCurrentTerm', 0)))
    v = model.get('votedForNodeId')
    setf('votedForNodeId', None if v is None else ('self:1' if v >= U else others[v]))
    setf('votesCount', int(model.get('votesCount', 0)))
    setf('raftCommitIndex', int(model.get('raftCommitIndex', 1)))
    setf('raftLastApplied', int(model.get('raftLastApplied', 1)))
    first, n = int(model.get('log_first', 1)), int(model.get('log_len', 1))
    if n > 8 or n < 1:
        return None
    terms = model.get('log_terms_0_7') or [0] * 8
    j = MemoryJournal()
    for i in range(n):
        j.add(b'\x01', first + i, int(terms[i]))
    setf('raftLog', j)
    for nm, key in (('raftNextIndex', 'next'), ('raftMatchIndex', 'match'), ('lastResponseTime', 'lastResp')):
        d = model.get(key) or {}
        m = {}
        for i, nd in enumerate(nodes):
            if (d.get('present') or [True] * U)[i]:
                m[nd] = (d.get('vals') or [0] * U)[i]
        setf(nm, m)
    return obj, t, nodes


def log_list(obj):
    j = getattr(obj, '_SyncObj__raftLog')
    return [j[i] for i in range(len(j))]


def replay_append_entries(body):
    m = body['model'] or {}
    U = len(m.get('voters') or []) - 1 if m.get('voters') else 4
    U = max(U, 1)
    r = mk_syncobj(m, U)
    if r is None:
        return 2, 'model not small enough to rebuild the journal'
    obj, t, nodes = r
    kind = (body.get('case') or {}).get('kind', 'regular')
    node = nodes[int(m.get('node', 0)) % U]
    msg = {'type': 'append_entries', 'term': int(m.get('msg.term', 0)), 'commit_index': int(m.get('msg.commit_index', 0))}
    ents = []
    if kind == 'regular':
        p = int(m.get('msg.prevLogIdx', 1))
        k = int(m.get('msg.entries_len', 0))
        if k > 4 or k < 0:
            return 2, 'entries too long in model'
        et = m.get('msg.entries_terms_0_3') or [0] * 4
        ents = [(b'\x01', p + 1 + i, int(et[i])) for i in range(k)]
        msg.update(prevLogIdx=p, prevLogTerm=int(m.get('msg.prevLogTerm', 0)), entries=ents)
    elif kind == 'snapshot':
        msg['serialized'] = (b'zz', True, False)
    elif kind in ('start', 'process'):
        msg.update(prevLogIdx=int(m.get('msg.prevLogIdx', 1)), prevLogTerm=int(m.get('msg.prevLogTerm', 0)), transmission=kind, data=b'x')
    old_log = log_list(obj)
    c0 = obj.raftCommitIndex
    t0 = obj.raftCurrentTerm
    try:
        obj._SyncObj__onMessageReceived(node, msg)
    except Exception as e:
        return (1 if 'no-exception' in body['obligation'] else 0), 'raised %r' % (e,)
    new_log = log_list(obj)
    c1 = obj.raftCommitIndex
    ob = body['obligation']
    out('pre: log=%r commit=%d term=%d  msg=%r' % (old_log, c0, t0, msg))
    out('post: log=%r commit=%d' % (new_log, c1))
    if msg['term'] < t0:
        return (1 if (new_log != old_log or c1 != c0) else 0), 'stale term'
    if kind != 'regular':
        if 'leaves-commit' in ob:
            return (1 if c1 != c0 else 0), 'commit %d -> %d on a message that verified nothing' % (c0, c1)
        if 'leaves-log' in ob:
            return (1 if new_log != old_log else 0), 'journal changed'
        return 2, 'no native clause for %s' % ob
    p = msg['prevLogIdx']
    first = old_log[0][1]
    acc = first <= p <= old_log[-1][1] and old_log[p - first][2] == msg['prevLogTerm']
    v = p + len(ents)
    if 'R8' in ob:
        bad = (c1 > max(c0, min(msg['commit_index'], v))) if acc else (c1 != c0)
        if 'monotone' in ob:
            bad = c1 < c0
        return (1 if bad else 0), 'commit %d -> %d, verified up to %d, leader commit %d' % (c0, c1, v, msg['commit_index'])
    if 'R6' in ob:
        return (1 if (not acc and (new_log != old_log or c1 != c0)) else 0), 'rejected message changed state'
    if 'R7' in ob:
        if not acc:
            return 0, 'not accepted'
        d = dict((e[1], e) for e in new_log)
        conflict = any((e[1] in dict((x[1], x) for x in old_log)) and dict((x[1], x) for x in old_log)[e[1]][2] != e[2] for e in ents)
        bad = any(e[1] not in d or d[e[1]][2] != e[2] for e in ents)
        lost = [x for x in old_log if x[1] > p and x[1] not in d]
        if 'no-deletion' in ob:
            bad = bool(lost) and not conflict
        return (1 if bad else 0), 'lost=%r conflict=%r' % (lost, conflict)
    return 2, 'no native clause for %s' % ob


def replay_request_vote(body):
    m = body['model'] or {}
    U = max(len(m.get('voters') or [0] * 5) - 1, 1)
    r = mk_syncobj(m, U)
    if r is None:
        return 2, 'model not small enough'
    obj, t, nodes = r
    node = nodes[int(m.get('node', 0)) % U]
    msg = {'type': 'request_vote', 'term': int(m.get('msg.term', 0)), 'last_log_index': int(m.get('msg.last_log_index', 0)),
           'last_log_term': int(m.get('msg.last_log_term', 0))}
    t0, vf0 = obj.raftCurrentTerm, getattr(obj, '_SyncObj__votedForNodeId')
    log = log_list(obj)
    obj._SyncObj__onMessageReceived(node, msg)
    granted = [x for x in t.sent if x[1].get('type') == 'response_vote']
    out('pre term=%d votedFor=%r log=%r msg=%r -> granted=%r term=%d' % (t0, vf0, log, msg, bool(granted), obj.raftCurrentTerm))
    ob = body['obligation']
    if not granted:
        return 0, 'no vote granted'
    if 'single-vote' in ob:
        return (1 if (msg['term'] <= t0 and vf0 is not None) else 0), 'second vote in term %d' % t0
    if 'up-to-date' in ob:
        lt, li = log[-1][2], log[-1][1]
        ok = msg['last_log_term'] > lt or (msg['last_log_term'] == lt and msg['last_log_index'] >= li)
        return (0 if ok else 1), 'vote for a candidate whose log is behind'
    if 'current-term' in ob:
        return (1 if msg['term'] != obj.raftCurrentTerm else 0), 'vote for stale term'
    return 2, 'no native clause for %s' % ob


def replay_response_vote(body):
    m = body['model'] or {}
    U = max(len(m.get('voters') or [0] * 5) - 1, 1)
    r = mk_syncobj(m, U)
    if r is None:
        return 2, 'model not small enough'
    obj, t, nodes = r
    r0, v0, t0 = getattr(obj, '_SyncObj__raftState'), getattr(obj, '_SyncObj__votesCount'), obj.raftCurrentTerm
    nv = len(getattr(obj, '_SyncObj__otherNodes'))
    obj._SyncObj__onMessageReceived(nodes[0], {'type': 'response_vote', 'term': int(m.get('msg.term', 0))})
    r1, v1 = getattr(obj, '_SyncObj__raftState'), getattr(obj, '_SyncObj__votesCount')
    out('role %d->%d votes %d->%d voters=%d' % (r0, r1, v0, v1, nv))
    ob = body['obligation']
    if 'majority' in ob:
        return (1 if (r1 == 2 and r0 != 2 and not v1 > (nv + 1) / 2.0) else 0), 'leader without majority'
    if 'stale' in ob:
        counted = r0 == 1 and int(m.get('msg.term', 0)) == t0
        return (1 if (not counted and (v1 != v0 or r1 != r0)) else 0), 'stale vote counted'
    return 2, 'no native clause'


def replay_next_node_idx(body):
    m = body['model'] or {}
    U = max(len(m.get('voters') or [0] * 5) - 1, 1)
    r = mk_syncobj(m, U)
    if r is None:
        return 2, 'model not small enough'
    obj, t, nodes = r
    node = nodes[int(m.get('node', 0)) % U]
    match0 = dict(getattr(obj, '_SyncObj__raftMatchIndex'))
    role = getattr(obj, '_SyncObj__raftState')
    msg = {'type': 'next_node_idx', 'next_node_idx': int(m.get('msg.next_node_idx', 1)), 'reset': bool(m.get('msg.reset', False)), 'success': bool(m.get('msg.success', False))}
    try:
        obj._SyncObj__onMessageReceived(node, msg)
    except KeyError:
        return 0, 'sender not tracked'
    match1 = getattr(obj, '_SyncObj__raftMatchIndex')
    out('role=%d msg=%r match %r -> %r' % (role, msg, match0, dict(match1)))
    for n_, v in match0.items():
        if match1.get(n_) != v:
            ok = role == 2 and n_ == node and msg['success'] and match1[n_] == msg['next_node_idx'] - 1 and match1[n_] > v
            if not ok:
                return 1, 'matchIndex of %s changed %r -> %r without a success reply naming it' % (n_, v, match1.get(n_))
    if role == 2 and msg['success'] and node in match0 and match1[node] != max(match0[node], msg['next_node_idx'] - 1):
        return 1, 'matchIndex is not max(old, acknowledged)'
    return 0, 'R10 holds natively'


def replay_tick_leader(body):
    import time as _t
    m = body['model'] or {}
    U = max(len(m.get('voters') or [0] * 5) - 1, 1)
    m = dict(m)
    m['raftState'] = 2
    r = mk_syncobj(m, U)
    if r is None:
        return 2, 'model not small enough'
    obj, t, nodes = r
    now = _t.time()
    from pysyncobj.monotonic import monotonic
    setattr(obj, '_SyncObj__lastResponseTime', dict((n_, monotonic()) for n_ in nodes))
    setattr(obj, '_SyncObj__noopIDx', 1)
    setattr(obj, '_SyncObj__connectedNodes', set())
    c0 = obj.raftCommitIndex
    log = log_list(obj)
    voters = getattr(obj, '_SyncObj__otherNodes')
    match = getattr(obj, '_SyncObj__raftMatchIndex')
    try:
        obj._onTick(0.0)
    except Exception as e:
        return (1 if 'no-exception' in body['obligation'] else 0), 'tick raised %r' % (e,)
    c1 = obj.raftCommitIndex
    out('log=%r term=%d commit %d -> %d voters=%r match=%r' % (log, obj.raftCurrentTerm, c0, c1, sorted(n_.id for n_ in voters), dict((k.id, v) for k, v in match.items())))
    if c1 < c0:
        return 1, 'commit index moved backwards'
    if c1 > c0:
        cnt = 1 + sum(1 for n_ in voters if match.get(n_, 0) >= c1)
        first = log[0][1]
        term_ok = first <= c1 <= log[-1][1] and log[c1 - first][2] == obj.raftCurrentTerm
        if not (cnt > (len(voters) + 1) / 2.0) or not term_ok:
            return 1, 'commit advanced to %d with %d of %d holders, own-term entry: %r' % (c1, cnt, len(voters) + 1, term_ok)
    return 0, 'R9 holds natively'


# ------------------------------------------------------------------------------------------------ tcp
def replay_tcp_parse(body):
    from pysyncobj.tcp_connection import TcpConnection, CONNECTION_STATE

    class FakePoller(object):
        def subscribe(self, *a):
            pass

        def unsubscribe(self, *a):
            pass

    class FakeSock(object):
        def fileno(self):
            return 7

        def close(self):
            pass

        def setsockopt(self, *a):
            pass
    z = zlib.compress(pickle.dumps('forged'), 3)
    frame = struct.pack('i', len(z)) + z
    scenarios = [('negative-length', struct.pack('i', -5) + z + b'x', 'disconnect')]
    for cut in range(0, len(frame)):
        scenarios.append(('incomplete-%d' % cut, frame[:cut], 'wait'))
    scenarios.append(('complete', frame, 'deliver'))
    scenarios.append(('complete+tail', frame + b'tail', 'deliver'))
    scenarios.append(('garbage-payload', struct.pack('i', 5) + b'\x00\x01\x02\x03\x04rest', 'disconnect'))
    for nm, raw in (('zlib-valid-empty-pickle', b''), ('zlib-valid-truncated-pickle', pickle.dumps({'a': [1, 2, 3]})[:-3]),
                    ('zlib-valid-unknown-class', b'cno_such_module\nNoSuchClass\n.')):
        zz = zlib.compress(raw, 3)
        scenarios.append((nm, struct.pack('i', len(zz)) + zz + b'tail', 'disconnect'))
    for name, buf, want in scenarios:
        delivered = []
        c = TcpConnection(FakePoller(), onMessageReceived=delivered.append, socket=FakeSock())
        setattr(c, '_TcpConnection__readBuffer', buf)
        try:
            msg = c._TcpConnection__processParseMessage()
        except Exception as e:
            return 1, '%s: exception escaped: %r' % (name, e)
        rest = getattr(c, '_TcpConnection__readBuffer')
        if want == 'disconnect' and (msg is not None or c.state != CONNECTION_STATE.DISCONNECTED):
            return 1, '%s: buffer %r -> message=%r state=%r (expected disconnect, nothing delivered)' % (name, buf[:12], msg, c.state)
        if want == 'wait' and (msg is not None or rest != buf or c.state != CONNECTION_STATE.CONNECTED):
            return 1, '%s: %d of %d frame bytes present -> message=%r state=%r rest=%d bytes (expected: wait, buffer untouched)' % (
                name, len(buf), len(frame), msg, c.state, len(rest))
        if want == 'deliver' and (msg != 'forged' or rest != buf[len(frame):]):
            return 1, '%s: message=%r rest=%r (expected the message and exactly the frame consumed)' % (name, msg, rest)
    return 0, 'all native framing scenarios behave as the contract says'


# ------------------------------------------------------------------------------------------------ journal
def replay_journal(body):
    from pysyncobj.journal import createJournal
    d = tempfile.mkdtemp(prefix='replay_journal_')
    try:
        path = os.path.join(d, 'j.bin')
        j = createJournal(path)
        ref = []
        sizes = [0, 1, 17, 3000, 5, 2500]
        try:
            for i, s in enumerate(sizes):
                e = (b'x' * s, i + 1, 7)
                j.add(*e)
                ref.append(e)
            j.deleteEntriesFrom(4)
            del ref[4:]
            j.add(b'yy', 5, 8)
            ref.append((b'yy', 5, 8))
        except Exception as e:
            return 1, 'journal operation raised %r' % (e,)
        got = [j[i] for i in range(len(j))]
        j._destroy()
        j2 = createJournal(path)
        got2 = [j2[i] for i in range(len(j2))]
        j2._destroy()
        out('in-memory equal: %r, after reopen equal: %r' % (got == ref, got2 == ref))
        return (1 if (got != ref or got2 != ref) else 0), 'file journal differs from the list'
    finally:
        shutil.rmtree(d, ignore_errors=True)


def replay_journal_creation(body):
    """every state a kill during the creation of the journal file can leave (the file exists and holds a prefix of the header):
    the journal must open, be empty, accept an append and still hold it after another reopen"""
    from pysyncobj.journal import createJournal
    d = tempfile.mkdtemp(prefix='replay_jcreate_')
    bad = []
    try:
        j = createJournal(os.path.join(d, 'ref.bin'))
        j._destroy()
        with open(os.path.join(d, 'ref.bin'), 'rb') as f:
            header = f.read()[:40]
        for k in range(0, 41):
            p = os.path.join(d, 'j%d.bin' % k)
            with open(p, 'wb') as f:
                f.write(header[:k])
            try:
                j = createJournal(p)
                n = len(j)
                j.add(b'cmd', 1, 1)
                j._destroy()
                j = createJournal(p)
                ok = len(j) == 1 and j[0] == (b'cmd', 1, 1) and n == 0
                j._destroy()
                if not ok:
                    bad.append('kill after %d header bytes reached the file: journal reopens wrongly' % k)
            except Exception as e:
                bad.append('kill after %d header bytes reached the file: reopening raises %r' % (k, e))
        for b in bad:
            out(b)
        return (1 if bad else 0), ('a kill during the creation of the journal file leaves a file that cannot be opened' if bad else 'every creation kill state reopens as an empty journal')
    finally:
        shutil.rmtree(d, ignore_errors=True)


def replay_battery_init(body):
    """construct every stateful battery natively and compare what _serialize() returns with the attributes its __init__ created"""
    import pysyncobj.batteries as B
    bad = []
    for name, args in (('ReplCounter', ()), ('ReplList', ()), ('ReplDict', ()), ('ReplSet', ()), ('ReplQueue', (3,)), ('ReplPriorityQueue', (3,)),
                       ('_ReplLockManagerImpl', (10.0,))):
        o = getattr(B, name)(*args)
        state = sorted(k for k in vars(o) if k not in ('_syncObj', '_SyncObjConsumer__properies'))
        got = sorted(o._serialize())
        if got != state:
            bad.append('%s: _serialize() holds %r, the state attributes are %r' % (name, got, state))
    for b in bad:
        out(b)
    return (1 if bad else 0), ('a battery drops state from its snapshot' if bad else 'every battery serialises exactly its state attributes')


def replay_select_dispatch(body):
    """two descriptors ready in the same select round; the callback of the first one unsubscribes the second (as dropNode / disconnect of
    another connection does from inside a message handler): poll() must not raise"""
    import select
    from pysyncobj.poller import SelectPoller, POLL_EVENT_TYPE
    bad = []
    for first in (5, 6):
        p = SelectPoller()
        calls = []

        def cb(d, ev, p=p, calls=calls):
            calls.append((d, ev))
            p.unsubscribe(5)
            p.unsubscribe(6)
        p.subscribe(5, cb, POLL_EVENT_TYPE.READ)
        p.subscribe(6, cb, POLL_EVENT_TYPE.READ | POLL_EVENT_TYPE.ERROR)
        real = select.select
        select.select = lambda r, w, x, t: ([5, 6], [], [6])
        try:
            try:
                p.poll(0.0)
            except Exception as e:
                bad.append('%r escapes SelectPoller.poll() after the callbacks %r' % (e, calls))
        finally:
            select.select = real
        if len(calls) != 1:
            bad.append('%d callbacks ran, expected 1 (the other descriptor was unsubscribed by the first callback)' % len(calls))
    for b in bad[:4]:
        out(b)
    return (1 if bad else 0), ('an exception of the dispatch escapes the event loop' if bad else 'unsubscribed descriptors are skipped')


def replay_deaf_server(body):
    """two real nodes on loopback; the listening node's first accept() fails with ECONNABORTED (the client gave up); afterwards the network is
    fine and the two nodes must get connected within 10 s of ticking"""
    import errno
    import socket
    import time
    from pysyncobj import SyncObj, SyncObjConf

    def free_port():
        s = socket.socket()
        s.bind(('127.0.0.1', 0))
        p = s.getsockname()[1]
        s.close()
        return p

    class FlakyListener(object):
        def __init__(self, real):
            self.real, self.failed = real, False

        def accept(self):
            if not self.failed:
                self.failed = True
                try:
                    c, _ = self.real.accept()
                    c.close()
                except socket.error:
                    pass
                raise socket.error(errno.ECONNABORTED, 'Software caused connection abort')
            return self.real.accept()

        def __getattr__(self, n):
            return getattr(self.real, n)
    pa, pb = sorted([free_port(), free_port()])
    a_addr, b_addr = '127.0.0.1:%d' % pa, '127.0.0.1:%d' % pb
    conf = lambda: SyncObjConf(autoTick=False, connectionRetryTime=0.5, connectionTimeout=3.0)
    a = SyncObj(a_addr, [b_addr], conf=conf())
    srv = a._SyncObj__transport._server
    flaky = FlakyListener(srv._TcpServer__socket)
    srv._TcpServer__socket = flaky
    b = SyncObj(b_addr, [a_addr], conf=conf())
    deadline = time.time() + 10.0
    ok = False
    while time.time() < deadline:
        a.doTick(0.02)
        b.doTick(0.02)
        if flaky.failed and a.isNodeConnected(b.selfNode) and b.isNodeConnected(a.selfNode):
            ok = True
            break
    out('accept failed once: %s; the two nodes connected afterwards: %s' % (flaky.failed, ok))
    a.destroy()
    b.destroy()
    for _ in range(5):
        try:
            a.doTick(0.01)
            b.doTick(0.01)
        except Exception:
            pass
    return (0 if ok else 1), ('after one failed accept the node never accepts a connection again' if not ok else 'the server was bound again')


def replay_stale_own_dump(body):
    """runs repros/D22_stale_own_dump_overwrites_installed_snapshot.py: a follower's own slow forked dump finishes after it installed a newer
    snapshot from the leader; after a restart the journal entries it acknowledged must still be there"""
    import subprocess
    here = os.path.dirname(os.path.abspath(__file__))
    p = subprocess.run([sys.executable, os.path.join(here, 'repros', 'D22_stale_own_dump_overwrites_installed_snapshot.py')], stdout=subprocess.PIPE, stderr=subprocess.STDOUT,
                       env=dict(os.environ), timeout=100)
    txt = p.stdout.decode('utf-8', 'replace').strip().split('\n')
    for l in txt[-3:]:
        out(l)
    return (1 if p.returncode == 1 else 0), ('the older own dump was renamed over the installed snapshot: the restarted node forgot acknowledged entries' if p.returncode == 1 else 'the own dump child was stopped')


def replay_handshake(body):
    """runs repros/D23_unhashable_handshake.py: arbitrary picklable first messages on an incoming connection (lists that are no utility command,
    the empty list, dicts, nested lists, numbers, None, bytes): the connection must be dropped, nothing may raise out of the handler"""
    import subprocess
    here = os.path.dirname(os.path.abspath(__file__))
    p = subprocess.run([sys.executable, os.path.join(here, 'repros', 'D23_unhashable_handshake.py')], stdout=subprocess.PIPE, stderr=subprocess.STDOUT, env=dict(os.environ), timeout=100)
    for l in p.stdout.decode('utf-8', 'replace').strip().split('\n')[-4:]:
        out(l)
    return (1 if p.returncode == 1 else 0), ('a malformed first message raises out of the event loop' if p.returncode == 1 else 'malformed first messages get the connection dropped')


def replay_meta(body):
    """kill-point enumeration on the real MetaStorer.storeMeta: the k-th primitive file operation (open / write / flush / close /
    os.remove / os.rename / shutil.move ...) is the last one to happen before the process dies; the .meta file is then read back"""
    import builtins
    import pysyncobj.journal as J

    class Kill(BaseException):
        pass

    d = tempfile.mkdtemp(prefix='replay_meta_')
    bad = []
    try:
        for existed in (False, True):
            k = 0
            while True:
                k += 1
                path = os.path.join(d, 'j_%d_%d.meta' % (existed, k))
                ms = J.MetaStorer(path)
                if existed:
                    ms.storeMeta({'raftCommitIndex': 5})
                count = [0]

                def tick():
                    count[0] += 1
                    if count[0] == k:
                        raise Kill()

                class F(object):
                    def __init__(self, f):
                        self.f = f

                    def write(self, b):
                        # a kill can also tear a write: only the first half reaches the file
                        half = b[:len(b) // 2]
                        count[0] += 1
                        if count[0] == k:
                            self.f.write(half)
                            self.f.flush()
                            raise Kill()
                        return self.f.write(b)

                    def __getattr__(self, n):
                        return getattr(self.f, n)

                    def __enter__(self):
                        return self

                    def __exit__(self, *a):
                        self.f.close()
                        return False

                real = dict(open=builtins.open, remove=os.remove, unlink=os.unlink, rename=os.rename, replace=os.replace, move=shutil.move)

                def wrap(fn):
                    def g(*a, **kw):
                        r = fn(*a, **kw)
                        tick()
                        return r
                    return g

                def my_open(*a, **kw):
                    f = real['open'](*a, **kw)
                    if len(a) > 1 and 'w' in a[1]:
                        tick()
                        return F(f)
                    return f
                J.open = my_open
                os.remove, os.unlink, os.rename, os.replace, shutil.move = (wrap(real[n]) for n in ('remove', 'unlink', 'rename', 'replace', 'move'))
                killed = False
                try:
                    ms.storeMeta({'raftCommitIndex': 9})
                except Kill:
                    killed = True
                finally:
                    del J.open
                    os.remove, os.unlink, os.rename, os.replace, shutil.move = (real[n] for n in ('remove', 'unlink', 'rename', 'replace', 'move'))
                got = J.MetaStorer(path).getMeta().get('raftCommitIndex', 1)
                allowed = (5, 9) if existed else (1, 9)
                if got not in allowed:
                    bad.append('meta existed=%s, killed after file operation #%d: commit index read back = %r, allowed %r' % (existed, k, got, allowed))
                if not killed:
                    if got != 9:
                        bad.append('completed storeMeta read back as %r' % (got,))
                    break
        for b in bad:
            out(b)
        return (1 if bad else 0), ('a kill inside storeMeta leaves a commit index that was never set' if bad else 'every kill point leaves the old or the new meta')
    finally:
        shutil.rmtree(d, ignore_errors=True)


# ------------------------------------------------------------------------------------------------ batteries
def replay_battery(body):
    import pysyncobj.batteries as B
    unit = body['unit']
    _, cls, meth = unit.split('.', 2)
    ref_cls = {'ReplList': list, 'ReplDict': dict, 'ReplSet': set}
    if cls not in ref_cls:
        return 2, 'no native replayer for %s' % cls
    samples = {'ReplList': [[], [3, 1, 2], [5]], 'ReplDict': [{}, {'a': 1}], 'ReplSet': [set(), {1, 2}]}[cls]
    argsets = {'pop': [(), (0,)] if cls == 'ReplList' else ([('a',), ('zz',), ('zz', 9)] if cls == 'ReplDict' else [()]),
               'sort': [(), (True,)], 'get': [(0,)] if cls == 'ReplList' else [('a',), ('zz',), ('zz', 5)]}.get(meth)
    if argsets is None:
        return 2, 'no native argument sets for %s' % meth
    for st in samples:
        for a in argsets:
            obj = getattr(B, cls)()
            setattr(obj, '_%s__data' % cls, type(st)(st))
            ref = type(st)(st)
            try:
                want = ('ok', getattr(ref, meth if meth != 'get' or cls == 'ReplDict' else '__getitem__')(*a))
            except Exception as e:
                want = ('raise', type(e).__name__)
            try:
                got = ('ok', getattr(obj, meth)(*a, _doApply=True))
            except Exception as e:
                got = ('raise', type(e).__name__)
            if got != want or getattr(obj, '_%s__data' % cls) != ref:
                return 1, '%s(%r).%s%r: battery %r, builtin %r' % (cls, st, meth, a, got, want)
    return 0, 'agrees with the builtin on the native samples'


REPLAYERS = {
    'msg.append_entries': replay_append_entries,
    'msg.request_vote': replay_request_vote,
    'msg.response_vote': replay_response_vote,
    'msg.next_node_idx': replay_next_node_idx,
    'tick.leader': replay_tick_leader,
    'tcp.parse': replay_tcp_parse,
    'ResizableFile.write': replay_journal, 'FileJournal.add': replay_journal, 'FileJournal.reopen': replay_journal,
    'FileJournal.deleteEntriesFrom': replay_journal, 'FileJournal.clear': replay_journal,
    'MetaStorer.storeMeta': replay_meta,
    'transport.incoming': replay_handshake,
    'serializer.setTransmissionData.file': replay_stale_own_dump,
    'transport.maybeBind': replay_deaf_server,
    'poller.select.dispatch': replay_select_dispatch,
    'bat.init-state-serialized': replay_battery_init,
    'ResizableFile.open': replay_journal_creation,
}


def main():
    with open(sys.argv[1]) as f:
        body = json.load(f)
    unit = body.get('unit', '')
    fn = REPLAYERS.get(unit)
    if fn is None and unit.startswith('bat.'):
        fn = replay_battery
    out('replay of %s / %s' % (unit, body.get('obligation')))
    if fn is None:
        out('no native replayer for this unit; the failed obligation and the solver output are in the replay file')
        return 2
    try:
        rc, text = fn(body)
    except Exception as e:
        import traceback
        traceback.print_exc()
        return 2
    out(text)
    out('REPRODUCED' if rc == 1 else ('NOT-REPRODUCED' if rc == 0 else 'NO-REPLAYER'))
    return rc


if __name__ == '__main__':
    sys.exit(main())
